#!/usr/bin/env python3
# mutants under refactoring: apply a stored refactoring, then a corpus mutant on a line the refactoring left intact (inside or next to its hunks); the checker must still alarm
import json,subprocess,sys,re,glob,os,random
W=sys.argv[1]; BIN=sys.argv[2]; shard=int(sys.argv[3]); nshards=int(sys.argv[4])
rows=[json.loads(l) for l in open('/verif/mutation/corpus.jsonl')]
byfile={}
for r in rows: byfile.setdefault(r['file'],[]).append(r)
diffs=sorted(glob.glob('/verif/refactors/*.diff'))
random.seed(7)
def sh(*a): return subprocess.run(a,capture_output=True,text=True)
orig={}
for f in byfile:
    orig[f]=open('/repo/'+f,'rb').read()
jobs=[]
for d in diffs:
    txt=open(d).read()
    cur=None; hunks={}
    for line in txt.split('\n'):
        m=re.match(r'^--- a/(.*)$',line)
        if m: cur=m.group(1); continue
        m=re.match(r'^@@ -(\d+)(?:,(\d+))? ',line)
        if m and cur:
            s=int(m.group(1)); n=int(m.group(2) or 1)
            hunks.setdefault(cur,[]).append((s,s+n))
    cands=[]
    for f,hs in hunks.items():
        for r in byfile.get(f,[]):
            if any(a-2<=r['line']<=b+2 for a,b in hs): cands.append(r)
    random.shuffle(cands)
    for r in cands[:6]: jobs.append((d,r))
jobs=[j for i,j in enumerate(jobs) if i%nshards==shard]
for d,r in jobs:
    sh('git','-C',W,'checkout','-q','--','.')
    if sh('git','-C',W,'apply',d).returncode!=0:
        print(os.path.basename(d),r['id'],'APPLY-FAIL',flush=True); continue
    f=r['file']; src=orig[f]
    st=r['start']; old=r['old'].encode(); new=r['new'].encode()
    ls=src.rfind(b'\n',0,st)+1; le=src.find(b'\n',st)
    line=src[ls:le]
    if old==b'' or src[st:st+len(old)]!=old: 
        # statement deletions carry the whole statement
        pass
    cur=open(W+'/'+f,'rb').read()
    key=line.strip()
    idxs=[m.start() for m in re.finditer(re.escape(key),cur)] if key else []
    if len(idxs)!=1 or src.count(key)!=1:
        print(os.path.basename(d),r['id'],'SKIP-line-changed',flush=True); continue
    off_in_line=st-(ls+(len(line)-len(line.lstrip())))
    pos=idxs[0]+off_in_line
    if cur[pos:pos+len(old)]!=old:
        print(os.path.basename(d),r['id'],'SKIP-offset',flush=True); continue
    open(W+'/'+f,'wb').write(cur[:pos]+new+cur[pos+len(old):])
    env=dict(os.environ); env.update(GOFLAGS='-mod=mod',GOPROXY='off')
    b=subprocess.run(['go','build','./...'],cwd=W,capture_output=True,text=True,env=env)
    if b.returncode!=0:
        print(os.path.basename(d),r['id'],'SKIP-nobuild',flush=True); continue
    out=sh(BIN,'-all','-no-evidence','-repo',W); t=out.stdout+out.stderr
    al=sorted(set(re.findall(r'^(C\d+) VIOLATED',t,re.M))); un=sorted(set(re.findall(r'^(C\d+) UNDECIDED',t,re.M)))
    want=set(r['alarms'])
    if want & set(al): status='ok'
    elif want & set(un): status='UNDECIDED-ONLY'
    else: status='LOST'
    print(os.path.basename(d),r['id'],r['file'],r['line'],r['op'],repr(r['old'][:30]),'->',repr(r['new'][:30]),status,'want=',sorted(want),'alarms=',al,'undecided=',un,flush=True)
sh('git','-C',W,'checkout','-q','--','.')
print('shard done',shard,flush=True)
