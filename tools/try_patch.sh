#!/bin/bash
# usage: try_patch.sh <patch.diff>   - applies the patch to /repo (or $TRY_REPO, a scratch worktree), runs all quick checks in one analysis, reverts.
set -u
PATCH="$1"
R="${TRY_REPO:-/repo}"
cd "$R" || exit 2
if [ -n "$(git status --porcelain)" ]; then echo "/repo not clean" >&2; exit 2; fi
git apply "$PATCH" || { echo "patch does not apply" >&2; exit 2; }
out=$(/verif/bin/ogcheck -all -no-evidence -repo "$R" 2>&1)
git checkout -- . && git clean -fdq
alarms=$(echo "$out" | grep -E '^C[0-9]+ VIOLATED' | awk '{print $1}' | paste -sd,)
undec=$(echo "$out" | grep -E '^C[0-9]+ UNDECIDED' | awk '{print $1}' | paste -sd,)
rules=$(echo "$out" | grep "^  rule" | awk '{print $2}' | sort -u | paste -sd,)
echo "alarms=[$alarms] undecided=[$undec] rules=[$rules]"
if [ "${VERBOSE:-0}" = 1 ]; then echo "$out" | grep "^  rule\|^UNDECIDED" | sort -u | cut -c1-300; fi
