#!/bin/bash
# usage: confirm_seed.sh <PROP> <m1|m2> [go test extra flags]
# Confirms a sub-agent's seeded change in its scratch worktree: suite passes with the change, demo fails with it and passes without.
set -u
P=$1; M=$2; shift 2
W=${SEEDBASE:-/tmp/seed}-$P
D=$W/out/$M
export GOFLAGS=-mod=mod GOPROXY=off
cd $W || exit 2
git checkout -q -- . ; git clean -fdq -e out
tests=$(ls $D/*_test.go 2>/dev/null)
pkgdir=.; placed=""; dirs=""
# package dir from the package clause
for t in $tests; do
  pk=$(grep -m1 '^package ' $t | awk '{print $2}'); pk=${pk%_test}
  case $pk in originium) pkgdir=. ;; wal) pkgdir=wal ;; table) pkgdir=table ;; watermark) pkgdir=pkg/watermark ;; skiplist) pkgdir=pkg/skiplist ;; filter) pkgdir=pkg/filter ;; kway) pkgdir=pkg/kway ;; types) pkgdir=types ;; utils) pkgdir=utils ;; bufferpool) pkgdir=pkg/bufferpool ;; esac
  cp $t $pkgdir/; placed="$placed $pkgdir/$(basename $t)"; dirs="$dirs ./$pkgdir"
done
names=$(grep -h '^func Test' $tests | sed 's/func \(Test[A-Za-z0-9_]*\).*/\1/' | paste -sd'|')
echo "[$P/$M] pkg=$pkgdir tests=$names"
go test -count=1 "$@" -run "^($names)\$" $(echo $dirs | tr " " "\n" | sort -u) > /tmp/confirm-$P-$M-clean.log 2>&1; c1=$?
git apply $D/patch.diff || { echo "[$P/$M] PATCH DOES NOT APPLY"; exit 1; }
go build ./... > /tmp/confirm-$P-$M-build.log 2>&1; cb=$?
go test -count=1 "$@" -run "^($names)\$" $(echo $dirs | tr " " "\n" | sort -u) > /tmp/confirm-$P-$M-mut.log 2>&1; c2=$?
# the existing suite (without the demo files)
rm -f $placed
go test -count=1 ./... > /tmp/confirm-$P-$M-suite.log 2>&1; c3=$?
git checkout -q -- . ; git clean -fdq -e out
echo "[$P/$M] demo on clean tree: exit $c1 (want 0); build with change: $cb (want 0); demo with change: exit $c2 (want != 0); suite with change: exit $c3 (want 0)"
