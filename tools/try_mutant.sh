#!/bin/bash
# usage: try_mutant.sh <mutant id>...   - applies a mutant of /tmp/mutants to the scratch worktree /tmp/og and runs all quick checks
for id in "$@"; do
  f=$(jq -r "select(.id==\"$id\") | .file" /tmp/mutants/mutants.jsonl)
  git -C /tmp/og checkout -q -- . ; cp /tmp/mutants/$id.src /tmp/og/$f
  out=$(/verif/bin/ogcheck -all -no-evidence -repo /tmp/og 2>&1)
  al=$(echo "$out" | grep -E '^C[0-9]+ VIOLATED' | awk '{print $1}' | paste -sd,); un=$(echo "$out" | grep -E '^C[0-9]+ UNDECIDED' | awk '{print $1}' | paste -sd,)
  ru=$(echo "$out" | grep -E "^  rule|^UNDECIDED" | sed -E 's/^  rule ([A-Z.0-9]+).*/\1/; s/^UNDECIDED property=C[0-9]+ rule=([A-Z.0-9]+).*/\1?/' | sort -u | paste -sd,)
  echo "$id $(jq -r "select(.id==\"$id\") | [.file,.line,.func,.op]|@tsv" /tmp/mutants/mutants.jsonl | tr '\t' ' ') alarms=[$al] undecided=[$un] rules=[$ru]"
  git -C /tmp/og checkout -q -- .
done
