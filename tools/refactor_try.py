#!/usr/bin/env python3
# usage: refactor_try.py <name> <file> <<< "OLD\n====\nNEW" ... ; applies textual edits in the scratch worktree /tmp/og,
# builds, runs ogcheck -all on it, stores the diff under /verif/refactors/<name>.diff, and resets the worktree.
import sys, subprocess, os, json
name = sys.argv[1]
spec = json.load(sys.stdin)   # list of [file, old, new]
W = '/tmp/og'
subprocess.run(['git','-C',W,'checkout','-q','--','.'],check=True)
for f, old, new in spec:
    p = os.path.join(W, f)
    s = open(p).read()
    if s.count(old) != 1:
        print(f"ANCHOR {f}: occurs {s.count(old)} times"); sys.exit(2)
    open(p,'w').write(s.replace(old, new))
env = dict(os.environ, GOFLAGS='-mod=mod', GOPROXY='off')
b = subprocess.run(['go','build','./...'],cwd=W,env=env,capture_output=True,text=True)
if b.returncode != 0:
    print("BUILD FAILED\n"+b.stderr); subprocess.run(['git','-C',W,'checkout','-q','--','.']); sys.exit(2)
subprocess.run(['gofmt','-l','.'],cwd=W)
t = subprocess.run(['go','test','-count=1','./...'],cwd=W,env=env,capture_output=True,text=True)
print("suite:", "ok" if t.returncode==0 else "FAIL\n"+t.stdout[-1500:])
d = subprocess.run(['git','-C',W,'diff'],capture_output=True,text=True).stdout
open(f'/verif/refactors/{name}.diff','w').write(d)
o = subprocess.run(['/verif/bin/ogcheck','-all','-no-evidence','-repo',W],capture_output=True,text=True)
out = o.stdout + o.stderr
bad = [l for l in out.splitlines() if l.startswith('  rule') or l.startswith('UNDECIDED')]
res = [l.split()[0]+' '+l.split()[1] for l in out.splitlines() if l[:1]=='C' and (' VIOLATED' in l or ' UNDECIDED' in l)]
print(name, "ALARMS:" if res else "silent", res)
for l in sorted(set(bad)): print("   ", l[:260])
subprocess.run(['git','-C',W,'checkout','-q','--','.'])
