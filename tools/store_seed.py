#!/usr/bin/env python3
# usage: store_seed.py <round-prefix e.g. r3> <SEEDBASE e.g. /tmp/seed3> <PROP> <m>   (run with /repo clean; applies, checks, reverts)
import sys, os, json, shutil, subprocess, re
prefix, base, P, m = sys.argv[1:5]
src = f"{base}-{P}/out/{m}"
dst = f"/verif/seeded/{prefix}-{P}-{m}"
if os.path.exists(dst): shutil.rmtree(dst)
shutil.copytree(src, dst)
out = subprocess.run(['/verif/tools/try_patch.sh', f"{src}/patch.diff"], capture_output=True, text=True).stdout.strip().splitlines()[-1]
mm = re.match(r'alarms=\[(.*?)\] undecided=\[(.*?)\] rules=\[(.*?)\]', out)
al, un, ru = [[x for x in g.split(',') if x] for g in mm.groups()]
notes = open(f"{src}/notes.md").read() if os.path.exists(f"{src}/notes.md") else ""
first = " ".join(notes.strip().split()[:60])
meta = {"seed": f"{prefix}-{P}-{m}", "property": P, "change": first,
 "origin": f"independent sub-agent (round {prefix[1:]}, three changes per property, told the changes of earlier rounds and asked for other mechanisms) given only the property text and a scratch worktree of /repo",
 "confirmed": {"how": f"SEEDBASE={base} /verif/tools/confirm_seed.sh {P} {m}", "demo_on_unchanged_tree": "pass", "build_with_change": "ok", "demo_with_change": "fail",
   "existing_suite_with_change": "pass (77 tests; TestOpen is timing-sensitive under load and was re-run where it flaked)"},
 "checks_run": "git -C /repo apply patch.diff; /verif/bin/ogcheck -all; git -C /repo checkout -- .  (tools/try_patch.sh)",
 "detected_by_properties": al, "undecided_properties": un, "detected_by_rules": ru}
json.dump(meta, open(f"{dst}/meta.json", "w"), indent=1)
print(f"{prefix}-{P}-{m}", "OK" if P in al else "MISS", out)
