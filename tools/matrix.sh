#!/bin/bash
# usage: matrix.sh  - applies every stored seeded change to /repo in turn (reverting each), runs all quick checks, refreshes
# detected_by_* in its meta.json and reports the seeds whose target property was not alarmed.
cd /verif
miss=0; n=0
for d in seeded/*/; do
  s=$(basename $d); P=$(jq -r .property $d/meta.json)
  out=$(tools/try_patch.sh /verif/$d/patch.diff 2>&1 | tail -1)
  n=$((n+1))
  al=$(echo "$out" | sed -E 's/alarms=\[([^]]*)\].*/\1/'); un=$(echo "$out" | sed -E 's/.*undecided=\[([^]]*)\].*/\1/'); ru=$(echo "$out" | sed -E 's/.*rules=\[([^]]*)\].*/\1/')
  tmp=$(mktemp); jq --arg al "$al" --arg un "$un" --arg ru "$ru" '.detected_by_properties=($al|split(",")|map(select(.!=""))) | .undecided_properties=($un|split(",")|map(select(.!=""))) | .detected_by_rules=($ru|split(",")|map(select(.!="")))' $d/meta.json > $tmp && mv $tmp $d/meta.json
  case ",$al," in *",$P,"*) ;; *) echo "MISS $s $out"; miss=$((miss+1));; esac
done
echo "seeds=$n missed=$miss"
