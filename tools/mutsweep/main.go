// mutgen: syntactic mutants of a Go source tree, as byte-range edits (line numbers are preserved).
// usage: mutgen <repo> <outdir>   → <outdir>/mutants.jsonl and <outdir>/<id>.src (whole mutated file)
package main

import (
	"encoding/json"
	"fmt"
	"go/ast"
	"go/parser"
	"go/token"
	"os"
	"path/filepath"
	"sort"
	"strings"
)

type Mutant struct {
	ID   string `json:"id"`
	File string `json:"file"`
	Line int    `json:"line"`
	Func string `json:"func"`
	Op   string `json:"op"`
	Old  string `json:"old"`
	New  string `json:"new"`
	// byte range of the edit in the original file (Old is truncated for display, OldLen is exact)
	Start  int `json:"start"`
	OldLen int `json:"old_len"`
}

type edit struct {
	start, end int
	repl       string
	op         string
	pos        token.Pos
}

var binSwap = map[token.Token][]string{
	token.LSS: {"<=", ">"}, token.LEQ: {"<"}, token.GTR: {">=", "<"}, token.GEQ: {">"},
	token.EQL: {"!="}, token.NEQ: {"=="}, token.LAND: {"||"}, token.LOR: {"&&"},
	token.ADD: {"-"}, token.SUB: {"+"},
}

var identSwap = map[string]string{
	"Front": "Back", "Back": "Front", "Next": "Prev", "Prev": "Next", "PushBack": "PushFront", "PushFront": "PushBack",
	"StartKey": "EndKey", "EndKey": "StartKey", "Offset": "Length", "Length": "Offset",
	"readMark": "commitMark", "commitMark": "readMark", "max": "min", "min": "max",
	"readTs": "commitTs", "Begin": "Done", "RLock": "Lock", "RUnlock": "Unlock",
	"SeekStart": "SeekEnd", "SeekEnd": "SeekStart", "LittleEndian": "BigEndian",
	"LastIndex": "Index", "ParseKey": "ParseTs",
}

func isLoggerCall(e ast.Expr) bool {
	call, ok := e.(*ast.CallExpr)
	if !ok {
		return false
	}
	sel, ok := call.Fun.(*ast.SelectorExpr)
	if !ok {
		return false
	}
	switch sel.Sel.Name {
	case "Debugf", "Infof", "Warnf", "Errorf", "Printf", "Println", "Elapsed":
		return true
	}
	return false
}

func main() {
	repo, out := os.Args[1], os.Args[2]
	os.MkdirAll(out, 0755)
	var files []string
	filepath.Walk(repo, func(p string, info os.FileInfo, err error) error {
		if err != nil {
			return nil
		}
		if info.IsDir() && (info.Name() == ".git" || info.Name() == "gen" || info.Name() == "out") {
			return filepath.SkipDir
		}
		if strings.HasSuffix(p, ".go") && !strings.HasSuffix(p, "_test.go") && !strings.Contains(p, "/pkg/logger/") {
			files = append(files, p)
		}
		return nil
	})
	sort.Strings(files)
	meta, _ := os.Create(filepath.Join(out, "mutants.jsonl"))
	defer meta.Close()
	enc := json.NewEncoder(meta)
	n := 0
	for _, path := range files {
		src, _ := os.ReadFile(path)
		fset := token.NewFileSet()
		f, err := parser.ParseFile(fset, path, src, parser.ParseComments)
		if err != nil {
			continue
		}
		rel, _ := filepath.Rel(repo, path)
		off := func(p token.Pos) int { return fset.Position(p).Offset }
		var edits []edit
		var curFn string
		add := func(s, e token.Pos, repl, op string) {
			edits = append(edits, edit{off(s), off(e), repl, op + "@" + curFn, s})
		}
		for _, d := range f.Decls {
			fd, ok := d.(*ast.FuncDecl)
			if !ok || fd.Body == nil {
				continue
			}
			curFn = fd.Name.Name
			if fd.Recv != nil && len(fd.Recv.List) > 0 {
				t := fd.Recv.List[0].Type
				if st, ok := t.(*ast.StarExpr); ok {
					t = st.X
				}
				if id, ok := t.(*ast.Ident); ok {
					curFn = id.Name + "." + curFn
				}
			}
			if curFn == "String" || strings.HasPrefix(fd.Name.Name, "With") {
				continue
			}
			ast.Inspect(fd.Body, func(nd ast.Node) bool {
				switch x := nd.(type) {
				case *ast.CallExpr:
					if isLoggerCall(x) {
						return false
					}
				case *ast.BinaryExpr:
					for _, r := range binSwap[x.Op] {
						// skip string concatenation "+"
						if x.Op == token.ADD || x.Op == token.SUB {
							if bl, ok := x.X.(*ast.BasicLit); ok && bl.Kind == token.STRING {
								continue
							}
							if bl, ok := x.Y.(*ast.BasicLit); ok && bl.Kind == token.STRING {
								continue
							}
						}
						add(x.OpPos, x.OpPos+token.Pos(len(x.Op.String())), r, "binop")
					}
				case *ast.UnaryExpr:
					if x.Op == token.NOT {
						add(x.OpPos, x.OpPos+1, "", "not-removed")
					}
				case *ast.BasicLit:
					if x.Kind == token.INT {
						switch x.Value {
						case "0":
							add(x.Pos(), x.End(), "1", "const")
						case "1":
							add(x.Pos(), x.End(), "0", "const")
							add(x.Pos(), x.End(), "2", "const")
						default:
							add(x.Pos(), x.End(), x.Value+"+1", "const")
						}
					}
				case *ast.ExprStmt:
					if isLoggerCall(x.X) {
						return false
					}
					add(x.Pos(), x.End(), "", "stmt-deleted")
				case *ast.AssignStmt:
					if x.Tok != token.DEFINE {
						add(x.Pos(), x.End(), "", "assign-deleted")
					}
				case *ast.IncDecStmt:
					add(x.Pos(), x.End(), "", "incdec-deleted")
				case *ast.DeferStmt:
					add(x.Pos(), x.End(), "", "defer-deleted")
				case *ast.SendStmt:
					add(x.Pos(), x.End(), "", "send-deleted")
				case *ast.IfStmt:
					add(x.Cond.Pos(), x.Cond.End(), "("+string(src[off(x.Cond.Pos()):off(x.Cond.End())])+") || true", "if-true")
					add(x.Cond.Pos(), x.Cond.End(), "("+string(src[off(x.Cond.Pos()):off(x.Cond.End())])+") && false", "if-false")
				case *ast.BranchStmt:
					if x.Label == nil {
						switch x.Tok {
						case token.BREAK:
							add(x.Pos(), x.End(), "continue", "break-continue")
						case token.CONTINUE:
							add(x.Pos(), x.End(), "break", "continue-break")
						}
					}
				case *ast.ReturnStmt:
					for _, res := range x.Results {
						if id, ok := res.(*ast.Ident); ok {
							switch id.Name {
							case "true":
								add(id.Pos(), id.End(), "false", "ret-bool")
							case "false":
								add(id.Pos(), id.End(), "true", "ret-bool")
							}
						}
					}
				case *ast.Ident:
					if r, ok := identSwap[x.Name]; ok {
						add(x.Pos(), x.End(), r, "ident")
					}
				}
				return true
			})
		}
		for _, e := range edits {
			n++
			id := fmt.Sprintf("m%05d", n)
			mut := string(src[:e.start]) + e.repl + string(src[e.end:])
			os.WriteFile(filepath.Join(out, id+".src"), []byte(mut), 0644)
			parts := strings.SplitN(e.op, "@", 2)
			old := string(src[e.start:e.end])
			if len(old) > 120 {
				old = old[:120] + "…"
			}
			enc.Encode(Mutant{ID: id, File: rel, Line: fset.Position(e.pos).Line, Func: parts[1], Op: parts[0], Old: old, New: e.repl, Start: e.start, OldLen: e.end - e.start})
		}
	}
	fmt.Println("mutants:", n)
}
