#!/usr/bin/env python3
# Mutation sweep: for every syntactic mutant of /repo (mutgen) decide: compiles? reported by ogcheck? survives the
# project's test suite?  Usage: run.py <mutants-dir> <results.jsonl> [workers] [--tests-for-flagged]
import sys, os, json, subprocess, shutil, threading, queue, re, time
mdir, resf = sys.argv[1], sys.argv[2]
workers = int(sys.argv[3]) if len(sys.argv) > 3 and sys.argv[3].isdigit() else 10
tests_for_flagged = '--tests-for-flagged' in sys.argv
muts = [json.loads(l) for l in open(os.path.join(mdir, 'mutants.jsonl'))]
muts = [m for m in muts if m['file'] != 'types/entry.go' and m['op'] not in ('if-true', 'if-false') and m['file'] != 'config.go']
# tests already known to pass for mutants that survived an earlier (partial) run
prior = {}
for pf in ('/verif/mutation/results-partial-old-binary.jsonl', '/verif/mutation/results-run2.jsonl'):
    if os.path.exists(pf):
        for l in open(pf):
            try:
                d = json.loads(l)
                if d.get('tests'): prior[d['id']] = d['tests']
            except Exception: pass
done = set()
if os.path.exists(resf):
    for l in open(resf):
        try: done.add(json.loads(l)['id'])
        except Exception: pass
todo = [m for m in muts if m['id'] not in done]
print(f"{len(muts)} mutants, {len(done)} done, {len(todo)} to do, {workers} workers", flush=True)
q = queue.Queue()
for m in todo: q.put(m)
lock = threading.Lock()
out = open(resf, 'a')
env = dict(os.environ, GOFLAGS='-mod=mod', GOPROXY='off')
env.pop('GOTOOLCHAIN', None); env.pop('GOSUMDB', None)
def work(i):
    w = f'/tmp/mutw-{i}'
    if os.path.exists(w): shutil.rmtree(w)
    shutil.copytree('/repo', w, ignore=shutil.ignore_patterns('.git'))
    while True:
        try: m = q.get_nowait()
        except queue.Empty: break
        path = os.path.join(w, m['file'])
        orig = open(path, 'rb').read()
        res = dict(m)
        try:
            shutil.copyfile(os.path.join(mdir, m['id'] + '.src'), path)
            b = subprocess.run(['go', 'build', '-p', '3', './...'], cwd=w, env=env, capture_output=True, text=True)
            if b.returncode != 0:
                res['status'] = 'nocompile'
            else:
                o = subprocess.run(['/tmp/ogcheck-sweep', '-all', '-no-evidence', '-repo', w], capture_output=True, text=True)
                txt = o.stdout + o.stderr
                res['alarms'] = sorted(set(re.findall(r'^(C\d+) VIOLATED', txt, re.M)))
                res['undecided'] = sorted(set(re.findall(r'^(C\d+) UNDECIDED', txt, re.M)))
                res['rules'] = sorted(set(re.findall(r'^  rule (\S+)', txt, re.M)))
                flagged = bool(res['alarms'] or res['undecided'])
                if not flagged and 'held' not in txt:
                    res['status'] = 'checker-error'; res['detail'] = txt[-300:]
                elif flagged and not tests_for_flagged:
                    res['status'] = 'flagged'
                else:
                    if m['id'] in prior:
                        res['tests'] = prior[m['id']]
                        res['status'] = ('flagged' if flagged else 'silent') + ('+survived' if prior[m['id']] == 'pass' else '+killed')
                        with lock:
                            out.write(json.dumps(res) + '\n'); out.flush()
                        continue
                    t = subprocess.run(['go', 'test', '-vet=off', '-p', '3', '-count=1', '-timeout', '240s', './...'], cwd=w, env=env, capture_output=True, text=True)
                    if t.returncode != 0:
                        # one retry for the timing-sensitive tests
                        if 'TestOpen' in t.stdout or 'TestWaterMark' in t.stdout:
                            t = subprocess.run(['go', 'test', '-vet=off', '-p', '3', '-count=1', '-timeout', '240s', './...'], cwd=w, env=env, capture_output=True, text=True)
                    res['tests'] = 'pass' if t.returncode == 0 else 'fail'
                    res['status'] = ('flagged' if flagged else 'silent') + ('+survived' if t.returncode == 0 else '+killed')
        finally:
            open(path, 'wb').write(orig)
        with lock:
            out.write(json.dumps(res) + '\n'); out.flush()
    shutil.rmtree(w, ignore_errors=True)
ts = [threading.Thread(target=work, args=(i,)) for i in range(workers)]
t0 = time.time()
for t in ts: t.start()
for t in ts: t.join()
print("done in", int(time.time() - t0), "s")
