module mutsweep

go 1.23
