#!/bin/bash
# usage: ./run.sh <property> [quick|thorough]   |   ./run.sh replay <file>
# Decides one property by static analysis of /repo's current working tree (nothing of /repo is executed).
set -u
cd "$(dirname "$0")"
VERIF="$(pwd)"
export PATH=/opt/veriftools/go1.26.8/bin:$PATH
export GOTOOLCHAIN=local GOFLAGS=-mod=mod GOPROXY=off GOSUMDB=off GOWORK=off CGO_ENABLED=0
REPO="${OGCHECK_REPO:-/repo}"
BIN="$VERIF/bin/ogcheck"
build() {
  mkdir -p "$VERIF/bin"
  (cd "$VERIF/checker" && go build -o "$BIN" .) || { echo "ogcheck: build failed" >&2; exit 2; }
}
if [ ! -x "$BIN" ] || [ -n "$(find "$VERIF/checker" -newer "$BIN" \( -name '*.go' -o -name 'go.mod' \) 2>/dev/null | head -1)" ]; then
  build
fi
if [ "${1:-}" = "replay" ]; then
  shift
  exec "$BIN" replay "$@" -repo "$REPO"
fi
PROP="${1:?property id}"
TIER="${2:-quick}"
exec "$BIN" -property "$PROP" -tier "$TIER" -repo "$REPO" -verif "$VERIF"
