package main

// C05, C06, C07, C08: the skeleton of the timestamp-oracle protocol (snapshot, serial section, conflict detection,
// confinement of uncommitted writes, misuse answers).

import (
	"fmt"
	"go/constant"
	"go/token"
	"go/types"
	"strings"

	"golang.org/x/tools/go/ssa"
)

type txnAnchors struct {
	p                                                        *Prog
	commit, get, modify, discard, begin, view, update        *ssa.Function
	readTsFn, newCommitTs, doneRead, doneCommit, hasConflict *ssa.Function
	cleanUp, discardStale, commitEntry                       *ssa.Function
	hash, keyWithTs, parseTs, parseKey                       *ssa.Function
	fNextTs, fCommitted, fReadMark, fCommitMark, fWriteLock  *types.Var
	fReadTs, fReadsFp, fWritesFp, fPending, fDiscarded       *types.Var
	fReadOnly, fDoneRead, fCtTs, fCtFp, fMemtable            *types.Var
	missing                                                  []string
}

func (c *Ctx) Txn() *txnAnchors {
	if v, ok := c.memo["txn"]; ok {
		return v.(*txnAnchors)
	}
	p := c.P
	a := &txnAnchors{p: p}
	fn := func(dst **ssa.Function, rel, recv, name string) {
		*dst = p.FnOr(rel, recv, name)
		if *dst == nil {
			a.missing = append(a.missing, strings.Trim(rel+"."+recv+"."+name, "."))
		}
	}
	fd := func(dst **types.Var, rel, typ, name string) {
		*dst = p.Field(rel, typ, name)
		if *dst == nil {
			a.missing = append(a.missing, typ+"."+name)
		}
	}
	fn(&a.commit, "", "Txn", "Commit")
	fn(&a.get, "", "Txn", "Get")
	fn(&a.modify, "", "Txn", "modify")
	fn(&a.discard, "", "Txn", "Discard")
	fn(&a.begin, "", "DB", "Begin")
	fn(&a.view, "", "DB", "View")
	fn(&a.update, "", "DB", "Update")
	fn(&a.readTsFn, "", "oracle", "readTs")
	fn(&a.newCommitTs, "", "oracle", "newCommitTs")
	fn(&a.doneRead, "", "oracle", "doneRead")
	a.doneCommit = p.FnOr("", "oracle", "doneCommit") // optional: Commit may call commitMark.Done itself
	fn(&a.hasConflict, "", "oracle", "hasConflict")
	fn(&a.cleanUp, "", "oracle", "cleanUpCommittedTxns")
	a.discardStale = p.FnOr("", "levelManager", "discardStaleEntries") // needed by SNAP.GC only, which says so itself
	fn(&a.hash, "utils", "", "Hash")
	fn(&a.keyWithTs, "types", "", "KeyWithTs")
	fn(&a.parseTs, "types", "", "ParseTs")
	fn(&a.parseKey, "types", "", "ParseKey")
	fd(&a.fNextTs, "", "oracle", "nextTs")
	fd(&a.fCommitted, "", "oracle", "committedTxns")
	fd(&a.fReadMark, "", "oracle", "readMark")
	fd(&a.fCommitMark, "", "oracle", "commitMark")
	fd(&a.fWriteLock, "", "oracle", "writeLock")
	fd(&a.fReadTs, "", "Txn", "readTs")
	fd(&a.fReadsFp, "", "Txn", "readsFp")
	fd(&a.fWritesFp, "", "Txn", "writesFp")
	fd(&a.fPending, "", "Txn", "pendingWrites")
	fd(&a.fDiscarded, "", "Txn", "discarded")
	fd(&a.fReadOnly, "", "Txn", "readOnly")
	// Commit may be split into the entry point (pre-checks, deferred Discard) and a helper that runs the locked section:
	// the commit rules look at the function that asks the oracle for the timestamp
	a.commitEntry = a.commit
	if a.commit != nil && a.newCommitTs != nil {
		if h := p.directHolder(a.commit, func(ins ssa.Instruction) bool {
			cl, ok := ins.(*ssa.Call)
			return ok && cl.Call.StaticCallee() == a.newCommitTs
		}); h != nil {
			a.commit = h
		}
	}
	// the rules read the oracle's answer as (timestamp, conflict): another shape of the answer (a struct, an error) is
	// not understood and makes them undecided rather than wrong
	if a.newCommitTs != nil && !resultIs(a.newCommitTs, types.Uint64, types.Bool) {
		a.missing = append(a.missing, "oracle.newCommitTs with results (uint64, bool)")
	}
	a.fDoneRead = p.Field("", "Txn", "doneRead") // optional: any boolean flag of Txn may make doneRead idempotent
	// the record of a committed transaction: its commit timestamp and the fingerprints it wrote - by name, or (renamed)
	// the one uint64 field and the one map field of the element type of oracle.committedTxns
	a.fCtTs, a.fCtFp = p.Field("", "committedTxn", "ts"), p.Field("", "committedTxn", "writesFp")
	if (a.fCtTs == nil || a.fCtFp == nil) && a.fCommitted != nil {
		if sl, ok := a.fCommitted.Type().Underlying().(*types.Slice); ok {
			if st, ok := sl.Elem().Underlying().(*types.Struct); ok {
				var tsF, fpF []*types.Var
				for i := 0; i < st.NumFields(); i++ {
					switch ft := st.Field(i).Type().Underlying().(type) {
					case *types.Basic:
						if ft.Kind() == types.Uint64 {
							tsF = append(tsF, st.Field(i))
						}
					case *types.Map:
						fpF = append(fpF, st.Field(i))
					}
				}
				if len(tsF) == 1 && len(fpF) == 1 {
					a.fCtTs, a.fCtFp = tsF[0], fpF[0]
				}
			}
		}
	}
	if a.fCtTs == nil {
		a.missing = append(a.missing, "committedTxn.ts")
	}
	if a.fCtFp == nil {
		a.missing = append(a.missing, "committedTxn.writesFp")
	}
	fd(&a.fMemtable, "", "DB", "memtable")
	c.memo["txn"] = a
	return a
}

// deleteFuncDrop: the committed list is cleaned with slices.DeleteFunc(list, func(rec) bool { return cond }) - the call
// and the condition under which a record is dropped, with the variables the closure captured replaced by what the
// enclosing function stored in them; ok is false when there is no such call or the predicate is not one comparison.
func (a *txnAnchors) deleteFuncDrop(f *ssa.Function) (call *ssa.Call, drop Cmp, ok bool) {
	p := a.p
	eachInstr(f, func(ins ssa.Instruction) {
		cl, isCall := ins.(*ssa.Call)
		if !isCall || call != nil {
			return
		}
		obj := p.CalleeObj(cl)
		if obj == nil || !funcIs(obj, "slices", "", "DeleteFunc") || len(cl.Call.Args) != 2 {
			return
		}
		if fv, _ := loadedField(cl.Call.Args[0]); fv != a.fCommitted {
			return
		}
		var pred *ssa.Function
		var mc *ssa.MakeClosure
		switch x := cl.Call.Args[1].(type) {
		case *ssa.MakeClosure:
			mc = x
			pred, _ = x.Fn.(*ssa.Function)
		case *ssa.Function:
			pred = x
		}
		if pred == nil || len(pred.Params) != 1 {
			return
		}
		cases := returnCases(pred)
		if len(cases) != 1 || len(cases[0].Vals) != 1 {
			return
		}
		bo, isBo := cases[0].Vals[0].(*ssa.BinOp)
		if !isBo {
			return
		}
		cm := canonCond(bo, true)
		if cm.Y == nil {
			return
		}
		resolve := func(v ssa.Value) ssa.Value {
			u, isLd := stripValue(v).(*ssa.UnOp)
			if !isLd || u.Op != token.MUL || mc == nil {
				return v
			}
			fv, isFV := u.X.(*ssa.FreeVar)
			if !isFV {
				return v
			}
			for i, q := range pred.FreeVars {
				if q == fv && i < len(mc.Bindings) {
					return singleStore(mc.Bindings[i])
				}
			}
			return v
		}
		cm.X, cm.Y = resolve(cm.X), resolve(cm.Y)
		call, drop, ok = cl, cm, true
	})
	return
}

// dropsAtOrBelowWatermark: the comparison says "the record's commit timestamp is at or below readMark.DoneUntil()".
func (a *txnAnchors) dropsAtOrBelowWatermark(cm Cmp) bool {
	p := a.p
	isTs := func(v ssa.Value) bool {
		v = stripValue(v)
		if fv, _ := loadedField(v); fv == a.fCtTs {
			return true
		}
		if fx, ok := v.(*ssa.Field); ok {
			return fx.X.Type().Underlying().(*types.Struct).Field(fx.Field) == a.fCtTs
		}
		return false
	}
	isWm := func(v ssa.Value) bool {
		return p.dependsOn(v, func(x ssa.Value) bool {
			call, ok := x.(*ssa.Call)
			return ok && markCalls(p, a.fReadMark, "DoneUntil")(call)
		})
	}
	for _, c := range []Cmp{cm, cm.Flip()} {
		if c.Y != nil && isTs(c.X) && isWm(c.Y) && !isWm(c.X) && (c.Op == "<=" || c.Op == "<") {
			return true
		}
	}
	return false
}

// keepsRecord: the instruction keeps a record of the committed-transaction list during the clean-up - an append to the
// list being rebuilt, or (compaction in place) a store of a record into a slot of the list itself: txns[kept] = txns[i].
func (a *txnAnchors) keepsRecord(ins ssa.Instruction) bool {
	switch x := ins.(type) {
	case *ssa.Call:
		bi, ok := x.Call.Value.(*ssa.Builtin)
		return ok && bi.Name() == "append"
	case *ssa.Store:
		ia, ok := x.Addr.(*ssa.IndexAddr)
		if !ok {
			return false
		}
		sl, ok := ia.X.Type().Underlying().(*types.Slice)
		if !ok {
			return false
		}
		n := a.p.isModuleNamed(sl.Elem())
		if n == nil || n.Obj().Name() != "committedTxn" {
			return false
		}
		return a.p.dependsOn(ia.X, func(v ssa.Value) bool { return isLoadOfField(v, a.fCommitted) })
	}
	return false
}

// doneCommitSites: the call sites of f that finish a timestamp on commitMark - through the doneCommit helper or
// by calling commitMark.Done directly; the timestamp is argument 1 in both forms.
func (a *txnAnchors) doneCommitSites(f *ssa.Function) []ssa.CallInstruction {
	var out []ssa.CallInstruction
	direct := markCalls(a.p, a.fCommitMark, "Done")
	eachInstr(f, func(ins ssa.Instruction) {
		ci, ok := ins.(ssa.CallInstruction)
		if !ok {
			return
		}
		if direct(ins) {
			out = append(out, ci)
			return
		}
		for _, g := range a.p.Callees(ci) {
			if a.doneCommit != nil && g == a.doneCommit {
				out = append(out, ci)
				return
			}
		}
	})
	return out
}

func (a *txnAnchors) ok(r *RuleRun) bool {
	if len(a.missing) > 0 {
		r.Undecided("-", "anchors", "", "anchors not found: "+strings.Join(a.missing, ", "))
		return false
	}
	return true
}

// ---- small helpers ----

func eachInstr(f *ssa.Function, fn func(ins ssa.Instruction)) {
	for _, b := range f.Blocks {
		if b == f.Recover {
			continue // the recover block only re-returns the result cells
		}
		for _, ins := range b.Instrs {
			fn(ins)
		}
	}
}

func storesToField(f *ssa.Function, fv *types.Var) []*ssa.Store {
	var out []*ssa.Store
	eachInstr(f, func(ins ssa.Instruction) {
		if st, ok := ins.(*ssa.Store); ok {
			if sv, _ := fieldOfAddr(st.Addr); sv == fv {
				out = append(out, st)
			}
		}
	})
	return out
}

func callsTo(p *Prog, f *ssa.Function, callee *ssa.Function) []*ssa.Call {
	var out []*ssa.Call
	eachInstr(f, func(ins ssa.Instruction) {
		if c, ok := ins.(*ssa.Call); ok {
			for _, g := range p.Callees(c) {
				if g == callee {
					out = append(out, c)
				}
			}
		}
	})
	return out
}

func unconv(v ssa.Value) ssa.Value {
	for {
		switch x := v.(type) {
		case *ssa.Convert:
			v = x.X
		case *ssa.ChangeType:
			v = x.X
		default:
			return v
		}
	}
}

func isConstBool(v ssa.Value, b bool) bool {
	c, ok := v.(*ssa.Const)
	return ok && c.Value != nil && c.Value.Kind() == constant.Bool && constant.BoolVal(c.Value) == b
}

func hasFact(ins ssa.Instruction, pred func(Cmp) bool) bool {
	for _, f := range factsAt(ins) {
		if pred(f) || pred(f.Flip()) {
			return true
		}
	}
	return false
}

// hasFactIP: like hasFact, but also looks through "helper(…) returned a nil error" edges: a fact that holds at every
// success return of the helper holds after the helper was seen to succeed.
func (p *Prog) hasFactIP(ins ssa.Instruction, pred func(Cmp) bool, depth int) bool {
	if hasFact(ins, pred) {
		return true
	}
	if depth > 2 {
		return false
	}
	for _, ce := range dominatingConds(ins) {
		cm := canonCond(ce.If.Cond, ce.Truth)
		if cm.Y == nil || cm.Op != "==" {
			continue
		}
		x, y := cm.X, cm.Y
		if isNilConst(x) {
			x, y = y, x
		}
		if !isNilConst(y) || !isErrorType(x.Type()) {
			continue
		}
		var call *ssa.Call
		switch v := x.(type) {
		case *ssa.Call:
			call = v
		case *ssa.Extract:
			call, _ = v.Tuple.(*ssa.Call)
		}
		if call == nil {
			continue
		}
		g := call.Call.StaticCallee()
		if g == nil || !p.InModule(g) {
			continue
		}
		all, n := true, 0
		eachInstr(g, func(i ssa.Instruction) {
			if ret, ok := i.(*ssa.Return); ok && isSuccessReturn(ret) {
				n++
				if !p.hasFactIP(ret, pred, depth+1) {
					all = false
				}
			}
		})
		if all && n > 0 {
			return true
		}
	}
	return false
}

// hasFactUp: the fact holds at ins, or ins sits in an unexported helper that is only called directly and the fact holds
// at every one of its call sites (a check made by the entry point before it hands over to the helper).
func (p *Prog) hasFactUp(ins ssa.Instruction, pred func(Cmp) bool, depth int) bool {
	if hasFact(ins, pred) {
		return true
	}
	f := ins.Parent()
	if depth > 2 || f == nil || p.isExported(f) {
		return false
	}
	sites := p.CallersOf(f)
	if len(sites) == 0 {
		return false
	}
	for _, s := range sites {
		if s.Common().IsInvoke() || s.Common().StaticCallee() != f || !p.hasFactUp(s, pred, depth+1) {
			return false
		}
	}
	return true
}

// boolFact: the value v (or its negation) is known at ins
func boolFactIs(ins ssa.Instruction, match func(ssa.Value) bool, want bool) bool {
	return hasFact(ins, func(c Cmp) bool {
		if c.Y != nil {
			// x == true / x != false forms
			if c.Op == "==" && match(c.X) && isConstBool(c.Y, want) {
				return true
			}
			if c.Op == "!=" && match(c.X) && isConstBool(c.Y, !want) {
				return true
			}
			return false
		}
		return match(c.X) && ((c.Op == "true") == want)
	})
}

func extractOf(call *ssa.Call, idx int) ssa.Value {
	for _, ref := range *call.Referrers() {
		if ex, ok := ref.(*ssa.Extract); ok && ex.Index == idx {
			return ex
		}
	}
	return nil
}

// wal-write reaching call sites of f
func applySites(c *Ctx, f *ssa.Function) []*ssa.Call {
	d := c.Dur()
	p := c.P
	isWalWrite := func(ins ssa.Instruction) bool {
		fe := d.effects[ins]
		return fe != nil && fe.Kind == "write" && fe.Class == "wal"
	}
	var out []*ssa.Call
	eachInstr(f, func(ins ssa.Instruction) {
		if call, ok := ins.(*ssa.Call); ok && p.SiteMayReach(call, isWalWrite) {
			out = append(out, call)
		}
	})
	return out
}

func init() {
	register(&Rule{ID: "SNAP.TS", Engine: "E-DEP", Min: 2,
		Desc: "a transaction's read timestamp is assigned once, at Begin, from the oracle; Txn.Get looks the store up at exactly key@readTs",
		Run:  runSnapTs})
	register(&Rule{ID: "SNAP.BEGIN", Engine: "E-LOCK+E-PATH", Min: 4,
		Desc: "oracle.readTs: nextTs is read, decremented and registered with readMark in one oracle.Mutex region, and every return is preceded by the wait for commitMark to reach that same timestamp",
		Run:  runSnapBegin})
	register(&Rule{ID: "SNAP.COMMIT", Engine: "E-LOCK+E-DEP", Min: 6,
		Desc: "newCommitTs: read, increment, commitMark.Begin and the committedTxns record happen in one oracle.Mutex region on the same timestamp; Commit stamps every entry with that timestamp and finishes commitMark only after the append",
		Run:  runSnapCommit})
	register(&Rule{ID: "SNAP.GC", Engine: "E-DEP+E-GUARD", Min: 2, Spec: true,
		Desc: "discardStaleEntries: the threshold comes from readMark (open readers); versions are deduplicated only at or below it, and the newest one at or below it is the one kept",
		Run:  runSnapGC})
	register(&Rule{ID: "SNAP.DONE", Engine: "E-PATH", Min: 3,
		Desc: "View/Update defer Discard before running the closure; Discard and doneRead are idempotent (guarded flag, then set) so readMark.Done is sent exactly once per transaction",
		Run:  runSnapDone})
	register(&Rule{ID: "SER.SECTION", Engine: "E-LOCK", Min: 3,
		Desc: "oracle.writeLock is held from before the conflict check/timestamp allocation until after doneCommit without being released, and every caller of the apply function holds it",
		Run:  runSerSection})
	register(&Rule{ID: "SER.TS", Engine: "E-DEP", Min: 2,
		Desc: "nextTs is only ever stored as nextTs+1 under oracle.Mutex (or initialised by Open): commit timestamps are unique and increasing",
		Run:  runSerTs})
	register(&Rule{ID: "CONF.READFP", Engine: "E-PATH", Min: 3,
		Desc: "Txn.Get of an update transaction records the fingerprint of the user key before it reads the store, and records nothing when the key is served from its own write buffer",
		Run:  runConfReadFp})
	register(&Rule{ID: "CONF.WRITEFP", Engine: "E-PATH+E-SIB", Min: 4,
		Desc: "modify records the write fingerprint and the buffered entry under the same user key on every success path; read and write fingerprints come from the same hash function",
		Run:  runConfWriteFp})
	register(&Rule{ID: "CONF.ORDER", Engine: "E-PATH", Min: 4,
		Desc: "newCommitTs: conflict check, then doneRead, then cleanup, then the timestamp; a refused transaction stores nothing and begins nothing on commitMark, an accepted one always begins",
		Run:  runConfOrder})
	register(&Rule{ID: "CONF.REFUSED", Engine: "E-GUARD", Min: 2,
		Desc: "Commit applies writes only on the no-conflict branch; an empty write set returns before a timestamp is allocated",
		Run:  runConfRefused})
	register(&Rule{ID: "CONF.WINDOW", Engine: "E-GUARD", Min: 2, Spec: true,
		Desc: "hasConflict compares fingerprints only with transactions committed after the snapshot (ct.ts > readTs); cleanUp keeps every committed transaction above readMark.DoneUntil",
		Run:  runConfWindow})
	register(&Rule{ID: "TRACE.CONFINE", Engine: "E-CG", Min: 6,
		Desc: "nothing reachable from Txn.Set/Delete/SetEntry/Get/Discard writes shared engine state or files; every way from the API to a wal append goes through Txn.Commit",
		Run:  runTraceConfine})
	register(&Rule{ID: "TRACE.UPDATE", Engine: "E-GUARD", Min: 2,
		Desc: "DB.Update commits only when the closure returned nil and discards on every path",
		Run:  runTraceUpdate})
	register(&Rule{ID: "TRACE.MISUSE", Engine: "E-GUARD", Min: 7,
		Desc: "misuse is refused before any effect, each with its documented error: read-only, finished transaction, empty key, closed DB",
		Run:  runTraceMisuse})
}

func runSnapTs(c *Ctx, r *RuleRun) {
	a := c.Txn()
	if !a.ok(r) {
		return
	}
	p := c.P
	// stores to Txn.readTs anywhere
	for _, f := range p.Funcs {
		for _, st := range storesToField(f, a.fReadTs) {
			fresh := false
			if fa, ok := st.Addr.(*ssa.FieldAddr); ok {
				_, fresh = fa.X.(*ssa.Alloc)
			}
			fromOracle := callTo(p, unconv(st.Val), a.readTsFn) != nil
			ok := fresh && f == a.begin && fromOracle
			r.Check(ok, p.FnName(f), "store Txn.readTs", p.Pos(instrPos(st)), "assigned from oracle.readTs() when the transaction is created",
				"the read timestamp of a transaction is (re)assigned outside its creation or not from oracle.readTs(): reads no longer come from one fixed snapshot")
		}
	}
	// the store lookup in Get
	readsMem := func(ins ssa.Instruction) bool {
		if u, ok := ins.(*ssa.UnOp); ok && u.Op == token.MUL {
			fv, _ := fieldOfAddr(u.X)
			return fv == a.fMemtable
		}
		return false
	}
	n := 0
	eachInstr(a.get, func(ins ssa.Instruction) {
		call, ok := ins.(*ssa.Call)
		if !ok || !p.SiteMayReach(call, readsMem) {
			return
		}
		n++
		good := false
		for _, arg := range call.Call.Args {
			if kc := callTo(p, arg, a.keyWithTs); kc != nil && len(kc.Call.Args) == 2 {
				_, isParam := kc.Call.Args[0].(*ssa.Parameter)
				if isParam && isLoadOfField(unconv(kc.Call.Args[1]), a.fReadTs) {
					good = true
				}
			}
		}
		r.Check(good, p.FnName(a.get), "store lookup", p.Pos(instrPos(call)), "looks up KeyWithTs(key, t.readTs)",
			"the store is not looked up at exactly (key parameter, t.readTs): the transaction reads outside its snapshot")
	})
	if n == 0 {
		r.Undecided(p.FnName(a.get), "store lookup", p.Pos(a.get.Pos()), "no call in Txn.Get reaches a read of DB.memtable")
	}
}

func runSnapBegin(c *Ctx, r *RuleRun) {
	a := c.Txn()
	if !a.ok(r) {
		return
	}
	p := c.P
	la := c.Locks()
	f := a.readTsFn
	fn := p.FnName(f)
	begin := markCalls(p, a.fReadMark, "Begin")
	wait := markCalls(p, a.fCommitMark, "WaitForMark")
	var ts ssa.Value
	eachInstr(f, func(ins ssa.Instruction) {
		if !begin(ins) {
			return
		}
		call := ins.(*ssa.Call)
		arg := call.Call.Args[1]
		// arg == load(nextTs) - 1
		bo, ok := arg.(*ssa.BinOp)
		k := int64(0)
		if ok {
			k, _ = constInt(bo.Y)
		}
		isDec := ok && bo.Op == token.SUB && isLoadOfField(bo.X, a.fNextTs) && k == 1
		r.Check(isDec, fn, "readMark.Begin(ts)", p.Pos(instrPos(call)), "ts = nextTs - 1", "the timestamp registered with readMark is not nextTs-1")
		_, held := la.Must[ins]["oracle.Mutex"]
		r.Check(held, fn, "readMark.Begin under oracle.Mutex", p.Pos(instrPos(call)), "registered inside the oracle.Mutex region that read nextTs",
			"readMark.Begin is called outside the oracle.Mutex region that read nextTs: a concurrent commit can advance readMark past this snapshot and garbage-collect versions it still needs")
		if isDec {
			ts = arg
			if ld, ok := bo.X.(*ssa.UnOp); ok {
				_, heldLd := la.Must[ld]["oracle.Mutex"]
				r.Check(heldLd, fn, "load nextTs under oracle.Mutex", p.Pos(instrPos(ld)), "read under oracle.Mutex", "nextTs is read without oracle.Mutex")
			}
		}
	})
	if ts == nil {
		r.Undecided(fn, "readMark.Begin(ts)", p.Pos(f.Pos()), "no readMark.Begin(nextTs-1) found")
		return
	}
	// every return preceded by WaitForMark(commitMark, ts) with checked error, and returns ts
	md := NewMust(p, func(call *ssa.Call) bool {
		return wait(call) && len(call.Call.Args) == 3 && call.Call.Args[2] == ts
	}, nil)
	q := PathQuery{P: p, Fn: f, Avoid: md.Avoid(f), EdgeOK: md.EdgeOK(f), Target: isReturn}
	if w := q.FindPath(); w != nil {
		r.Viol(fn, "wait for commitMark", p.Pos(instrPos(w[len(w)-1])), "readTs can return without having waited (successfully) for commitMark to reach the snapshot timestamp: the transaction may miss writes of a commit that is still being applied", p.describePath(w)...)
	} else {
		r.Hold(fn, "wait for commitMark", p.Pos(f.Pos()), "every return is preceded by commitMark.WaitForMark(ctx, ts) with its error checked")
	}
	eachInstr(f, func(ins ssa.Instruction) {
		if ret, ok := ins.(*ssa.Return); ok {
			r.Check(retOperand(ret, 0) == ts, fn, "returns ts", p.Pos(instrPos(ret)), "returns the registered timestamp", "the timestamp returned differs from the one registered with readMark and waited for")
		}
	})
}

func runSnapCommit(c *Ctx, r *RuleRun) {
	a := c.Txn()
	if !a.ok(r) {
		return
	}
	p := c.P
	la := c.Locks()
	top := a.newCommitTs
	begin := markCalls(p, a.fCommitMark, "Begin")
	// the allocation itself may live in a helper of newCommitTs: the checks run where commitMark.Begin is called
	f := p.directHolder(top, begin)
	if f == nil {
		r.Undecided(p.FnName(top), "commitMark.Begin(ts)", p.Pos(top.Pos()), "no single function on the way from newCommitTs calls commitMark.Begin")
		return
	}
	fn := p.FnName(f)
	var ts ssa.Value
	eachInstr(f, func(ins ssa.Instruction) {
		if !begin(ins) {
			return
		}
		call, isCall := ins.(*ssa.Call)
		if !isCall {
			return
		}
		arg := cellValue(call.Call.Args[1]) // (a named result `ts` lives in a cell when the function defers)
		okv := isLoadOfField(arg, a.fNextTs)
		r.Check(okv, fn, "commitMark.Begin(ts)", p.Pos(instrPos(call)), "ts = nextTs (value before the increment)", "commitMark.Begin is not called with the allocated timestamp")
		_, held := la.Must[ins]["oracle.Mutex"]
		r.Check(held, fn, "commitMark.Begin under oracle.Mutex", p.Pos(instrPos(call)), "inside the region that allocated ts",
			"commitMark.Begin is outside the oracle.Mutex region that allocated the timestamp: a reader can take a snapshot at or above ts and pass commitMark before this commit is registered")
		if okv {
			ts = arg
		}
	})
	if ts == nil {
		r.Undecided(fn, "commitMark.Begin(ts)", p.Pos(f.Pos()), "no commitMark.Begin(load nextTs) found")
		return
	}
	for _, st := range storesToField(f, a.fNextTs) {
		bo, ok := st.Val.(*ssa.BinOp)
		k := int64(0)
		if ok {
			k, _ = constInt(bo.Y)
		}
		r.Check(ok && bo.Op == token.ADD && isLoadOfField(cellValue(bo.X), a.fNextTs) && k == 1, fn, "nextTs = ts+1", p.Pos(instrPos(st)), "increment of the value handed out", "nextTs is not advanced to exactly ts+1")
		_, held := la.Must[st]["oracle.Mutex"]
		r.Check(held, fn, "nextTs store under oracle.Mutex", p.Pos(instrPos(st)), "under oracle.Mutex", "nextTs is stored without oracle.Mutex")
	}
	// committedTxn record: ts field = ts, writesFp = txn.writesFp
	for _, st := range storesToField(f, a.fCtTs) {
		r.Check(cellValue(st.Val) == ts, fn, "committedTxn.ts", p.Pos(instrPos(st)), "recorded with ts", "the committed transaction is recorded with a timestamp other than the one allocated")
	}
	for _, st := range storesToField(f, a.fCtFp) {
		r.Check(p.through(st.Val, func(v ssa.Value) bool { return isLoadOfField(v, a.fWritesFp) }), fn, "committedTxn.writesFp", p.Pos(instrPos(st)), "recorded with the transaction's write fingerprints", "the committed transaction is not recorded with txn.writesFp")
	}
	for _, st := range storesToField(f, a.fCommitted) {
		_, held := la.Must[st]["oracle.Mutex"]
		r.Check(held, fn, "committedTxns store under oracle.Mutex", p.Pos(instrPos(st)), "under oracle.Mutex", "committedTxns is stored without oracle.Mutex")
	}
	eachInstr(f, func(ins ssa.Instruction) {
		if ret, ok := ins.(*ssa.Return); ok && (f != top || retBool(ret, 1, false)) {
			r.Check(cellValue(retOperand(ret, 0)) == ts, fn, "returns ts", p.Pos(instrPos(ret)), "returns the allocated timestamp", "newCommitTs returns a timestamp other than the one it began on commitMark and recorded")
		}
	})
	if f == top {
		// one return for both answers (named results, `if !conflict { ts = … }; return`): on the way that assigned the
		// timestamp it is the allocated one, on the other way nothing was assigned
		for _, rc := range returnCases(f) {
			if len(rc.Vals) != 2 || retBool(rc.Ret, 1, false) || retBool(rc.Ret, 1, true) {
				continue
			}
			if rc.Zero != nil {
				continue
			}
			r.Check(cellValue(rc.Vals[0]) == ts, fn, "returns ts", p.Pos(instrPos(rc.At)), "returns the allocated timestamp", "newCommitTs returns a timestamp other than the one it began on commitMark and recorded")
		}
	}
	if f != top {
		// newCommitTs hands on what the allocating helper returned
		fromHelper := func(v ssa.Value) bool {
			if ex, ok := v.(*ssa.Extract); ok && ex.Index == 0 {
				v = ex.Tuple
			}
			call, ok := v.(*ssa.Call)
			if !ok {
				return false
			}
			for _, g := range p.Callees(call) {
				if g == f || p.Reach(g)[f] {
					return true
				}
			}
			return false
		}
		eachInstr(top, func(ins ssa.Instruction) {
			if ret, ok := ins.(*ssa.Return); ok && retBool(ret, 1, false) {
				r.Check(fromHelper(retOperand(ret, 0)), p.FnName(top), "returns ts", p.Pos(instrPos(ret)), "returns what the allocating helper returned", "newCommitTs returns a timestamp other than the one it began on commitMark and recorded")
			}
		})
	}
	// Commit: entries stamped with the returned ts
	cf := a.commit
	cfn := p.FnName(cf)
	allocs := callsTo(p, cf, a.newCommitTs)
	if len(allocs) != 1 {
		r.Undecided(cfn, "newCommitTs call", p.Pos(cf.Pos()), fmt.Sprintf("%d calls of newCommitTs in Commit", len(allocs)))
		return
	}
	cts := extractOf(allocs[0], 0)
	verField := p.Field("types", "Entry", "Version")
	// the commit timestamp, in Commit itself or as a parameter of a helper that every call site in Commit feeds with it
	isCts := func(v ssa.Value) bool {
		v = unconv(v)
		if v == cts {
			return true
		}
		pr, ok := v.(*ssa.Parameter)
		if !ok {
			return false
		}
		g := pr.Parent()
		idx := -1
		for i, q := range g.Params {
			if q == pr {
				idx = i
			}
		}
		sites := p.CallersOf(g)
		if idx < 0 || len(sites) == 0 {
			return false
		}
		for _, cs := range sites {
			if cs.Parent() != cf || idx >= len(cs.Common().Args) || unconv(cs.Common().Args[idx]) != cts {
				return false
			}
		}
		return true
	}
	n := 0
	for g := range c.Locks().roleReach([]*ssa.Function{cf}) {
		if g.Pkg != cf.Pkg {
			continue
		}
		for _, st := range storesToField(g, verField) {
			n++
			r.Check(isCts(st.Val), p.FnName(g), "Entry.Version = commitTs", p.Pos(instrPos(st)), "stamped with the commit timestamp", "an applied entry gets a version other than the commit timestamp")
		}
		if g == cf || len(storesToField(g, verField)) > 0 {
			for _, kc := range callsTo(p, g, a.keyWithTs) {
				n++
				r.Check(len(kc.Call.Args) == 2 && isCts(kc.Call.Args[1]), p.FnName(g), "KeyWithTs(k, commitTs)", p.Pos(instrPos(kc)), "keyed with the commit timestamp", "an applied entry is keyed with a timestamp other than the commit timestamp")
			}
		}
	}
	if n == 0 {
		r.Undecided(cfn, "entry stamping", p.Pos(cf.Pos()), "Commit builds no versioned entries")
	}
	nd := 0
	for _, dc := range a.doneCommitSites(cf) {
		ins := dc.(ssa.Instruction)
		nd++
		args := dc.Common().Args
		r.Check(len(args) == 2 && args[1] == cts, cfn, "doneCommit(commitTs)", p.Pos(instrPos(ins)), "finishes the timestamp it began", "doneCommit is called with a timestamp other than the one begun")
		if _, deferred := ins.(*ssa.Defer); deferred {
			r.Hold(cfn, "doneCommit after the last append", p.Pos(instrPos(ins)), "deferred: runs when Commit returns, after the append")
			continue
		}
		// no append after doneCommit
		bad := false
		for _, ap := range applySites(c, cf) {
			q := PathQuery{P: p, Fn: cf, Starts: []ssa.Instruction{ins}, Target: func(i ssa.Instruction) bool { return i == ssa.Instruction(ap) }}
			if q.FindPath() != nil {
				bad = true
			}
		}
		r.Check(!bad, cfn, "doneCommit after the last append", p.Pos(instrPos(ins)), "no wal append can follow doneCommit", "writes are applied after commitMark was finished: a reader that waited for this commit can miss them")
	}
	if nd == 0 {
		r.Viol(cfn, "doneCommit", p.Pos(cf.Pos()), "Commit never finishes its commit timestamp on commitMark")
	}
}

func runSnapGC(c *Ctx, r *RuleRun) {
	a := c.Txn()
	if !a.ok(r) {
		return
	}
	p := c.P
	f := a.discardStale
	if f == nil {
		r.Undecided("-", "anchors", "", "anchors not found: levelManager.discardStaleEntries")
		return
	}
	f = gcWorker(p, f)
	fn := p.FnName(f)
	readDone := func(v ssa.Value) bool {
		call, ok := v.(*ssa.Call)
		return ok && markCalls(p, a.fReadMark, "DoneUntil")(call)
	}
	otherSrc := func(v ssa.Value) bool {
		if call, ok := v.(*ssa.Call); ok && markCalls(p, a.fCommitMark, "DoneUntil")(call) {
			return true
		}
		return isLoadOfField(v, a.fNextTs)
	}
	// the threshold may be handed in: a parameter for which every call site passes a value read from readMark alone
	lowParam := func(x ssa.Value) bool {
		pr, ok := x.(*ssa.Parameter)
		if !ok || pr.Parent() != f {
			return false
		}
		args := p.callerArgs(pr)
		if len(args) == 0 {
			return false
		}
		for _, arg := range args {
			if !p.dependsOn(arg, readDone) || p.dependsOn(arg, otherSrc) {
				return false
			}
		}
		return true
	}
	isLow := func(v ssa.Value) bool {
		return p.dependsOn(v, func(x ssa.Value) bool { return readDone(x) || lowParam(x) }) && !p.dependsOn(v, otherSrc)
	}
	entryTs := func(v ssa.Value) bool {
		return p.dependsOn(v, func(x ssa.Value) bool {
			if callTo(p, x, a.parseTs) != nil {
				return true
			}
			return isLoadOfField(x, p.Field("types", "Entry", "Version"))
		})
	}
	// dedupe = stores into a map inside the loop
	n := 0
	foundLow := false
	eachInstr(f, func(ins ssa.Instruction) {
		if bo, ok := ins.(*ssa.BinOp); ok {
			if (isLow(bo.X) && !isLow(bo.Y)) || (isLow(bo.Y) && !isLow(bo.X)) {
				foundLow = true
			}
		}
		mu, ok := ins.(*ssa.MapUpdate)
		if !ok {
			return
		}
		n++
		// must be dominated by ts <= low (or ts < low)
		guarded := hasFact(mu, func(cm Cmp) bool {
			return (cm.Op == "<=" || cm.Op == "<") && cm.Y != nil && entryTs(cm.X) && isLow(cm.Y)
		})
		r.Check(guarded, fn, "dedupe below the watermark", p.Pos(instrPos(mu)), "only reached for versions at or below readMark.DoneUntil",
			"versions are deduplicated (dropped) without being known to lie at or below readMark.DoneUntil: an open reader can lose the version it reads")
		// replacing an existing candidate requires ts > its ts: from the "key already has a candidate" edge of the comma-ok
		// lookup in the same map, no path reaches this update without passing the edge on which the current entry is newer
		var lookIfs []*ssa.If
		for _, b := range f.Blocks {
			if len(b.Instrs) == 0 {
				continue
			}
			if iff, ok := b.Instrs[len(b.Instrs)-1].(*ssa.If); ok {
				c0 := canonCond(iff.Cond, true)
				if c0.Y == nil && isLookupOK(c0.X) && c0.X.(*ssa.Extract).Tuple.(*ssa.Lookup).X == mu.Map {
					lookIfs = append(lookIfs, iff)
				}
			}
		}
		if len(lookIfs) == 0 {
			r.Viol(fn, "keep the newest below the watermark", p.Pos(instrPos(mu)), "the candidate kept for a key is overwritten without looking at what is already kept: whichever version comes last in the input (the oldest) survives, readers at the watermark see an older value or a deleted key reappears")
			return
		}
		for _, lif := range lookIfs {
			tuple := lif.Cond.(*ssa.Extract).Tuple
			if u, ok := lif.Cond.(*ssa.UnOp); ok {
				_ = u
			}
			fromKept := func(v ssa.Value) bool { return p.dependsOn(v, func(x ssa.Value) bool { return x == tuple }) }
			okTrueIdx := 0
			if canonCond(lif.Cond, true).Op == "false" {
				okTrueIdx = 1
			}
			edgeOK := func(b *ssa.BasicBlock, i int) bool {
				if b == lif.Block() {
					return i == okTrueIdx
				}
				iff, ok := b.Instrs[len(b.Instrs)-1].(*ssa.If)
				if !ok {
					return true
				}
				for _, cm := range []Cmp{canonCond(iff.Cond, i == 0), canonCond(iff.Cond, i == 0).Flip()} {
					if cm.Op == ">" && cm.Y != nil && entryTs(cm.X) && !fromKept(cm.X) && entryTs(cm.Y) && fromKept(cm.Y) {
						return false // the "current entry is newer" edge: paths through it are fine
					}
				}
				return true
			}
			q := PathQuery{P: p, Fn: f, Starts: []ssa.Instruction{lif}, EdgeOK: edgeOK, Target: func(i ssa.Instruction) bool { return i == ssa.Instruction(mu) },
				Avoid: func(i ssa.Instruction) bool { return i == ssa.Instruction(lif) }}
			w := q.FindPath()
			if w != nil {
				r.Viol(fn, "keep the newest below the watermark", p.Pos(instrPos(mu)), "an existing candidate can be replaced without the current version being newer: among the versions at or below the watermark the one kept is not the newest, readers at the watermark see an older value", p.describePath(w)...)
			} else {
				r.Hold(fn, "keep the newest below the watermark", p.Pos(instrPos(mu)), "an existing candidate is replaced only on the edge where the current version is newer")
			}
		}
	})
	if n == 0 {
		r.Undecided(fn, "dedupe", p.Pos(f.Pos()), "no map update found")
	}
	r.Check(foundLow, fn, "threshold from readMark", p.Pos(f.Pos()), "the comparison threshold depends on readMark.DoneUntil only",
		"the discard threshold does not come from readMark.DoneUntil (open readers) alone")
}

func isLookupOK(v ssa.Value) bool {
	ex, ok := v.(*ssa.Extract)
	if !ok || ex.Index != 1 {
		return false
	}
	lk, ok := ex.Tuple.(*ssa.Lookup)
	return ok && lk.CommaOk
}

func runSnapDone(c *Ctx, r *RuleRun) {
	a := c.Txn()
	if !a.ok(r) {
		return
	}
	p := c.P
	for _, f := range []*ssa.Function{a.view, a.update} {
		fn := p.FnName(f)
		var def *ssa.Defer
		eachInstr(f, func(ins ssa.Instruction) {
			if d, ok := ins.(*ssa.Defer); ok {
				for _, g := range p.Callees(d) {
					if g == a.discard {
						def = d
					}
				}
			}
		})
		if def == nil {
			r.Viol(fn, "defer Discard", p.Pos(f.Pos()), "the transaction is not discarded by a deferred call: when the closure returns an error or panics its read mark is never finished and version garbage collection stops")
			continue
		}
		// receiver is the result of Begin, and the defer precedes the closure call
		recvOK := len(def.Call.Args) > 0 && callTo(p, def.Call.Args[0], a.begin) != nil
		before := true
		eachInstr(f, func(ins ssa.Instruction) {
			if call, ok := ins.(*ssa.Call); ok {
				if _, isParam := call.Call.Value.(*ssa.Parameter); isParam && !dominatesInstr(def, call) {
					before = false
				}
			}
		})
		r.Check(recvOK && before, fn, "defer Discard", p.Pos(instrPos(def)), "deferred on the transaction returned by Begin, before the closure runs",
			"Discard is not deferred on the begun transaction before the closure runs")
	}
	// exactly-once: the effect is guarded by a boolean flag of the transaction that is not yet set, and sets it afterwards
	var boolFlags []*types.Var
	if tn := p.Named("", "Txn"); tn != nil {
		if st, ok := tn.Underlying().(*types.Struct); ok {
			for i := 0; i < st.NumFields(); i++ {
				if bt, ok := st.Field(i).Type().Underlying().(*types.Basic); ok && bt.Kind() == types.Bool {
					boolFlags = append(boolFlags, st.Field(i))
				}
			}
		}
	}
	// every readMark.Done outside initialisation is guarded by one and the same done-flag, which is set afterwards
	la := c.Locks()
	isDone := markCalls(p, a.fReadMark, "Done")
	var common map[*types.Var]bool
	n := 0
	for _, f := range p.Funcs {
		if !hasNonInitRole(la, f) {
			continue
		}
		fn := p.FnName(f)
		eachInstr(f, func(ins ssa.Instruction) {
			if !isDone(ins) {
				return
			}
			n++
			flags := map[*types.Var]bool{}
			for _, flag := range boolFlags {
				if !boolFactIs(ins, func(v ssa.Value) bool { return isLoadOfField(v, flag) }, false) {
					continue
				}
				for _, st := range storesToField(f, flag) {
					if isConstBool(st.Val, true) {
						q := PathQuery{P: p, Fn: f, Starts: []ssa.Instruction{ins}, Avoid: func(i ssa.Instruction) bool { return i == ssa.Instruction(st) }, Target: isReturn}
						if q.FindPath() == nil {
							flags[flag] = true
						}
					}
				}
			}
			if common == nil {
				common = flags
			} else {
				for k := range common {
					if !flags[k] {
						delete(common, k)
					}
				}
			}
			r.Check(len(flags) > 0 && len(common) > 0, fn, "readMark.Done exactly once", p.Pos(instrPos(ins)), "guarded by the transaction's done-flag, which is set on every path afterwards",
				"readMark.Done is not guarded by the (one) done-flag that it sets afterwards: it runs twice for a transaction that commits (once in newCommitTs, once from Discard), the read watermark passes transactions that are still open and their versions/conflict records are discarded")
		})
	}
	if n == 0 {
		r.Viol("oracle", "readMark.Done", "", "the read mark of a transaction is never finished: version garbage collection and conflict-record cleanup never advance")
	}
	// the read mark is released only when the transaction ends: the function that finishes a transaction's read mark
	// is called from Discard and from the commit path (Commit / newCommitTs) only
	for _, site := range p.CallersOf(a.doneRead) {
		g := site.Parent()
		if g == nil {
			continue
		}
		okCaller := g == a.discard || g == a.newCommitTs
		if g == a.commit {
			// in Commit itself only once validation has run: after the call that allocates the commit timestamp
			for _, al := range callsTo(p, a.commit, a.newCommitTs) {
				if si, ok := site.(ssa.Instruction); ok && dominatesInstr(al, si) {
					okCaller = true
				}
			}
		}
		r.Check(okCaller, p.FnName(g), "read mark released only at the end of the transaction", p.Pos(instrPos(site)), "called when the transaction is discarded or commits",
			"the read mark of a transaction is released while the transaction can still read (not from Discard or the commit path): version garbage collection no longer keeps the versions its snapshot needs, and conflict records it depends on are cleaned up")
	}
}

func runSerSection(c *Ctx, r *RuleRun) {
	a := c.Txn()
	if !a.ok(r) {
		return
	}
	p := c.P
	la := c.Locks()
	cf := a.commit
	fn := p.FnName(cf)
	lockName := p.fieldName(a.fWriteLock)
	var pts []ssa.Instruction
	for _, cl := range callsTo(p, cf, a.newCommitTs) {
		pts = append(pts, cl)
	}
	for _, cl := range applySites(c, cf) {
		pts = append(pts, cl)
	}
	var dones []*ssa.Call
	for _, cl := range a.doneCommitSites(cf) {
		if call, ok := cl.(*ssa.Call); ok {
			pts = append(pts, call)
			dones = append(dones, call)
		}
	}
	for _, pt := range pts {
		_, held := la.Must[pt][lockName]
		r.Check(held, fn, "holds "+lockName, p.Pos(instrPos(pt)), shortInstr(pt)+" runs under "+lockName,
			lockName+" is not held here: validation, apply and doneCommit of two transactions can interleave, commits are applied out of timestamp order and conflicts are missed")
	}
	// not released in between
	allocs := callsTo(p, cf, a.newCommitTs)
	if len(allocs) == 1 && len(dones) >= 1 {
		unlockW := func(ins ssa.Instruction) bool {
			op := la.opAt[ins]
			return op != nil && op.Unlock && op.Lock == lockName
		}
		q := PathQuery{P: p, Fn: cf, Starts: []ssa.Instruction{allocs[0]}, Avoid: func(i ssa.Instruction) bool { return i == ssa.Instruction(dones[0]) }, Target: unlockW}
		w := q.FindPath()
		ok := w == nil
		if !ok {
			// an unlock reached only via returns (deferred) after a failure return is fine: look for explicit unlock calls (not RunDefers)
			if _, isCall := w[len(w)-1].(*ssa.Call); !isCall {
				ok = true
			}
		}
		r.Check(ok, fn, "section not split", p.Pos(instrPos(allocs[0])), "no Unlock of "+lockName+" between the timestamp allocation and doneCommit",
			lockName+" can be released between the timestamp allocation and doneCommit")
	}
	// callers of the apply function
	for _, ap := range applySites(c, cf) {
		for _, g := range p.Callees(ap) {
			_, held := la.EntryMu[g][lockName]
			r.Check(held, p.FnName(g), "callers hold "+lockName, p.Pos(g.Pos()), "every call site of the apply function holds "+lockName, "the apply function can be called without "+lockName)
		}
	}
}

func runSerTs(c *Ctx, r *RuleRun) {
	a := c.Txn()
	if !a.ok(r) {
		return
	}
	p := c.P
	la := c.Locks()
	for _, f := range p.Funcs {
		for _, st := range storesToField(f, a.fNextTs) {
			fn := p.FnName(f)
			if !hasNonInitRole(la, f) && la.Reached[f] {
				r.Hold(fn, "store nextTs", p.Pos(instrPos(st)), "initialisation during Open")
				continue
			}
			bo, ok := st.Val.(*ssa.BinOp)
			k := int64(0)
			if ok {
				k, _ = constInt(bo.Y)
			}
			// (`ts = o.nextTs; o.nextTs = ts + 1` with a named result: ts lives in a cell when the function defers)
			inc := ok && bo.Op == token.ADD && isLoadOfField(cellValue(bo.X), a.fNextTs) && k == 1
			_, held := la.Must[st]["oracle.Mutex"]
			r.Check(inc && held, fn, "store nextTs", p.Pos(instrPos(st)), "nextTs+1 under oracle.Mutex", "nextTs is stored with something other than nextTs+1, or without oracle.Mutex: timestamps can repeat or go backwards")
		}
	}
}

func runConfReadFp(c *Ctx, r *RuleRun) {
	a := c.Txn()
	if !a.ok(r) {
		return
	}
	p := c.P
	f := a.get
	fn := p.FnName(f)
	readsMem := func(ins ssa.Instruction) bool {
		if u, ok := ins.(*ssa.UnOp); ok && u.Op == token.MUL {
			fv, _ := fieldOfAddr(u.X)
			return fv == a.fMemtable
		}
		return false
	}
	var lookups []ssa.Instruction
	eachInstr(f, func(ins ssa.Instruction) {
		if call, ok := ins.(*ssa.Call); ok && p.SiteMayReach(call, readsMem) {
			lookups = append(lookups, call)
		}
	})
	stores := storesToField(f, a.fReadsFp)
	isFpStore := func(i ssa.Instruction) bool {
		for _, st := range stores {
			if i == ssa.Instruction(st) {
				return true
			}
		}
		return false
	}
	// edges on which the transaction is known to be read-only may skip the recording
	edgeOK := func(b *ssa.BasicBlock, i int) bool {
		iff, ok := b.Instrs[len(b.Instrs)-1].(*ssa.If)
		if !ok {
			return true
		}
		cm := canonCond(iff.Cond, i == 0)
		if cm.Y == nil && isLoadOfField(cm.X, a.fReadOnly) && cm.Op == "true" {
			return false
		}
		return true
	}
	for _, lk := range lookups {
		q := PathQuery{P: p, Fn: f, Avoid: isFpStore, EdgeOK: edgeOK, Target: func(i ssa.Instruction) bool { return i == lk }}
		if w := q.FindPath(); w != nil {
			r.Viol(fn, "record read before store lookup", p.Pos(instrPos(lk)), "an update transaction can read the store without recording the read fingerprint: a later overwrite of that key is not detected at commit (lost update / write skew)", p.describePath(w)...)
		} else {
			r.Hold(fn, "record read before store lookup", p.Pos(instrPos(lk)), "every path of an update transaction to the store lookup appends to readsFp")
		}
	}
	if len(lookups) == 0 {
		r.Undecided(fn, "store lookup", p.Pos(f.Pos()), "no store lookup found in Get")
	}
	for _, st := range stores {
		// value = append(load readsFp, Hash(key))
		good := false
		if ap, ok := st.Val.(*ssa.Call); ok {
			if bi, ok := ap.Call.Value.(*ssa.Builtin); ok && bi.Name() == "append" && len(ap.Call.Args) == 2 && isLoadOfField(ap.Call.Args[0], a.fReadsFp) {
				good = p.dependsOn(ap.Call.Args[1], func(v ssa.Value) bool {
					hc := callTo(p, v, a.hash)
					if hc == nil {
						return false
					}
					_, isParam := hc.Call.Args[0].(*ssa.Parameter)
					return isParam
				})
			}
		}
		r.Check(good, fn, "readsFp = append(readsFp, Hash(key))", p.Pos(instrPos(st)), "appends the hash of the user key", "the recorded read fingerprint is not append(readsFp, Hash(key parameter))")
		// not on a buffer hit
		notHit := boolFactIs(st, func(v ssa.Value) bool {
			if !isLookupOK(v) {
				return false
			}
			lk := v.(*ssa.Extract).Tuple.(*ssa.Lookup)
			return isLoadOfField(lk.X, a.fPending)
		}, false)
		r.Check(notHit, fn, "no fingerprint on buffer hit", p.Pos(instrPos(st)), "recorded only when the key is not in pendingWrites",
			"a read served from the transaction's own write buffer is recorded as a store read: the transaction is refused although nothing it read from the store was overwritten")
	}
	if len(stores) == 0 {
		r.Viol(fn, "readsFp", p.Pos(f.Pos()), "Txn.Get never records read fingerprints: conflicts cannot be detected")
	}
}

func runConfWriteFp(c *Ctx, r *RuleRun) {
	a := c.Txn()
	if !a.ok(r) {
		return
	}
	p := c.P
	f := a.modify
	fn := p.FnName(f)
	keyField := p.Field("types", "Entry", "Key")
	isEKey := func(v ssa.Value) bool {
		// e.Key where e is the entry parameter (a local copy in SSA)
		fv, base := loadedField(v)
		if fv != keyField {
			return false
		}
		switch b := base.(type) {
		case *ssa.Parameter:
			return true
		case *ssa.Alloc:
			for _, ref := range *b.Referrers() {
				if st, ok := ref.(*ssa.Store); ok && st.Addr == b {
					_, isParam := st.Val.(*ssa.Parameter)
					return isParam
				}
			}
		}
		return false
	}
	var upFp, upPending []*ssa.MapUpdate
	eachInstr(f, func(ins ssa.Instruction) {
		if mu, ok := ins.(*ssa.MapUpdate); ok {
			if isLoadOfField(mu.Map, a.fWritesFp) {
				upFp = append(upFp, mu)
			}
			if isLoadOfField(mu.Map, a.fPending) {
				upPending = append(upPending, mu)
			}
		}
	})
	both := func(i ssa.Instruction) bool { return false }
	_ = both
	for name, ups := range map[string][]*ssa.MapUpdate{"writesFp": upFp, "pendingWrites": upPending} {
		is := func(i ssa.Instruction) bool {
			for _, u := range ups {
				if i == ssa.Instruction(u) {
					return true
				}
			}
			return false
		}
		q := PathQuery{P: p, Fn: f, Avoid: is, Target: isSuccessReturn, SuccessOnly: true}
		if w := q.FindPath(); w != nil {
			r.Viol(fn, "update "+name, p.Pos(instrPos(w[len(w)-1])), "modify can return nil without updating "+name, p.describePath(w)...)
		} else {
			r.Hold(fn, "update "+name, p.Pos(f.Pos()), "every success return is preceded by the update")
		}
	}
	for _, mu := range upFp {
		hc := callTo(p, mu.Key, a.hash)
		r.Check(hc != nil && isEKey(hc.Call.Args[0]), fn, "writesFp[Hash(e.Key)]", p.Pos(instrPos(mu)), "fingerprint of the user key of the entry", "the write fingerprint is not Hash(e.Key)")
	}
	for _, mu := range upPending {
		r.Check(isEKey(mu.Key), fn, "pendingWrites[e.Key] = e", p.Pos(instrPos(mu)), "buffered under the user key", "the entry is buffered under a key other than e.Key")
	}
	// same hash function on both sides
	rh := callsTo(p, a.get, a.hash)
	wh := callsTo(p, f, a.hash)
	r.Check(len(rh) > 0 && len(wh) > 0, "Txn", "same hash for reads and writes", p.Pos(a.hash.Pos()), "both use "+p.FnName(a.hash), "read and write fingerprints are not produced by the same hash function")
}

func runConfOrder(c *Ctx, r *RuleRun) {
	a := c.Txn()
	if !a.ok(r) {
		return
	}
	p := c.P
	f := a.newCommitTs
	fn := p.FnName(f)
	hc, dr, cu := callsTo(p, f, a.hasConflict), callsTo(p, f, a.doneRead), callsTo(p, f, a.cleanUp)
	if len(hc) != 1 || len(dr) != 1 || len(cu) != 1 {
		r.Undecided(fn, "steps", p.Pos(f.Pos()), fmt.Sprintf("expected one call each of hasConflict, doneRead, cleanUpCommittedTxns; found %d, %d, %d", len(hc), len(dr), len(cu)))
		return
	}
	var tsLoad ssa.Instruction
	begin := markCalls(p, a.fCommitMark, "Begin")
	// steps that live in a helper count at the call of the helper
	steps := map[ssa.Instruction]bool{hc[0]: true, dr[0]: true, cu[0]: true}
	mayBegin := p.liftMay(begin)
	var begins []ssa.Instruction
	eachInstr(f, func(ins ssa.Instruction) {
		if steps[ins] || !mayBegin(ins) {
			return
		}
		begins = append(begins, ins)
		if !begin(ins) {
			tsLoad = ins
		} else if ld, ok := ins.(*ssa.Call).Call.Args[1].(*ssa.UnOp); ok {
			tsLoad = ld
		}
	})
	r.Check(dominatesInstr(hc[0], dr[0]), fn, "hasConflict before doneRead", p.Pos(instrPos(dr[0])), "ordered", "doneRead runs before the conflict check")
	r.Check(dominatesInstr(dr[0], cu[0]), fn, "doneRead before cleanup", p.Pos(instrPos(cu[0])), "ordered", "cleanup runs before this transaction's read mark is finished: its own snapshot keeps committed transactions alive one round longer, or (if swapped with the check) needed ones are dropped")
	if tsLoad != nil {
		r.Check(dominatesInstr(cu[0], tsLoad), fn, "cleanup before timestamp", p.Pos(instrPos(tsLoad)), "ordered", "the timestamp is taken before cleanup")
		r.Check(dominatesInstr(hc[0], tsLoad), fn, "hasConflict before timestamp", p.Pos(instrPos(tsLoad)), "ordered", "a timestamp is allocated before the conflict check")
	}
	// conflict return: the branch on the result of hasConflict being true must not begin/store anything
	var effects []ssa.Instruction
	effects = append(effects, begins...)
	mayStore := p.liftMay(func(i ssa.Instruction) bool { return p.storesField(a.fNextTs)(i) || p.storesField(a.fCommitted)(i) })
	eachInstr(f, func(ins ssa.Instruction) {
		if !steps[ins] && mayStore(ins) {
			effects = append(effects, ins)
		}
	})
	mustBegin := NewMustDo(p, begin)
	eachInstr(f, func(ins ssa.Instruction) {
		ret, ok := ins.(*ssa.Return)
		if !ok {
			return
		}
		conflictRet := retBool(ret, 1, true)
		if conflictRet {
			var w []ssa.Instruction
			if len(effects) > 0 {
				q := PathQuery{P: p, Fn: f, Starts: effects, Target: func(i ssa.Instruction) bool { return i == ins }}
				w = q.FindPath()
			}
			r.Check(w == nil, fn, "refusal is effect-free", p.Pos(instrPos(ret)), "no timestamp, record or commitMark.Begin on the refusal path",
				"a refused transaction has already advanced nextTs, recorded itself or begun on commitMark: a Begin without Done blocks every later reader")
			hcSame := map[ssa.Value]bool{}
			for _, x := range cellAliases(hc[0]) {
				hcSame[x] = true
			}
			guard := boolFactIs(ret, func(v ssa.Value) bool { return hcSame[v] }, true)
			r.Check(guard, fn, "refusal iff hasConflict", p.Pos(instrPos(ret)), "returned on the hasConflict()==true branch", "the refusal is not returned on the hasConflict()==true branch")
		} else {
			isBegin := func(i ssa.Instruction) bool { return !steps[i] && mustBegin.Instr(i) }
			q := PathQuery{P: p, Fn: f, Avoid: isBegin, Target: func(i ssa.Instruction) bool { return i == ins }}
			// one return for both answers (`conflict = o.hasConflict(txn); if !conflict { … }; return`): what is returned
			// as "refused" is the very result of hasConflict, so the ways on which it is true are the refusals - they
			// are excluded here and must not have passed an effect
			hcSame := map[ssa.Value]bool{}
			for _, x := range cellAliases(hc[0]) {
				hcSame[x] = true
			}
			if rv := cellValue(retOperand(ret, 1)); hcSame[rv] {
				q.EdgeOK = func(b *ssa.BasicBlock, i int) bool {
					iff, ok := b.Instrs[len(b.Instrs)-1].(*ssa.If)
					if !ok {
						return true
					}
					cm := canonCond(iff.Cond, i == 0)
					return !(cm.Y == nil && cm.Op == "true" && hcSame[cm.X])
				}
				free := true
				for _, e := range effects {
					if !boolFactIs(e, func(v ssa.Value) bool { return hcSame[v] }, false) {
						free = false
					}
				}
				r.Check(free, fn, "refusal is effect-free", p.Pos(instrPos(ret)), "timestamp, record and commitMark.Begin only where hasConflict() was false",
					"a refused transaction has already advanced nextTs, recorded itself or begun on commitMark: a Begin without Done blocks every later reader")
				r.Hold(fn, "refusal iff hasConflict", p.Pos(instrPos(ret)), "the refusal returned is the result of hasConflict() itself")
			}
			r.Check(q.FindPath() == nil, fn, "acceptance begins on commitMark", p.Pos(instrPos(ret)), "every accepting return is preceded by commitMark.Begin",
				"a timestamp can be handed out without commitMark.Begin: readers do not wait for this commit to be applied")
		}
	})
}

func runConfRefused(c *Ctx, r *RuleRun) {
	a := c.Txn()
	if !a.ok(r) {
		return
	}
	p := c.P
	cf := a.commit
	fn := p.FnName(cf)
	allocs := callsTo(p, cf, a.newCommitTs)
	if len(allocs) != 1 {
		r.Undecided(fn, "newCommitTs", p.Pos(cf.Pos()), "expected exactly one call of newCommitTs")
		return
	}
	conflict := extractOf(allocs[0], 1)
	for _, ap := range applySites(c, cf) {
		g := conflict != nil && boolFactIs(ap, func(v ssa.Value) bool { return v == conflict }, false)
		r.Check(g, fn, "apply on the no-conflict branch", p.Pos(instrPos(ap)), "dominated by hasConflict == false",
			"writes can be applied although the conflict check refused the transaction (or without consulting it)")
	}
	// refusal returns the conflict error
	errVar := p.Global("", "ErrConflictTxn")
	found := false
	eachInstr(cf, func(ins ssa.Instruction) {
		ret, ok := ins.(*ssa.Return)
		if !ok {
			return
		}
		if globalLoaded(retOperand(ret, 0)) == errVar && errVar != nil {
			found = true
			g := conflict != nil && boolFactIs(ret, func(v ssa.Value) bool { return v == conflict }, true)
			r.Check(g, fn, "ErrConflictTxn iff refused", p.Pos(instrPos(ret)), "returned on the conflict branch only", "ErrConflictTxn is returned on a path that is not the conflict branch")
		}
	})
	r.Check(found, fn, "returns ErrConflictTxn", p.Pos(cf.Pos()), "the conflict error is returned", "Commit never returns ErrConflictTxn")
	// empty write set: the allocation is dominated by len(pendingWrites) != 0
	g := p.hasFactUp(allocs[0], func(cm Cmp) bool {
		if cm.Y == nil {
			return false
		}
		k, ok := constInt(cm.Y)
		if !ok || k != 0 {
			return false
		}
		lc, ok := cm.X.(*ssa.Call)
		if !ok {
			return false
		}
		bi, ok := lc.Call.Value.(*ssa.Builtin)
		return ok && bi.Name() == "len" && isLoadOfField(lc.Call.Args[0], a.fPending) && (cm.Op == "!=" || cm.Op == ">")
	}, 0)
	r.Check(g, fn, "empty write set commits without validation", p.Pos(instrPos(allocs[0])), "newCommitTs is only reached with a non-empty write set",
		"a transaction that wrote nothing goes through conflict validation: read-only use of an update transaction can be refused")
}

func runConfWindow(c *Ctx, r *RuleRun) {
	a := c.Txn()
	if !a.ok(r) {
		return
	}
	p := c.P
	f := a.hasConflict
	fn := p.FnName(f)
	n := 0
	// base of a field read: the struct value or the address the field is taken from
	fieldBase := func(v ssa.Value, want *types.Var) ssa.Value {
		if fx, ok := v.(*ssa.Field); ok && fx.X.Type().Underlying().(*types.Struct).Field(fx.Field) == want {
			return fx.X
		}
		if fv, base := loadedField(v); fv == want && fv != nil {
			return base
		}
		return nil
	}
	sameRecord := func(a, b ssa.Value) bool {
		if a == nil || b == nil {
			return false
		}
		if a == b {
			return true
		}
		// a value loaded from the address the other is
		if u, ok := a.(*ssa.UnOp); ok && u.Op == token.MUL && u.X == b {
			return true
		}
		if u, ok := b.(*ssa.UnOp); ok && u.Op == token.MUL && u.X == a {
			return true
		}
		// the same element addressed twice (go/ssa does not share the two `txns[i]` of `txns[i].ts … txns[i].writesFp`)
		if ia, ok := a.(*ssa.IndexAddr); ok {
			if ib, ok := b.(*ssa.IndexAddr); ok && ia.Index == ib.Index {
				if ia.X == ib.X {
					return true
				}
				fa, ba := loadedField(ia.X)
				fb, bb := loadedField(ib.X)
				return fa != nil && fa == fb && ba == bb
			}
		}
		return false
	}
	// lookups in ct.writesFp, in hasConflict itself or in a helper it hands the committed record to
	check := func(g *ssa.Function, site ssa.Instruction, recOf func(lkBase ssa.Value) ssa.Value) {
		eachInstr(g, func(ins ssa.Instruction) {
			lk, ok := ins.(*ssa.Lookup)
			if !ok {
				return
			}
			base := fieldBase(lk.X, a.fCtFp)
			if base == nil {
				return
			}
			n++
			rec := recOf(base)
			at := site
			if at == nil {
				at = lk
			}
			if rec == nil {
				r.Undecided(fn, "compare only with commits after the snapshot", p.Pos(instrPos(lk)), "the committed record searched in the helper cannot be traced to an argument of the call")
				return
			}
			g := hasFact(at, func(cm Cmp) bool {
				if cm.Op != ">" || cm.Y == nil || !isLoadOfField(cm.Y, a.fReadTs) {
					return false
				}
				return sameRecord(fieldBase(cm.X, a.fCtTs), rec)
			})
			r.Check(g, fn, "compare only with commits after the snapshot", p.Pos(instrPos(lk)), "fingerprints are compared only when ct.ts > txn.readTs",
				"fingerprints are compared for a window other than ct.ts > txn.readTs: commits the transaction could see cause refusals, or commits it could not see are ignored")
		})
	}
	check(f, nil, func(b ssa.Value) ssa.Value { return b })
	eachInstr(f, func(ins ssa.Instruction) {
		call, ok := ins.(*ssa.Call)
		if !ok {
			return
		}
		for _, h := range p.Callees(call) {
			if h.Pkg != f.Pkg || h == f {
				continue
			}
			check(h, call, func(b ssa.Value) ssa.Value {
				// the record is a parameter of the helper (or loaded through a pointer parameter)
				if u, ok := b.(*ssa.UnOp); ok && u.Op == token.MUL {
					b = u.X
				}
				if al, ok := b.(*ssa.Alloc); ok {
					// a spilled value parameter: the only store into the cell is the parameter itself
					var stored []ssa.Value
					for _, ref := range *al.Referrers() {
						if st, ok := ref.(*ssa.Store); ok && st.Addr == al {
							stored = append(stored, st.Val)
						}
					}
					if len(stored) == 1 {
						b = stored[0]
					}
				}
				pr, ok := b.(*ssa.Parameter)
				if !ok {
					return nil
				}
				for i, q := range h.Params {
					if q == pr && i < len(call.Call.Args) && !call.Call.IsInvoke() {
						return call.Call.Args[i]
					}
				}
				return nil
			})
			// the helper is handed the record's fingerprint set itself: writesAnyOf(ct.writesFp, txn.readsFp)
			if call.Call.IsInvoke() || len(h.Blocks) == 0 {
				continue
			}
			for i, q := range h.Params {
				if i >= len(call.Call.Args) {
					break
				}
				rec := fieldBase(call.Call.Args[i], a.fCtFp)
				if rec == nil {
					continue
				}
				looks := false
				eachInstr(h, func(i2 ssa.Instruction) {
					if lk, ok := i2.(*ssa.Lookup); ok && lk.X == ssa.Value(q) {
						looks = true
					}
				})
				if !looks {
					continue
				}
				n++
				g := hasFact(call, func(cm Cmp) bool {
					if cm.Op != ">" || cm.Y == nil || !isLoadOfField(cm.Y, a.fReadTs) {
						return false
					}
					return sameRecord(fieldBase(cm.X, a.fCtTs), rec)
				})
				r.Check(g, fn, "compare only with commits after the snapshot", p.Pos(instrPos(call)), "fingerprints are compared only when ct.ts > txn.readTs",
					"fingerprints are compared for a window other than ct.ts > txn.readTs: commits the transaction could see cause refusals, or commits it could not see are ignored")
			}
		}
	})
	if n == 0 {
		r.Undecided(fn, "fingerprint lookup", p.Pos(f.Pos()), "no lookup in committedTxn.writesFp found")
	}
	// cleanUp: the kept entries are those above readMark.DoneUntil
	cu := a.cleanUp
	cfn := p.FnName(cu)
	readDone := func(v ssa.Value) bool {
		call, ok := v.(*ssa.Call)
		return ok && markCalls(p, a.fReadMark, "DoneUntil")(call)
	}
	m := 0
	eachInstr(cu, func(ins ssa.Instruction) {
		if !a.keepsRecord(ins) || !inLoop(ins.Block()) {
			return
		}
		call := ins
		m++
		isCtTs := func(v ssa.Value) bool {
			return p.dependsOn(v, func(x ssa.Value) bool {
				if isLoadOfField(x, a.fCtTs) {
					return true
				}
				if fx, ok := x.(*ssa.Field); ok {
					return fx.X.Type().Underlying().(*types.Struct).Field(fx.Field) == a.fCtTs
				}
				return false
			})
		}
		g := hasFact(call, func(cm Cmp) bool {
			return (cm.Op == ">" || cm.Op == ">=") && cm.Y != nil && isCtTs(cm.X) && p.dependsOn(cm.Y, readDone)
		})
		r.Check(g, cfn, "keep commits above the read watermark", p.Pos(instrPos(call)), "kept when ts > readMark.DoneUntil",
			"committed transactions are not kept exactly when their timestamp is above readMark.DoneUntil: an open transaction can miss a conflict")
	})
	if m == 0 {
		if call, drop, ok := a.deleteFuncDrop(cu); ok {
			m++
			r.Check(a.dropsAtOrBelowWatermark(drop), cfn, "keep commits above the read watermark", p.Pos(instrPos(call)), "slices.DeleteFunc drops exactly the records with ts <= readMark.DoneUntil",
				"committed transactions are not kept exactly when their timestamp is above readMark.DoneUntil: an open transaction can miss a conflict")
		}
	}
	if m == 0 {
		r.Undecided(cfn, "keep loop", p.Pos(cu.Pos()), "no append in a loop found in cleanUpCommittedTxns")
	}
}

func runTraceConfine(c *Ctx, r *RuleRun) {
	a := c.Txn()
	if !a.ok(r) {
		return
	}
	p := c.P
	d := c.Dur()
	ra := c.Races()
	la := c.Locks()
	writesIn := map[*ssa.Function][]Access{}
	for _, cls := range ra.Classes {
		for _, ac := range ra.Accesses[cls] {
			if ac.Write {
				writesIn[ac.Fn] = append(writesIn[ac.Fn], ac)
			}
		}
	}
	exempt := func(ac Access) string {
		owner := p.fieldOwner(ac.Field)
		switch {
		case owner == "Txn":
			return "private buffer of the transaction"
		case strings.HasPrefix(ac.Class, "Filter.hashFns"):
			return "scratch state of the bloom filter's hash functions (reset after every use)"
		case owner == "FLogger" || strings.HasPrefix(ac.Class, "logger"):
			return "logging"
		}
		return ""
	}
	roots := map[string]*ssa.Function{}
	for _, n := range []string{"Set", "Delete", "SetEntry", "Get", "Discard"} {
		if f := p.Fn("", "Txn", n); f != nil {
			roots[n] = f
		}
	}
	if len(roots) < 5 {
		r.Undecided("-", "Txn methods", "", "not all of Txn.Set/Delete/SetEntry/Get/Discard found")
		return
	}
	for _, n := range []string{"Set", "Delete", "SetEntry", "Get", "Discard"} {
		f := roots[n]
		bad := ""
		var badPos token.Pos
		for g := range la.roleReach([]*ssa.Function{f}) {
			for _, ac := range writesIn[g] {
				if exempt(ac) == "" && bad == "" {
					bad = fmt.Sprintf("%s in %s writes shared state %s", ac.What, p.FnName(g), ac.Class)
					badPos = instrPos(ac.Ins)
				}
			}
			for _, fe := range d.byFn[g] {
				switch fe.Kind {
				case "create", "write", "sync", "remove", "rename", "truncate":
					if bad == "" {
						bad = fmt.Sprintf("%s of a %s file in %s", fe.Kind, fe.Class, p.FnName(g))
						badPos = instrPos(fe.Ins)
					}
				}
			}
		}
		if bad != "" {
			r.Viol(p.FnName(f), "confined to the private buffer", p.Pos(badPos), "reachable from "+p.FnName(f)+": "+bad+" — an uncommitted (possibly later discarded or refused) write leaves a trace")
		} else {
			r.Hold(p.FnName(f), "confined to the private buffer", p.Pos(f.Pos()), "no store to shared engine state and no mutating file effect is reachable")
		}
	}
	// every way from the API to a wal append goes through Commit
	isWalWrite := func(ins ssa.Instruction) bool {
		fe := d.effects[ins]
		return fe != nil && fe.Kind == "write" && fe.Class == "wal"
	}
	for _, root := range la.RoleRoots["U"] {
		if root == a.commit || root == a.commitEntry {
			continue
		}
		// reach without entering Commit
		seen := map[*ssa.Function]bool{a.commit: true, a.commitEntry: true}
		bad := false
		var visit func(g *ssa.Function)
		visit = func(g *ssa.Function) {
			if seen[g] || !p.InModule(g) {
				return
			}
			seen[g] = true
			eachInstr(g, func(ins ssa.Instruction) {
				if isWalWrite(ins) {
					bad = true
				}
				if ci, ok := ins.(ssa.CallInstruction); ok {
					if _, isGo := ci.(*ssa.Go); isGo {
						return
					}
					for _, h := range p.Callees(ci) {
						visit(h)
					}
				}
			})
		}
		visit(root)
		r.Check(!bad, p.FnName(root), "wal append only through Commit", p.Pos(root.Pos()), "no wal append reachable except through Txn.Commit", "a wal append is reachable from "+p.FnName(root)+" without passing through Txn.Commit (validation)")
	}
}

func runTraceUpdate(c *Ctx, r *RuleRun) {
	a := c.Txn()
	if !a.ok(r) {
		return
	}
	p := c.P
	f := a.update
	fn := p.FnName(f)
	var closureCall *ssa.Call
	eachInstr(f, func(ins ssa.Instruction) {
		if call, ok := ins.(*ssa.Call); ok {
			if _, isParam := call.Call.Value.(*ssa.Parameter); isParam {
				closureCall = call
			}
		}
	})
	commits := callsTo(p, f, a.commitEntry)
	if closureCall == nil || len(commits) == 0 {
		r.Undecided(fn, "closure/commit", p.Pos(f.Pos()), "closure call or Commit call not found in Update")
		return
	}
	for _, cm := range commits {
		g := hasFact(cm, func(x Cmp) bool {
			return x.Op == "==" && x.X == ssa.Value(closureCall) && x.Y != nil && isNilConst(x.Y)
		})
		r.Check(g, fn, "Commit only if the closure returned nil", p.Pos(instrPos(cm)), "dominated by err == nil", "Update commits although the closure returned an error: writes of an abandoned transaction become visible")
		recvOK := len(cm.Call.Args) > 0 && callTo(p, cm.Call.Args[0], a.begin) != nil
		r.Check(recvOK, fn, "Commit on the begun transaction", p.Pos(instrPos(cm)), "same transaction", "Commit is called on something other than the transaction returned by Begin")
	}
}

func runTraceMisuse(c *Ctx, r *RuleRun) {
	a := c.Txn()
	if !a.ok(r) {
		return
	}
	p := c.P
	f := a.modify
	fn := p.FnName(f)
	keyField := p.Field("types", "Entry", "Key")
	type guard struct {
		name   string
		errVar string
		failed func(cm Cmp) bool // the fact on the refusing edge
	}
	isFlag := func(fv *types.Var) func(cm Cmp) bool {
		return func(cm Cmp) bool { return cm.Y == nil && cm.Op == "true" && isLoadOfField(cm.X, fv) }
	}
	emptyKey := func(cm Cmp) bool {
		if cm.Y == nil {
			return false
		}
		// len(e.Key) == 0 (also <= 0, < 1) says the same as e.Key == ""
		if lc, isCall := stripValue(cm.X).(*ssa.Call); isCall {
			if bi, isBi := lc.Call.Value.(*ssa.Builtin); isBi && bi.Name() == "len" {
				if fv, _ := loadedField(lc.Call.Args[0]); fv == keyField {
					if k, isK := constInt(cm.Y); isK && ((cm.Op == "==" && k == 0) || (cm.Op == "<=" && k == 0) || (cm.Op == "<" && k == 1)) {
						return true
					}
				}
			}
		}
		if cm.Op != "==" {
			return false
		}
		s, ok := constString(cm.Y)
		if !ok || s != "" {
			return false
		}
		fv, _ := loadedField(cm.X)
		return fv == keyField
	}
	guards := []guard{{"read-only", "ErrReadOnlyTxn", isFlag(a.fReadOnly)}, {"discarded", "ErrDiscardedTxn", isFlag(a.fDiscarded)}, {"empty key", "ErrEmptyKey", emptyKey}}
	neg := func(g func(Cmp) bool) func(Cmp) bool {
		return func(cm Cmp) bool { return g(Cmp{negateOp(cm.Op), cm.X, cm.Y}) }
	}
	// the checks may live in a helper whose error modify passes on
	cands := []*ssa.Function{f}
	eachInstr(f, func(ins ssa.Instruction) {
		call, ok := ins.(*ssa.Call)
		if !ok {
			return
		}
		g := call.Call.StaticCallee()
		if g == nil || !p.InModule(g) || g.Pkg != f.Pkg || errResultIndex(g.Signature) < 0 || len(g.Blocks) == 0 {
			return
		}
		if !p.recvIs(g, "Txn") {
			// a plain validator: its error is what modify returns
			passedOn := false
			eachInstr(f, func(i2 ssa.Instruction) {
				if ret, isRet := i2.(*ssa.Return); isRet && len(ret.Results) > 0 &&
					derivesFrom(retOperand(ret, 0), func(x ssa.Value) bool { return x == ssa.Value(call) }) {
					passedOn = true
				}
			})
			if !passedOn {
				return
			}
		}
		cands = append(cands, g)
	})
	// effects of modify: the map updates
	var ups []ssa.Instruction
	eachInstr(f, func(ins ssa.Instruction) {
		if _, ok := ins.(*ssa.MapUpdate); ok {
			ups = append(ups, ins)
		}
	})
	for _, g := range guards {
		ok := len(ups) > 0
		for _, u := range ups {
			if !p.hasFactIP(u, neg(g.failed), 0) {
				ok = false
			}
		}
		r.Check(ok, fn, "guard "+g.name, p.Pos(f.Pos()), "the buffer is only written when the check passed", "the write buffer can be modified although the transaction is "+g.name+" (misuse has an effect)")
		ev := p.Global("", g.errVar)
		// the documented error is returned on the failing side of the check and never on its passing side: from every
		// branch edge that establishes "check passed" no return of that error is reachable, and from some edge that
		// establishes "check failed" one is
		isErrRet := func(ins ssa.Instruction) bool {
			if ev == nil {
				return false
			}
			if ret, ok := ins.(*ssa.Return); ok {
				return globalLoaded(retOperand(ret, 0)) == ev
			}
			// single exit with a result variable: the jump that carries the error into the phi the function returns
			if jp, ok := ins.(*ssa.Jump); ok {
				b := jp.Block()
				s := b.Succs[0]
				ret, ok := s.Instrs[len(s.Instrs)-1].(*ssa.Return)
				if !ok || len(ret.Results) == 0 {
					return false
				}
				ph, ok := retOperand(ret, 0).(*ssa.Phi)
				if !ok || ph.Block() != s {
					return false
				}
				for i, pb := range s.Preds {
					if pb == b && i < len(ph.Edges) && globalLoaded(ph.Edges[i]) == ev {
						return true
					}
				}
			}
			return false
		}
		found, wrongSide := false, false
		for _, f := range cands {
			for _, b := range f.Blocks {
				if len(b.Instrs) == 0 {
					continue
				}
				iff, ok := b.Instrs[len(b.Instrs)-1].(*ssa.If)
				if !ok {
					continue
				}
				for si, sb := range b.Succs {
					if len(sb.Instrs) == 0 {
						continue
					}
					cm := canonCond(iff.Cond, si == 0)
					reach := func() bool {
						if isErrRet(sb.Instrs[0]) {
							return true
						}
						q := PathQuery{P: p, Fn: f, Starts: []ssa.Instruction{iff}, Target: isErrRet,
							EdgeOK: func(bb *ssa.BasicBlock, i int) bool {
								if bb == b {
									return i == si
								}
								// the same check written a second way (`len(k) == 0 || k == ""`): the edge on which that
								// one fails is a failing side too
								if if2, ok := bb.Instrs[len(bb.Instrs)-1].(*ssa.If); ok && len(bb.Succs) == 2 {
									c2 := canonCond(if2.Cond, i == 0)
									if g.failed(c2) || g.failed(c2.Flip()) {
										return false
									}
								}
								return true
							},
							Avoid: func(i ssa.Instruction) bool { return i == ssa.Instruction(iff) }}
						return q.FindPath() != nil
					}
					if g.failed(cm) || g.failed(cm.Flip()) {
						// directly after the failing edge: the error return, without passing another guard's failing return first
						if len(sb.Instrs) > 0 {
							direct := false
							for cur := sb; cur != nil; {
								retFound := false
								for _, i2 := range cur.Instrs {
									if isErrRet(i2) {
										retFound = true
									}
								}
								if retFound {
									direct = true
									break
								}
								if len(cur.Succs) == 1 {
									cur = cur.Succs[0]
								} else {
									cur = nil
								}
							}
							if direct {
								found = true
							}
						}
					}
					if neg(g.failed)(cm) || neg(g.failed)(cm.Flip()) {
						if reach() {
							wrongSide = true
						}
					}
				}
			}
		}
		r.Check(found && !wrongSide, fn, "answer "+g.errVar, p.Pos(f.Pos()), "returned on the failing branch of the "+g.name+" check and nowhere after it passed", g.errVar+" is not returned exactly when the "+g.name+" check fails")
	}
	// Commit of a finished transaction
	cf := a.commit
	allocs := callsTo(p, cf, a.newCommitTs)
	okc := len(allocs) > 0
	for _, al := range allocs {
		if !p.hasFactUp(al, neg(isFlag(a.fDiscarded)), 0) {
			okc = false
		}
	}
	r.Check(okc, p.FnName(cf), "guard discarded", p.Pos(cf.Pos()), "a finished transaction never reaches validation", "Commit of a finished transaction reaches validation/apply")
	// a finished transaction is marked finished: Discard sets `discarded` on every path on which it is not already set,
	// and Commit reaches Discard on every path past its first check
	{
		df := a.discard
		sets := func(i ssa.Instruction) bool {
			st, ok := i.(*ssa.Store)
			if !ok {
				return false
			}
			fv, _ := fieldOfAddr(st.Addr)
			return fv == a.fDiscarded && isConstBool(st.Val, true)
		}
		edgeOK := func(b *ssa.BasicBlock, i int) bool {
			iff, ok := b.Instrs[len(b.Instrs)-1].(*ssa.If)
			if !ok {
				return true
			}
			cm := canonCond(iff.Cond, i == 0)
			return !(cm.Y == nil && cm.Op == "true" && isLoadOfField(cm.X, a.fDiscarded))
		}
		q := PathQuery{P: p, Fn: df, Avoid: sets, EdgeOK: edgeOK, Target: isReturn}
		w := q.FindPath()
		r.Check(w == nil, p.FnName(df), "Discard marks the transaction finished", p.Pos(df.Pos()), "every return leaves discarded == true",
			"Discard can return without marking the transaction finished: a committed or discarded transaction keeps accepting Set/Commit, and a second Commit re-applies its stale write set")
		isDiscard := func(i ssa.Instruction) bool {
			ci, ok := i.(ssa.CallInstruction)
			if !ok {
				return false
			}
			for _, g := range p.Callees(ci) {
				if g == df {
					return true
				}
			}
			return false
		}
		// start after the discarded pre-check: from the first instruction on the not-discarded edge
		var starts []ssa.Instruction
		cf := a.commitEntry
		for _, b := range cf.Blocks {
			if len(b.Instrs) == 0 {
				continue
			}
			if iff, ok := b.Instrs[len(b.Instrs)-1].(*ssa.If); ok {
				cm := canonCond(iff.Cond, true)
				if cm.Y == nil && isLoadOfField(cm.X, a.fDiscarded) {
					idx := 1
					if cm.Op == "false" {
						idx = 0
					}
					if len(b.Succs[idx].Instrs) > 0 {
						starts = append(starts, b.Succs[idx].Instrs[0])
					}
				}
			}
		}
		if len(starts) > 0 {
			first := starts[0]
			if isDiscard(first) {
				r.Hold(p.FnName(cf), "Commit finishes the transaction", p.Pos(cf.Pos()), "Discard on every path")
			} else {
				q2 := PathQuery{P: p, Fn: cf, Starts: []ssa.Instruction{first}, Avoid: isDiscard, Target: isReturn}
				w2 := q2.FindPath()
				r.Check(w2 == nil, p.FnName(cf), "Commit finishes the transaction", p.Pos(cf.Pos()), "every return past the first check is preceded by (a deferred) Discard",
					"Commit can return without discarding the transaction: it stays usable after it was committed or refused")
			}
		}
	}
	// View/Update after Close
	errClosed := p.Global("", "ErrDBClosed")
	stateFn := p.Fn("", "DB", "State")
	for _, vf := range []*ssa.Function{a.view, a.update} {
		vfn := p.FnName(vf)
		isClosedFact := func(want string) func(cm Cmp) bool {
			return func(cm Cmp) bool {
				if cm.Y == nil || cm.Op != want {
					return false
				}
				k, ok := constInt(cm.Y)
				return ok && k == 3 && callTo(p, unconv(cm.X), stateFn) != nil
			}
		}
		begins := callsTo(p, vf, a.begin)
		okb := len(begins) > 0
		for _, b := range begins {
			if !hasFact(b, isClosedFact("!=")) {
				okb = false
			}
		}
		r.Check(okb, vfn, "guard closed", p.Pos(vf.Pos()), "Begin is only reached when State() != StateClosed", "a transaction can be begun through "+vfn+" after Close")
		found := false
		eachInstr(vf, func(ins ssa.Instruction) {
			if ret, ok := ins.(*ssa.Return); ok && errClosed != nil && globalLoaded(retOperand(ret, 0)) == errClosed && hasFact(ret, isClosedFact("==")) {
				found = true
			}
		})
		r.Check(found, vfn, "answer ErrDBClosed", p.Pos(vf.Pos()), "returned when State() == StateClosed", "ErrDBClosed is not returned for a closed DB")
	}
}

// retBool: the i-th result of ret is the boolean want - the constant, or (named results, `return` after
// `if conflict = check(); conflict {`) a value that the dominating branches have established to be want.
func retBool(ret *ssa.Return, i int, want bool) bool {
	if i >= len(ret.Results) {
		return false
	}
	v := retOperand(ret, i)
	if isConstBool(v, want) {
		return true
	}
	if _, isConst := v.(*ssa.Const); isConst {
		return false
	}
	same := map[ssa.Value]bool{}
	for _, x := range cellAliases(v) {
		same[x] = true
	}
	for _, x := range cellAliases(ret.Results[i]) {
		same[x] = true
	}
	return boolFactIs(ret, func(x ssa.Value) bool { return same[x] }, want)
}
