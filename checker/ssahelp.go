package main

// Call resolution, no-return inference, reachability, small SSA helpers.

import (
	"go/constant"
	"go/token"
	"go/types"
	"sort"

	"golang.org/x/tools/go/ssa"
)

// Callees resolves a call to module functions. External callees are not returned (see extCallee).
// Interface calls are resolved by class hierarchy over the module's types (sound for module interfaces;
// interfaces implemented outside the module, e.g. hash.Hash32, resolve to nothing here).
func (p *Prog) Callees(site ssa.CallInstruction) []*ssa.Function {
	if r, ok := p.calleeCache[site]; ok {
		return r
	}
	var res []*ssa.Function
	c := site.Common()
	if c.IsInvoke() {
		// all module types whose method set has the method and that implement the interface
		iface, _ := c.Value.Type().Underlying().(*types.Interface)
		if iface != nil {
			for _, pk := range p.Pkgs {
				sc := pk.Types.Scope()
				for _, n := range sc.Names() {
					tn, ok := sc.Lookup(n).(*types.TypeName)
					if !ok || tn.IsAlias() {
						continue
					}
					for _, T := range []types.Type{tn.Type(), types.NewPointer(tn.Type())} {
						if types.IsInterface(T) {
							continue
						}
						if types.Implements(T, iface) {
							sel := p.SSA.MethodSets.MethodSet(T).Lookup(c.Method.Pkg(), c.Method.Name())
							if sel != nil {
								if f := p.SSA.MethodValue(sel); f != nil {
									res = append(res, p.unwrap(f))
								}
							}
						}
					}
				}
			}
		}
	} else if f := c.StaticCallee(); f != nil {
		res = append(res, f)
	} else if mc, ok := c.Value.(*ssa.MakeClosure); ok {
		res = append(res, mc.Fn.(*ssa.Function))
	}
	// dedupe, keep module functions only
	seen := map[*ssa.Function]bool{}
	var out []*ssa.Function
	for _, f := range res {
		if f != nil && !seen[f] && p.InModule(f) {
			seen[f] = true
			out = append(out, f)
		}
	}
	sort.Slice(out, func(i, j int) bool { return out[i].String() < out[j].String() })
	p.calleeCache[site] = out
	return out
}

// unwrap maps a synthetic wrapper (pointer-receiver thunk, promoted method) to the declared function.
func (p *Prog) unwrap(f *ssa.Function) *ssa.Function {
	if f == nil || f.Synthetic == "" {
		return f
	}
	if obj, ok := f.Object().(*types.Func); ok {
		if g := p.SSA.FuncValue(obj); g != nil && g != f {
			return g
		}
	}
	return f
}

// ExtCallee returns the types.Func of a statically resolved callee outside the module (std, third party),
// or the interface method for an invoke.
func (p *Prog) ExtCallee(site ssa.CallInstruction) *types.Func {
	c := site.Common()
	if c.IsInvoke() {
		return c.Method
	}
	if f := c.StaticCallee(); f != nil && !p.InModule(f) {
		if obj, ok := f.Object().(*types.Func); ok {
			return obj
		}
	}
	return nil
}

// CalleeObj returns the types.Func of any statically known callee (module or not), or the interface method.
func (p *Prog) CalleeObj(site ssa.CallInstruction) *types.Func {
	c := site.Common()
	if c.IsInvoke() {
		return c.Method
	}
	if f := c.StaticCallee(); f != nil {
		if obj, ok := f.Object().(*types.Func); ok {
			return obj
		}
	}
	return nil
}

// funcIs reports whether obj is pkgPath.name or (pkgPath.recv).name.
func funcIs(obj *types.Func, pkgPath, recv, name string) bool {
	if obj == nil || obj.Name() != name || obj.Pkg() == nil || obj.Pkg().Path() != pkgPath {
		return false
	}
	sig := obj.Type().(*types.Signature)
	if recv == "" {
		return sig.Recv() == nil
	}
	if sig.Recv() == nil {
		return false
	}
	t := sig.Recv().Type()
	if pt, ok := t.(*types.Pointer); ok {
		t = pt.Elem()
	}
	if n, ok := types.Unalias(t).(*types.Named); ok {
		return n.Obj().Name() == recv
	}
	return false
}

var extNoReturn = [][3]string{
	{"log", "Logger", "Panicf"}, {"log", "Logger", "Panic"}, {"log", "Logger", "Panicln"},
	{"log", "Logger", "Fatalf"}, {"log", "Logger", "Fatal"}, {"log", "Logger", "Fatalln"},
	{"log", "", "Panicf"}, {"log", "", "Panic"}, {"log", "", "Fatalf"}, {"log", "", "Fatal"},
	{"os", "", "Exit"}, {"runtime", "", "Goexit"},
}

// CallNoReturn: the call never returns normally (panics/exits) for every resolved callee.
func (p *Prog) CallNoReturn(site ssa.CallInstruction) bool {
	c := site.Common()
	if b, ok := c.Value.(*ssa.Builtin); ok && b.Name() == "panic" {
		return true
	}
	if obj := p.ExtCallee(site); obj != nil && !c.IsInvoke() {
		for _, e := range extNoReturn {
			if funcIs(obj, e[0], e[1], e[2]) {
				return true
			}
		}
		return false
	}
	cs := p.Callees(site)
	if len(cs) == 0 {
		return false
	}
	for _, f := range cs {
		if !p.NoReturn(f) {
			return false
		}
	}
	return true
}

// NoReturn: no Return instruction of f is reachable once no-return calls are treated as terminators.
func (p *Prog) NoReturn(f *ssa.Function) bool {
	switch p.noRetCache[f] {
	case 1, 3:
		return false
	case 2:
		return true
	}
	p.noRetCache[f] = 3
	res := true
	seen := map[*ssa.BasicBlock]bool{}
	var walk func(b *ssa.BasicBlock)
	walk = func(b *ssa.BasicBlock) {
		if seen[b] || !res {
			return
		}
		seen[b] = true
		for _, ins := range b.Instrs {
			switch x := ins.(type) {
			case *ssa.Return:
				res = false
				return
			case ssa.CallInstruction:
				if _, isGo := x.(*ssa.Go); isGo {
					continue
				}
				if _, isDefer := x.(*ssa.Defer); isDefer {
					continue
				}
				if p.CallNoReturn(x) {
					return
				}
			}
		}
		for _, s := range b.Succs {
			walk(s)
		}
	}
	if len(f.Blocks) > 0 {
		walk(f.Blocks[0])
	} else {
		res = false
	}
	if res {
		p.noRetCache[f] = 2
	} else {
		p.noRetCache[f] = 1
	}
	return res
}

// Reach: module functions transitively callable from f (calls, go, defer, and closures created in f), f included.
func (p *Prog) Reach(f *ssa.Function) map[*ssa.Function]bool {
	if r, ok := p.reachCache[f]; ok {
		return r
	}
	r := map[*ssa.Function]bool{}
	var visit func(g *ssa.Function)
	visit = func(g *ssa.Function) {
		if g == nil || r[g] || !p.InModule(g) {
			return
		}
		r[g] = true
		for _, h := range p.DirectCallees(g) {
			visit(h)
		}
	}
	visit(f)
	p.reachCache[f] = r
	return r
}

// DirectCallees: callees of all call sites of g plus closures created in g.
func (p *Prog) DirectCallees(g *ssa.Function) []*ssa.Function {
	var out []*ssa.Function
	for _, b := range g.Blocks {
		for _, ins := range b.Instrs {
			if ci, ok := ins.(ssa.CallInstruction); ok {
				out = append(out, p.Callees(ci)...)
			}
			if mc, ok := ins.(*ssa.MakeClosure); ok {
				out = append(out, mc.Fn.(*ssa.Function))
			}
		}
	}
	return out
}

// CallersOf: call sites (call, go, defer) in the module that may call f.
func (p *Prog) CallersOf(f *ssa.Function) []ssa.CallInstruction {
	if p.callersOf == nil {
		p.callersOf = map[*ssa.Function][]ssa.CallInstruction{}
		for _, g := range p.Funcs {
			for _, b := range g.Blocks {
				for _, ins := range b.Instrs {
					if ci, ok := ins.(ssa.CallInstruction); ok {
						for _, h := range p.Callees(ci) {
							p.callersOf[h] = append(p.callersOf[h], ci)
						}
					}
				}
			}
		}
	}
	return p.callersOf[f]
}

// ---- value helpers ----

func isNilConst(v ssa.Value) bool {
	c, ok := v.(*ssa.Const)
	return ok && c.IsNil()
}

func constInt(v ssa.Value) (int64, bool) {
	c, ok := v.(*ssa.Const)
	if !ok || c.Value == nil || c.Value.Kind() != constant.Int {
		return 0, false
	}
	return c.Int64(), true
}

func constString(v ssa.Value) (string, bool) {
	c, ok := v.(*ssa.Const)
	if !ok || c.Value == nil || c.Value.Kind() != constant.String {
		return "", false
	}
	return constant.StringVal(c.Value), true
}

func isErrorType(t types.Type) bool {
	return types.Identical(t, types.Universe.Lookup("error").Type())
}

// errResultIndex: index of the trailing error result of a signature, -1 if none.
func errResultIndex(sig *types.Signature) int {
	n := sig.Results().Len()
	if n == 0 {
		return -1
	}
	if isErrorType(sig.Results().At(n - 1).Type()) {
		return n - 1
	}
	return -1
}

// stripValue removes conversions/ChangeType/MakeInterface wrappers.
func stripValue(v ssa.Value) ssa.Value {
	for {
		switch x := v.(type) {
		case *ssa.ChangeType:
			v = x.X
		case *ssa.Convert:
			v = x.X
		case *ssa.MakeInterface:
			v = x.X
		case *ssa.ChangeInterface:
			v = x.X
		default:
			return v
		}
	}
}

// fieldOfAddr: if v is &x.f (FieldAddr) returns the field var and the base value.
func fieldOfAddr(v ssa.Value) (*types.Var, ssa.Value) {
	fa, ok := v.(*ssa.FieldAddr)
	if !ok {
		return nil, nil
	}
	st := fa.X.Type().Underlying().(*types.Pointer).Elem().Underlying().(*types.Struct)
	return st.Field(fa.Field), fa.X
}

// loadedField: if v is a load *(&x.f) or a Field extraction x.f, returns the field and base.
func loadedField(v ssa.Value) (*types.Var, ssa.Value) {
	switch x := v.(type) {
	case *ssa.UnOp:
		if x.Op == token.MUL {
			return fieldOfAddr(x.X)
		}
	case *ssa.Field:
		st := x.X.Type().Underlying().(*types.Struct)
		return st.Field(x.Field), x.X
	}
	return nil, nil
}

// instrPos gives a useful position for any instruction (falls back to the enclosing function).
func instrPos(ins ssa.Instruction) token.Pos {
	if ins.Pos().IsValid() {
		return ins.Pos()
	}
	if v, ok := ins.(ssa.Value); ok {
		for _, r := range *v.Referrers() {
			if r.Pos().IsValid() {
				return r.Pos()
			}
		}
	}
	// search neighbours in the block
	b := ins.Block()
	idx := -1
	for i, x := range b.Instrs {
		if x == ins {
			idx = i
		}
	}
	for d := 1; d < len(b.Instrs); d++ {
		if idx-d >= 0 && b.Instrs[idx-d].Pos().IsValid() {
			return b.Instrs[idx-d].Pos()
		}
		if idx+d < len(b.Instrs) && b.Instrs[idx+d].Pos().IsValid() {
			return b.Instrs[idx+d].Pos()
		}
	}
	return ins.Parent().Pos()
}

// instrIndex returns the index of ins in its block.
func instrIndex(ins ssa.Instruction) int {
	for i, x := range ins.Block().Instrs {
		if x == ins {
			return i
		}
	}
	return -1
}

// before: a is executed before b on every path reaching b within one function (a dominates b).
func dominatesInstr(a, b ssa.Instruction) bool {
	if a.Block() == b.Block() {
		return instrIndex(a) < instrIndex(b)
	}
	return a.Block().Dominates(b.Block())
}

// ---- values through helper parameters ----

// callerArgs: what the call sites of pr's function pass for pr; nil when the function has no known call site.
func (p *Prog) callerArgs(pr *ssa.Parameter) []ssa.Value {
	g := pr.Parent()
	idx := -1
	for i, q := range g.Params {
		if q == pr {
			idx = i
		}
	}
	if idx < 0 {
		return nil
	}
	var out []ssa.Value
	for _, cs := range p.CallersOf(g) {
		args := cs.Common().Args
		if cs.Common().IsInvoke() || idx >= len(args) {
			return nil
		}
		out = append(out, args[idx])
	}
	return out
}

// through: v satisfies pred, or v is (a conversion of) a parameter for which every call site passes a value that
// does - at most three helper levels up. A function value that escapes has no complete list of call sites; only
// functions of the module that are called statically are followed.
func (p *Prog) through(v ssa.Value, pred func(ssa.Value) bool) bool {
	return p.throughD(v, pred, 0)
}

func (p *Prog) throughD(v ssa.Value, pred func(ssa.Value) bool, depth int) bool {
	if pred(v) {
		return true
	}
	u := unconv(v)
	if u != v && pred(u) {
		return true
	}
	pr, ok := u.(*ssa.Parameter)
	if !ok || depth >= 3 || p.isExported(pr.Parent()) {
		return false
	}
	args := p.callerArgs(pr)
	if len(args) == 0 {
		return false
	}
	for _, a := range args {
		if !p.throughD(a, pred, depth+1) {
			return false
		}
	}
	return true
}

// isExported: the function can be called from outside the module (exported name on an exported or no receiver).
func (p *Prog) isExported(f *ssa.Function) bool {
	if f == nil || f.Object() == nil {
		return false
	}
	return f.Object().Exported()
}

// liftMay: ins satisfies pred, or is a call that may (transitively, through module functions) execute one that does.
func (p *Prog) liftMay(pred InstrPred) InstrPred {
	return func(ins ssa.Instruction) bool {
		if pred(ins) {
			return true
		}
		if ci, ok := ins.(ssa.CallInstruction); ok {
			return p.SiteMayReach(ci, pred)
		}
		return false
	}
}

// directHolder: f if one of its own instructions satisfies pred, else the one module function called by f
// (at most two levels down) that does; nil when there is none or more than one.
func (p *Prog) directHolder(f *ssa.Function, pred InstrPred) *ssa.Function {
	cur := []*ssa.Function{f}
	for depth := 0; depth < 3 && len(cur) > 0; depth++ {
		var hit []*ssa.Function
		for _, g := range cur {
			has := false
			eachInstr(g, func(ins ssa.Instruction) {
				if pred(ins) {
					has = true
				}
			})
			if has {
				hit = append(hit, g)
			}
		}
		if len(hit) == 1 {
			return hit[0]
		}
		if len(hit) > 1 {
			return nil
		}
		var next []*ssa.Function
		seen := map[*ssa.Function]bool{}
		for _, g := range cur {
			for _, h := range p.DirectCallees(g) {
				if !seen[h] && h.Pkg == f.Pkg {
					seen[h] = true
					next = append(next, h)
				}
			}
		}
		cur = next
	}
	return nil
}

// singleStore: for a local cell that is stored to exactly once (`first := xs[0]` whose address is taken for a field
// read), the value stored; any other value is returned unchanged.
func singleStore(v ssa.Value) ssa.Value {
	al, ok := v.(*ssa.Alloc)
	if !ok || al.Heap {
		return v
	}
	var stored []ssa.Value
	for _, ref := range *al.Referrers() {
		if st, ok := ref.(*ssa.Store); ok && st.Addr == ssa.Value(al) {
			stored = append(stored, st.Val)
		}
	}
	if len(stored) == 1 {
		return stored[0]
	}
	return v
}

// localFns: f and the functions of its package it calls statically (one level): the places a step of f may have been
// moved to by an extract-function refactoring.
func localFns(p *Prog, f *ssa.Function) []*ssa.Function {
	out := []*ssa.Function{f}
	seen := map[*ssa.Function]bool{f: true}
	eachInstr(f, func(ins ssa.Instruction) {
		ci, ok := ins.(ssa.CallInstruction)
		if !ok {
			return
		}
		if g := ci.Common().StaticCallee(); g != nil && g.Pkg == f.Pkg && len(g.Blocks) > 0 && !seen[g] {
			seen[g] = true
			out = append(out, g)
		}
	})
	return out
}

func eachInstrOf(fs []*ssa.Function, fn func(ins ssa.Instruction)) {
	for _, f := range fs {
		eachInstr(f, fn)
	}
}

// passThrough: v is the result of a call of a helper or closure of the program that hands back one of its parameters
// on every return (`encoded := func(b []byte, err error) []byte { if err != nil { panic(err) }; return b }`): the
// argument passed for that parameter; any other value is returned unchanged.
func (p *Prog) passThrough(v ssa.Value) ssa.Value {
	for hops := 0; hops < 3; hops++ {
		call, ok := v.(*ssa.Call)
		if !ok || call.Call.IsInvoke() {
			return v
		}
		g := call.Call.StaticCallee()
		if g == nil || len(g.Blocks) == 0 || !p.InModule(g) || g.Signature.Results().Len() != 1 {
			return v
		}
		pi, n := -1, 0
		for _, b := range g.Blocks {
			if len(b.Instrs) == 0 || b == g.Recover {
				continue
			}
			ret, ok := b.Instrs[len(b.Instrs)-1].(*ssa.Return)
			if !ok {
				continue
			}
			n++
			pr, isParam := cellValue(retOperand(ret, 0)).(*ssa.Parameter)
			if !isParam {
				return v
			}
			k := -1
			for i, q := range g.Params {
				if q == pr {
					k = i
				}
			}
			if k < 0 || (pi >= 0 && pi != k) {
				return v
			}
			pi = k
		}
		if n == 0 || pi < 0 || pi >= len(call.Call.Args) {
			return v
		}
		v = call.Call.Args[pi]
	}
	return v
}
