package main

// File-system effects of std calls and classification of the files they touch.

import (
	"go/constant"
	"go/token"
	"go/types"
	"strings"

	"golang.org/x/tools/go/ssa"
)

type FileEffect struct {
	Kind  string // create, open, write, sync, close, remove, rename, truncate
	Class string // table, table-tmp, wal, unknown
	// for rename: class of the source and of the destination
	From, To string
	Ins      ssa.Instruction
	// for create through os.OpenFile: the constant flags (Truncates: O_TRUNC or O_EXCL set, or os.Create)
	Truncates bool
}

const (
	oCREATE = 0x40
	oTRUNC  = 0x200
	oAPPEND = 0x400
)

// FileEffectOf classifies a call instruction. nil if it has no file effect.
func (p *Prog) FileEffectOf(ins ssa.Instruction) *FileEffect {
	ci, ok := ins.(ssa.CallInstruction)
	if !ok {
		return nil
	}
	c := ci.Common()
	// a helper or closure of the program that writes to the stream it is handed (`put(dst io.Writer, v any)` around
	// binary.Write), called with a file: the call is the write
	if g := c.StaticCallee(); g != nil && !c.IsInvoke() && len(g.Blocks) > 0 && p.InModule(g) {
		for _, i := range p.writerParams(g) {
			if i < len(c.Args) {
				if f := osFileOperand(c.Args[i]); f != nil {
					return &FileEffect{Kind: "write", Class: p.fileClass(f), Ins: ins}
				}
			}
		}
		return nil
	}
	obj := p.ExtCallee(ci)
	if obj == nil || c.IsInvoke() {
		return nil
	}
	arg := func(i int) ssa.Value {
		if i < len(c.Args) {
			return c.Args[i]
		}
		return nil
	}
	switch {
	case funcIs(obj, "os", "", "OpenFile"):
		kind := "open"
		trunc := false
		if fl, ok := constInt(arg(1)); ok {
			if fl&oCREATE != 0 {
				kind = "create"
			}
			trunc = fl&oTRUNC != 0 || fl&0x80 != 0
		} else {
			kind = "create" // unknown flags: assume the worst
		}
		return &FileEffect{Kind: kind, Class: p.pathClass(arg(0)), Ins: ins, Truncates: trunc}
	case funcIs(obj, "os", "", "Create"):
		return &FileEffect{Kind: "create", Class: p.pathClass(arg(0)), Ins: ins, Truncates: true}
	case funcIs(obj, "os", "", "WriteFile"):
		return &FileEffect{Kind: "create", Class: p.pathClass(arg(0)), Ins: ins, Truncates: true}
	case funcIs(obj, "os", "", "Open"):
		return &FileEffect{Kind: "open", Class: p.pathClass(arg(0)), Ins: ins}
	case funcIs(obj, "os", "", "Remove"), funcIs(obj, "os", "", "RemoveAll"):
		return &FileEffect{Kind: "remove", Class: p.pathClass(arg(0)), Ins: ins}
	case funcIs(obj, "os", "", "Truncate"):
		return &FileEffect{Kind: "truncate", Class: p.pathClass(arg(0)), Ins: ins}
	case funcIs(obj, "os", "", "Rename"):
		from, to := p.pathClass(arg(0)), p.pathClass(arg(1))
		return &FileEffect{Kind: "rename", Class: to, From: from, To: to, Ins: ins}
	case funcIs(obj, "os", "File", "Write"), funcIs(obj, "os", "File", "WriteString"), funcIs(obj, "os", "File", "WriteAt"), funcIs(obj, "os", "File", "ReadFrom"):
		return &FileEffect{Kind: "write", Class: p.fileClass(arg(0)), Ins: ins}
	case funcIs(obj, "os", "File", "Truncate"):
		return &FileEffect{Kind: "truncate", Class: p.fileClass(arg(0)), Ins: ins}
	case funcIs(obj, "os", "File", "Sync"):
		return &FileEffect{Kind: "sync", Class: p.fileClass(arg(0)), Ins: ins}
	case funcIs(obj, "os", "File", "Close"):
		return &FileEffect{Kind: "close", Class: p.fileClass(arg(0)), Ins: ins}
	case funcIs(obj, "encoding/binary", "", "Write"), funcIs(obj, "io", "", "WriteString"):
		if f := osFileOperand(arg(0)); f != nil {
			return &FileEffect{Kind: "write", Class: p.fileClass(f), Ins: ins}
		}
	case funcIs(obj, "io", "", "Copy"), funcIs(obj, "io", "", "CopyN"), funcIs(obj, "io", "", "CopyBuffer"):
		if f := osFileOperand(arg(0)); f != nil {
			return &FileEffect{Kind: "write", Class: p.fileClass(f), Ins: ins}
		}
	case obj.Pkg() != nil && obj.Pkg().Path() == "fmt" && strings.HasPrefix(obj.Name(), "Fprint"):
		if f := osFileOperand(arg(0)); f != nil {
			return &FileEffect{Kind: "write", Class: p.fileClass(f), Ins: ins}
		}
	}
	return nil
}

// writerParams: the parameters of g (indices) of an interface type that g hands to a writing library call as the
// destination stream.
func (p *Prog) writerParams(g *ssa.Function) []int {
	if p.wparams == nil {
		p.wparams = map[*ssa.Function][]int{}
	}
	if r, ok := p.wparams[g]; ok {
		return r
	}
	var out []int
	eachInstr(g, func(ins ssa.Instruction) {
		call, ok := ins.(*ssa.Call)
		if !ok || call.Call.IsInvoke() || len(call.Call.Args) == 0 {
			return
		}
		obj := p.ExtCallee(call)
		if obj == nil {
			return
		}
		writes := funcIs(obj, "encoding/binary", "", "Write") || funcIs(obj, "io", "", "WriteString") || funcIs(obj, "io", "", "Copy") ||
			(obj.Pkg() != nil && obj.Pkg().Path() == "fmt" && strings.HasPrefix(obj.Name(), "Fprint"))
		if !writes {
			return
		}
		pr, isParam := call.Call.Args[0].(*ssa.Parameter)
		if !isParam || !types.IsInterface(pr.Type()) {
			return
		}
		for i, q := range g.Params {
			if q == pr {
				out = append(out, i)
			}
		}
	})
	p.wparams[g] = out
	return out
}

// osFileOperand: v is an interface made from an *os.File
func osFileOperand(v ssa.Value) ssa.Value {
	if v == nil {
		return nil
	}
	if mi, ok := v.(*ssa.MakeInterface); ok {
		if isOsFile(mi.X.Type()) {
			return mi.X
		}
	}
	if isOsFile(v.Type()) {
		return v
	}
	return nil
}

func isOsFile(t types.Type) bool {
	pt, ok := t.Underlying().(*types.Pointer)
	if !ok {
		return false
	}
	n, ok := types.Unalias(pt.Elem()).(*types.Named)
	return ok && n.Obj().Pkg() != nil && n.Obj().Pkg().Path() == "os" && n.Obj().Name() == "File"
}

// ---- provenance of path strings ----

// stringConsts collects the string constants a value is built from (backward slice through concatenation,
// Sprintf/Join, module function results, phis, fields and parameters).
func (p *Prog) stringConsts(v ssa.Value, depth int, seen map[ssa.Value]bool, out *[]string) {
	if v == nil || depth > 12 || seen[v] {
		return
	}
	seen[v] = true
	switch x := v.(type) {
	case *ssa.Const:
		if x.Value != nil && x.Value.Kind() == constant.String {
			*out = append(*out, constant.StringVal(x.Value))
		}
	case *ssa.BinOp:
		if x.Op == token.ADD {
			p.stringConsts(x.X, depth+1, seen, out)
			// mark the right operand of a concatenation: a constant suffix
			if c, ok := x.Y.(*ssa.Const); ok && c.Value != nil && c.Value.Kind() == constant.String {
				*out = append(*out, "+suffix:"+constant.StringVal(c.Value))
			} else {
				p.stringConsts(x.Y, depth+1, seen, out)
			}
		}
	case *ssa.Phi:
		for _, e := range x.Edges {
			p.stringConsts(e, depth+1, seen, out)
		}
	case *ssa.MakeInterface:
		p.stringConsts(x.X, depth+1, seen, out)
	case *ssa.ChangeType:
		p.stringConsts(x.X, depth+1, seen, out)
	case *ssa.Convert:
		p.stringConsts(x.X, depth+1, seen, out)
	case *ssa.Slice:
		p.stringConsts(x.X, depth+1, seen, out)
	case *ssa.Alloc:
		p.sliceElemConsts(x, depth+1, seen, out)
		for _, ref := range *x.Referrers() {
			if st, ok := ref.(*ssa.Store); ok && st.Addr == x {
				p.stringConsts(st.Val, depth+1, seen, out)
			}
		}
	case *ssa.Extract:
		p.stringConsts(x.Tuple, depth+1, seen, out)
	case *ssa.Call:
		cs := p.Callees(x)
		if len(cs) > 0 {
			for _, g := range cs {
				for _, b := range g.Blocks {
					for _, ins := range b.Instrs {
						if ret, ok := ins.(*ssa.Return); ok {
							for _, rv := range ret.Results {
								if types.Identical(rv.Type().Underlying(), types.Typ[types.String]) {
									p.stringConsts(rv, depth+1, seen, out)
								}
							}
						}
					}
				}
			}
			return
		}
		// std: Sprintf, Join, filepath.Join, strings functions: all arguments
		for _, a := range x.Call.Args {
			p.stringConsts(a, depth+1, seen, out)
		}
	case *ssa.UnOp:
		if x.Op == token.MUL {
			if fv, _ := fieldOfAddr(x.X); fv != nil {
				p.fieldStringConsts(fv, depth+1, seen, out)
				return
			}
			if ia, ok := x.X.(*ssa.IndexAddr); ok {
				// element of a variadic/slice argument: look at the stores into the backing array
				p.sliceElemConsts(ia.X, depth+1, seen, out)
				return
			}
			if al, ok := x.X.(*ssa.Alloc); ok {
				for _, ref := range *al.Referrers() {
					if st, ok := ref.(*ssa.Store); ok && st.Addr == al {
						p.stringConsts(st.Val, depth+1, seen, out)
					}
				}
			}
		}
	case *ssa.Field:
		st := x.X.Type().Underlying().(*types.Struct)
		p.fieldStringConsts(st.Field(x.Field), depth+1, seen, out)
	case *ssa.Parameter:
		f := x.Parent()
		idx := -1
		for i, pr := range f.Params {
			if pr == x {
				idx = i
			}
		}
		for _, site := range p.CallersOf(f) {
			args := site.Common().Args
			if idx >= 0 && idx < len(args) {
				p.stringConsts(args[idx], depth+1, seen, out)
			}
		}
	}
}

func (p *Prog) sliceElemConsts(sl ssa.Value, depth int, seen map[ssa.Value]bool, out *[]string) {
	switch x := sl.(type) {
	case *ssa.Slice:
		p.sliceElemConsts(x.X, depth, seen, out)
	case *ssa.Alloc:
		for _, ref := range *x.Referrers() {
			if ia, ok := ref.(*ssa.IndexAddr); ok {
				for _, r2 := range *ia.Referrers() {
					if st, ok := r2.(*ssa.Store); ok {
						p.stringConsts(st.Val, depth+1, seen, out)
					}
				}
			}
		}
	}
}

func (p *Prog) fieldStringConsts(fv *types.Var, depth int, seen map[ssa.Value]bool, out *[]string) {
	for _, f := range p.Funcs {
		for _, b := range f.Blocks {
			for _, ins := range b.Instrs {
				if st, ok := ins.(*ssa.Store); ok {
					if sv, _ := fieldOfAddr(st.Addr); sv == fv {
						p.stringConsts(st.Val, depth+1, seen, out)
					}
				}
			}
		}
	}
}

func classifyConsts(cs []string) string {
	hasDB, hasLog, hasTmp := false, false, false
	for _, c := range cs {
		if strings.HasPrefix(c, "+suffix:") {
			s := strings.TrimPrefix(c, "+suffix:")
			if s != "" && !strings.HasSuffix(s, ".db") && !strings.HasSuffix(s, ".log") {
				hasTmp = true
			}
			c = s
		}
		if strings.HasSuffix(c, ".db") {
			hasDB = true
		}
		if strings.HasSuffix(c, ".log") {
			hasLog = true
		}
	}
	switch {
	case hasDB && hasTmp:
		return "table-tmp"
	case hasDB:
		return "table"
	case hasLog:
		return "wal"
	}
	return "unknown"
}

func (p *Prog) pathClass(v ssa.Value) string {
	if v == nil {
		return "unknown"
	}
	if c, ok := p.pathClassMemo[v]; ok {
		return c
	}
	var cs []string
	p.stringConsts(v, 0, map[ssa.Value]bool{}, &cs)
	c := classifyConsts(cs)
	p.pathClassMemo[v] = c
	return c
}

// fileClass: class of an *os.File value by the open call (or field) it comes from.
func (p *Prog) fileClass(v ssa.Value) string {
	return p.fileClassD(v, 0, map[ssa.Value]bool{})
}

func (p *Prog) fileClassD(v ssa.Value, depth int, seen map[ssa.Value]bool) string {
	if v == nil || depth > 6 || seen[v] {
		return "unknown"
	}
	seen[v] = true
	switch x := v.(type) {
	case *ssa.Extract:
		return p.fileClassD(x.Tuple, depth+1, seen)
	case *ssa.Call:
		if fe := p.FileEffectOf(x); fe != nil && (fe.Kind == "create" || fe.Kind == "open") {
			return fe.Class
		}
		for _, g := range p.Callees(x) {
			for _, b := range g.Blocks {
				for _, ins := range b.Instrs {
					if ret, ok := ins.(*ssa.Return); ok {
						for _, rv := range ret.Results {
							if isOsFile(rv.Type()) {
								if c := p.fileClassD(rv, depth+1, seen); c != "unknown" {
									return c
								}
							}
						}
					}
				}
			}
		}
	case *ssa.Phi:
		for _, e := range x.Edges {
			if c := p.fileClassD(e, depth+1, seen); c != "unknown" {
				return c
			}
		}
	case *ssa.UnOp:
		if x.Op == token.MUL {
			if fv, _ := fieldOfAddr(x.X); fv != nil {
				// all stores to the field
				for _, f := range p.Funcs {
					for _, b := range f.Blocks {
						for _, ins := range b.Instrs {
							if st, ok := ins.(*ssa.Store); ok {
								if sv, _ := fieldOfAddr(st.Addr); sv == fv {
									if c := p.fileClassD(st.Val, depth+1, seen); c != "unknown" {
										return c
									}
								}
							}
						}
					}
				}
			}
			if al, ok := x.X.(*ssa.Alloc); ok {
				for _, ref := range *al.Referrers() {
					if st, ok := ref.(*ssa.Store); ok && st.Addr == al {
						if c := p.fileClassD(st.Val, depth+1, seen); c != "unknown" {
							return c
						}
					}
				}
			}
		}
	case *ssa.Parameter:
		f := x.Parent()
		idx := -1
		for i, pr := range f.Params {
			if pr == x {
				idx = i
			}
		}
		for _, site := range p.CallersOf(f) {
			args := site.Common().Args
			if idx >= 0 && idx < len(args) {
				if c := p.fileClassD(args[idx], depth+1, seen); c != "unknown" {
					return c
				}
			}
		}
	}
	return "unknown"
}
