package main

// C15: necessary conditions for "every call returns": lock order, blocking under locks, pairing.

import (
	"fmt"
	"go/types"
	"sort"
	"strings"

	"golang.org/x/tools/go/ssa"
)

func init() {
	register(&Rule{ID: "LIVE.ORDER", Engine: "E-ORDER", Min: 6,
		Desc: "the lock-order graph (edge A→B when B is acquired while A may be held) is acyclic and no lock class is re-acquired while held",
		Run:  runLiveOrder})
	register(&Rule{ID: "LIVE.WAIT", Engine: "E-ORDER", Min: 8,
		Desc: "a goroutine that blocks on a channel (or waits for a watermark) holds no lock that the goroutine it waits for needs before it can perform the matching operation",
		Run:  runLiveWait})
	register(&Rule{ID: "LIVE.BALANCE", Engine: "E-LOCK", Min: 20,
		Desc: "every function releases on every path exactly the locks it acquired (no lock leaks out of, or is released below, a function)",
		Run:  runLiveBalance})
	register(&Rule{ID: "LIVE.PAIR", Engine: "E-PATH", Min: 6,
		Desc: "pairing on all paths: commitMark.Begin is followed by Done; every exit of the flusher closes DB.closed; Close signals and then waits for the flusher; Open finishes both watermarks at the recovered timestamp",
		Run:  runLivePair})
}

type lockEdge struct{ from, to string }

func runLiveOrder(c *Ctx, r *RuleRun) {
	la := c.Locks()
	p := c.P
	edges := map[lockEdge]ssa.Instruction{}
	adj := map[string][]string{}
	for _, op := range la.Ops {
		if op.Unlock || !la.Reached[op.Fn] {
			continue
		}
		held := la.May[op.Ins]
		for h, m := range held {
			e := lockEdge{h, op.Lock}
			if h == op.Lock {
				// re-acquisition: two read locks are also unsafe (a writer waiting in between blocks the second RLock)
				_ = m
			}
			if _, ok := edges[e]; !ok {
				edges[e] = op.Ins
				adj[h] = append(adj[h], op.Lock)
			}
		}
	}
	// reachability for cycle detection
	reach := func(from, to string) bool {
		seen := map[string]bool{}
		stack := []string{from}
		for len(stack) > 0 {
			x := stack[len(stack)-1]
			stack = stack[:len(stack)-1]
			if seen[x] {
				continue
			}
			seen[x] = true
			for _, y := range adj[x] {
				if y == to {
					return true
				}
				stack = append(stack, y)
			}
		}
		return false
	}
	var keys []lockEdge
	for e := range edges {
		keys = append(keys, e)
	}
	sort.Slice(keys, func(i, j int) bool {
		if keys[i].from != keys[j].from {
			return keys[i].from < keys[j].from
		}
		return keys[i].to < keys[j].to
	})
	for _, e := range keys {
		ins := edges[e]
		fn, pos := p.FnName(ins.Parent()), p.Pos(instrPos(ins))
		construct := e.from + "→" + e.to
		switch {
		case e.from == e.to:
			r.Viol("lock-order", construct, pos, fmt.Sprintf("%s is acquired in %s while it may already be held (held: %v): self-deadlock", e.to, fn, la.May[ins]))
		case reach(e.to, e.from):
			other := edges[lockEdge{e.to, e.from}]
			detail := fmt.Sprintf("%s is acquired in %s while %s is held, and elsewhere %s is (transitively) acquired while %s is held: lock-order cycle", e.to, fn, e.from, e.from, e.to)
			if other != nil {
				detail += fmt.Sprintf(" (reverse acquisition in %s at %s)", p.FnName(other.Parent()), p.Pos(instrPos(other)))
			}
			r.Viol("lock-order", construct, pos, detail)
		default:
			r.Hold("lock-order", construct, pos, "acquired in "+fn+"; no path back in the lock-order graph")
		}
	}
}

// chanOps: for every channel class, the functions that send, receive and close it.
type chanUse struct {
	senders, receivers, closers []*ssa.Function
}

func (c *Ctx) chanUses() map[string]*chanUse {
	if v, ok := c.memo["chanuses"]; ok {
		return v.(map[string]*chanUse)
	}
	p := c.P
	la := c.Locks()
	out := map[string]*chanUse{}
	get := func(k string) *chanUse {
		if out[k] == nil {
			out[k] = &chanUse{}
		}
		return out[k]
	}
	for _, b := range la.BlockingOps() {
		switch b.Kind {
		case "send":
			get(b.Chan).senders = append(get(b.Chan).senders, b.Fn)
		case "recv":
			get(b.Chan).receivers = append(get(b.Chan).receivers, b.Fn)
		case "select":
			for i, ch := range b.Chans {
				if b.Dirs[i] == types.SendOnly {
					get(ch).senders = append(get(ch).senders, b.Fn)
				} else {
					get(ch).receivers = append(get(ch).receivers, b.Fn)
				}
			}
		}
	}
	// non-blocking selects and close()
	for _, f := range p.Funcs {
		for _, bb := range f.Blocks {
			for _, ins := range bb.Instrs {
				switch x := ins.(type) {
				case *ssa.Select:
					if x.Blocking {
						continue
					}
					for _, st := range x.States {
						k := p.chanClass(st.Chan)
						if st.Dir == types.SendOnly {
							get(k).senders = append(get(k).senders, f)
						} else {
							get(k).receivers = append(get(k).receivers, f)
						}
					}
				case *ssa.Call:
					if bi, ok := x.Call.Value.(*ssa.Builtin); ok && bi.Name() == "close" {
						k := p.chanClass(x.Call.Args[0])
						get(k).closers = append(get(k).closers, f)
					}
				}
			}
		}
	}
	c.memo["chanuses"] = out
	return out
}

// neededByRole: locks a goroutine of this role may have to acquire before it reaches any of its channel operations,
// including (transitively) the locks needed by the goroutines it blocks on itself.
func (c *Ctx) neededByRole(role string, visiting map[string]bool) map[string]bool {
	la := c.Locks()
	out := map[string]bool{}
	if visiting[role] {
		return out
	}
	visiting[role] = true
	defer delete(visiting, role)
	fns := la.roleReach(la.RoleRoots[role])
	for l := range la.LocksAcquiredIn(fns) {
		out[l] = true
	}
	uses := c.chanUses()
	for _, b := range la.BlockingOps() {
		if !fns[b.Fn] {
			continue
		}
		// the idle receive of a goroutine's main loop (no locks held) waits for work, not for progress of others
		if (b.Kind == "select" || b.Kind == "recv") && len(la.May[b.Ins]) == 0 && isRoleRoot(la, b.Fn) {
			continue
		}
		for _, r2 := range c.counterpartRoles(b, uses) {
			if r2 == role {
				continue
			}
			for l := range c.neededByRole(r2, visiting) {
				out[l] = true
			}
		}
	}
	return out
}

func isRoleRoot(la *LockAnalysis, f *ssa.Function) bool {
	for role, roots := range la.RoleRoots {
		if role == "U" || role == "I" || role == "C" {
			continue
		}
		for _, r := range roots {
			if r == f {
				return true
			}
			// a thin wrapper started as the goroutine (go func() { defer wg.Done(); w.process() }()): it has no loop of
			// its own and calls f directly
			thin, calls := true, false
			for _, b := range r.Blocks {
				if inLoop(b) {
					thin = false
				}
				for _, ins := range b.Instrs {
					if cl, ok := ins.(*ssa.Call); ok && cl.Call.StaticCallee() == f {
						calls = true
					}
				}
			}
			if thin && calls {
				return true
			}
		}
	}
	return false
}

func (c *Ctx) counterpartRoles(b BlockingOp, uses map[string]*chanUse) []string {
	la := c.Locks()
	set := map[string]bool{}
	addFns := func(fs []*ssa.Function) {
		for _, f := range fs {
			for r := range la.Roles[f] {
				set[r] = true
			}
		}
	}
	one := func(ch string, sendDir bool) {
		u := uses[ch]
		if u == nil {
			return
		}
		if sendDir {
			addFns(u.receivers)
		} else {
			addFns(u.senders)
			addFns(u.closers)
		}
	}
	switch b.Kind {
	case "send":
		one(b.Chan, true)
	case "recv":
		one(b.Chan, false)
	case "select":
		for i, ch := range b.Chans {
			one(ch, b.Dirs[i] == types.SendOnly)
		}
	}
	var out []string
	for r := range set {
		out = append(out, r)
	}
	sort.Strings(out)
	return out
}

// markCalls: calls of method `name` of the watermark type whose receiver is loaded from field mark.
func markCalls(p *Prog, mark *types.Var, name string) InstrPred {
	return func(ins ssa.Instruction) bool {
		ci, ok := ins.(ssa.CallInstruction)
		if !ok {
			return false
		}
		cc := ci.Common()
		f := cc.StaticCallee()
		if f == nil || f.Name() != name || f.Signature.Recv() == nil || len(cc.Args) == 0 {
			return false
		}
		if n := p.isModuleNamed(f.Signature.Recv().Type()); n == nil || n.Obj().Name() != "WaterMark" {
			return false
		}
		fv, _ := loadedField(cc.Args[0])
		return fv == mark
	}
}

// markRegion: the function and the two call sites between which work begun on `mark` is in flight.
func markRegion(p *Prog, mark *types.Var) (g *ssa.Function, s1 *ssa.Call, s2 ssa.CallInstruction) {
	begin, done := markCalls(p, mark, "Begin"), markCalls(p, mark, "Done")
	for _, f := range p.Funcs {
		var b1 *ssa.Call
		var d1 ssa.CallInstruction
		for _, b := range f.Blocks {
			for _, ins := range b.Instrs {
				call, ok := ins.(ssa.CallInstruction)
				if !ok {
					continue
				}
				if _, isGo := ins.(*ssa.Go); isGo {
					continue
				}
				rb := begin(ins) || p.SiteMayReach(call, begin)
				rd := done(ins) || p.SiteMayReach(call, done)
				if c2, isCall := ins.(*ssa.Call); isCall && rb && !rd && b1 == nil {
					b1 = c2
				}
				if rd && !rb {
					d1 = call
				}
			}
		}
		if b1 != nil && d1 != nil && dominatesInstr(b1, d1) {
			return f, b1, d1
		}
	}
	return nil, nil, nil
}

func runLiveWait(c *Ctx, r *RuleRun) {
	la := c.Locks()
	p := c.P
	uses := c.chanUses()
	fmtSet := func(m map[string]bool) string {
		var ks []string
		for k := range m {
			ks = append(ks, k)
		}
		sort.Strings(ks)
		return "{" + strings.Join(ks, ", ") + "}"
	}
	for _, b := range la.BlockingOps() {
		if !la.Reached[b.Fn] {
			continue
		}
		fn, pos := p.FnName(b.Fn), p.Pos(instrPos(b.Ins))
		construct := b.Kind + " " + b.Chan
		held := la.May[b.Ins]
		if b.Kind == "wait" {
			r.Check(len(held) == 0, fn, construct, pos, "no lock held", fmt.Sprintf("waits while holding %v", held))
			continue
		}
		roles := c.counterpartRoles(b, uses)
		if len(roles) == 0 && !strings.Contains(b.Chan, "context") {
			r.Viol(fn, construct, pos, "no goroutine performs the matching channel operation: this blocks forever")
			continue
		}
		bad := ""
		needAll := map[string]bool{}
		for _, role := range roles {
			need := c.neededByRole(role, map[string]bool{})
			for l := range need {
				needAll[l] = true
				if _, h := held[l]; h && bad == "" {
					bad = fmt.Sprintf("blocks holding %s, which the goroutine it waits for (role %s) may need before it reaches the matching operation (it may acquire %s)", l, role, fmtSet(need))
				}
			}
		}
		if bad != "" {
			r.Viol(fn, construct, pos, bad+fmt.Sprintf("; held here: %v", held))
		} else {
			r.Hold(fn, construct, pos, fmt.Sprintf("held %v; counterpart roles %v need %s", held, roles, fmtSet(needAll)))
		}
	}
	// semantic waits: WaitForMark(mark) waits for everything begun on that mark to be finished
	for _, markName := range []string{"commitMark", "readMark"} {
		mark := p.Field("", "oracle", markName)
		if mark == nil {
			continue
		}
		wait := markCalls(p, mark, "WaitForMark")
		var need map[string]bool
		var regionDesc string
		for _, f := range p.Funcs {
			for _, bb := range f.Blocks {
				for _, ins := range bb.Instrs {
					if !wait(ins) {
						continue
					}
					if need == nil {
						g, s1, s2 := markRegion(p, mark)
						if g == nil {
							r.Undecided(p.FnName(f), "WaitForMark "+markName, p.Pos(instrPos(ins)), "cannot locate the Begin…Done region of "+markName)
							continue
						}
						need = map[string]bool{}
						regionDesc = fmt.Sprintf("%s between %s and %s", p.FnName(g), p.Pos(instrPos(s1)), p.Pos(instrPos(s2)))
						fns := map[*ssa.Function]bool{}
						for _, b2 := range g.Blocks {
							for _, i2 := range b2.Instrs {
								call, ok := i2.(*ssa.Call)
								_, s2Deferred := s2.(*ssa.Defer)
								if !ok || call == s1 || ssa.Instruction(call) == ssa.Instruction(s2) || !dominatesInstr(s1, call) || (!s2Deferred && dominatesInstr(s2, call)) {
									continue
								}
								for h := range la.roleReach(p.Callees(call)) {
									fns[h] = true
								}
							}
						}
						for l := range la.LocksAcquiredIn(fns) {
							need[l] = true
						}
						for _, b := range la.BlockingOps() {
							if fns[b.Fn] {
								for _, role := range c.counterpartRoles(b, uses) {
									for l := range c.neededByRole(role, map[string]bool{}) {
										need[l] = true
									}
								}
							}
						}
					}
					held := la.May[ins]
					bad := ""
					for l := range need {
						if _, h := held[l]; h {
							bad = l
						}
					}
					r.Check(bad == "", p.FnName(f), "WaitForMark "+markName, p.Pos(instrPos(ins)),
						fmt.Sprintf("held %v; the work waited for (%s) needs %s", held, regionDesc, fmtSet(need)),
						fmt.Sprintf("waits for in-flight work on %s while holding %s, which that work (%s) needs to finish: deadlock", markName, bad, regionDesc))
				}
			}
		}
	}
}

func runLiveBalance(c *Ctx, r *RuleRun) {
	la := c.Locks()
	p := c.P
	seen := map[*ssa.Function]bool{}
	for _, op := range la.Ops {
		f := op.Fn
		if seen[f] {
			continue
		}
		seen[f] = true
		if strings.HasSuffix(p.Fset.Position(f.Pos()).Filename, "_test.go") {
			continue
		}
		mu, ma := la.summary(f, true), la.summary(f, false)
		ok := true
		detail := ""
		for k, v := range ma {
			if v != 0 {
				ok = false
				if v > 0 {
					detail = fmt.Sprintf("%s may still be held when %s returns: the next acquirer blocks forever", k, p.FnName(f))
				} else {
					detail = fmt.Sprintf("%s may be released by %s without having been acquired there", k, p.FnName(f))
				}
			}
		}
		for k, v := range mu {
			if v != 0 && ok {
				ok = false
				detail = fmt.Sprintf("%s is not balanced in %s", k, p.FnName(f))
			}
		}
		r.Check(ok, p.FnName(f), "lock-balance", p.Pos(f.Pos()), "every path releases what it acquired", detail)
	}
}

func runLivePair(c *Ctx, r *RuleRun) {
	p := c.P
	la := c.Locks()
	// (1) commitMark Begin … Done
	if mark := p.Field("", "oracle", "commitMark"); mark != nil {
		g, s1, s2 := markRegion(p, mark)
		if g == nil {
			r.Undecided("-", "commitMark Begin/Done", "", "cannot locate the function that begins and finishes work on commitMark")
		} else {
			done := NewMustDo(p, markCalls(p, mark, "Done"))
			// the branch on which the callee reports that it did not begin (a bool result of s1 that is true) is excluded
			edgeOK := func(b *ssa.BasicBlock, i int) bool {
				iff, ok := b.Instrs[len(b.Instrs)-1].(*ssa.If)
				if !ok {
					return true
				}
				if ex, ok := iff.Cond.(*ssa.Extract); ok && ex.Tuple == ssa.Value(s1) && i == 0 {
					return false
				}
				return true
			}
			// a refusal reported in another shape (a struct field, an error) cannot be told from an acceptance here
			unreadable := false
			eachInstr(g, func(ins ssa.Instruction) {
				iff, ok := ins.(*ssa.If)
				if !ok {
					return
				}
				if ex, ok := iff.Cond.(*ssa.Extract); ok && ex.Tuple == ssa.Value(s1) {
					return
				}
				// the part of the answer that can say "refused": the answer itself, or - for an answer of several results -
				// every result but the timestamp (a test that depends on the timestamp only, e.g. on the entries stamped
				// with it, is not a test of the refusal)
				isAnswer := func(x ssa.Value) bool {
					if tup, isTuple := s1.Type().(*types.Tuple); isTuple && tup.Len() > 1 {
						ex, isEx := x.(*ssa.Extract)
						if !isEx || ex.Tuple != ssa.Value(s1) {
							return false
						}
						bt, isBasic := tup.At(ex.Index).Type().Underlying().(*types.Basic)
						return !(isBasic && bt.Info()&types.IsInteger != 0)
					}
					return x == ssa.Value(s1)
				}
				if derivesFrom(iff.Cond, isAnswer) || p.dependsOn(iff.Cond, isAnswer) {
					unreadable = true
				}
			})
			q := PathQuery{P: p, Fn: g, Starts: []ssa.Instruction{s1}, Avoid: done.Instr, Target: isReturn, EdgeOK: edgeOK}
			if unreadable {
				r.Undecided(p.FnName(g), "commitMark Begin→Done", p.Pos(instrPos(s1)), "the caller branches on the oracle's answer in a form this rule cannot read (not a boolean result): which branch is the refusal is unknown")
			} else if w := q.FindPath(); w != nil {
				r.Viol(p.FnName(g), "commitMark Begin→Done", p.Pos(instrPos(s1)), "a commit timestamp begun on commitMark is not finished on this path: every later Begin() of a transaction waits forever", p.describePath(w)...)
			} else {
				r.Hold(p.FnName(g), "commitMark Begin→Done", p.Pos(instrPos(s1)), "every non-panicking path from the timestamp allocation to a return passes "+p.Pos(instrPos(s2)))
			}
		}
	}
	// (2) flusher exits close DB.closed; (3) Close: send closeC, then receive closed
	closedF := p.Field("", "DB", "closed")
	closeCF := p.Field("", "DB", "closeC")
	isCloseOf := func(fv *types.Var) InstrPred {
		return func(ins ssa.Instruction) bool {
			call, ok := ins.(*ssa.Call)
			if !ok {
				return false
			}
			bi, ok := call.Call.Value.(*ssa.Builtin)
			if !ok || bi.Name() != "close" {
				return false
			}
			f, _ := loadedField(call.Call.Args[0])
			return f == fv
		}
	}
	recvOf := func(fv *types.Var) InstrPred {
		return func(ins ssa.Instruction) bool {
			u, ok := ins.(*ssa.UnOp)
			if !ok || u.Op.String() != "<-" {
				return false
			}
			f, _ := loadedField(u.X)
			return f == fv
		}
	}
	sendOf := func(fv *types.Var) InstrPred {
		return func(ins ssa.Instruction) bool {
			s, ok := ins.(*ssa.Send)
			if !ok {
				return false
			}
			f, _ := loadedField(s.Chan)
			return f == fv
		}
	}
	if closedF == nil || closeCF == nil {
		r.Undecided("-", "DB.closed", "", "anchor fields DB.closed / DB.closeC not found")
	} else {
		for _, f := range la.RoleRoots["F"] {
			cl := NewMustDo(p, isCloseOf(closedF))
			q := PathQuery{P: p, Fn: f, Avoid: cl.Instr, Target: isReturn}
			if w := q.FindPath(); w != nil {
				r.Viol(p.FnName(f), "flusher exit closes DB.closed", p.Pos(f.Pos()), "the flusher can return without closing DB.closed: Close() waits forever", p.describePath(w)...)
			} else {
				r.Hold(p.FnName(f), "flusher exit closes DB.closed", p.Pos(f.Pos()), "every return of the flusher is preceded by close(db.closed)")
			}
			// the loop can always be left: some path from the receive of closeC reaches a return
		}
		if len(la.RoleRoots["F"]) == 0 {
			r.Undecided("-", "flusher", "", "no goroutine is started in Open")
		}
		if cf := p.Fn("", "DB", "Close"); cf != nil {
			rv := NewMustDo(p, recvOf(closedF))
			q := PathQuery{P: p, Fn: cf, Avoid: rv.Instr, Target: isReturn}
			if w := q.FindPath(); w != nil {
				r.Viol(p.FnName(cf), "Close waits for the flusher", p.Pos(cf.Pos()), "Close can return without having received from DB.closed: the flusher may still be running when the directory is reopened", p.describePath(w)...)
			} else {
				r.Hold(p.FnName(cf), "Close waits for the flusher", p.Pos(cf.Pos()), "every return is preceded by <-db.closed")
			}
			sd := NewMustDo(p, sendOf(closeCF))
			q2 := PathQuery{P: p, Fn: cf, Avoid: sd.Instr, Target: recvOf(closedF)}
			if w := q2.FindPath(); w != nil {
				r.Viol(p.FnName(cf), "Close signals before it waits", p.Pos(cf.Pos()), "Close can wait for DB.closed without having told the flusher to stop: it waits forever", p.describePath(w)...)
			} else {
				r.Hold(p.FnName(cf), "Close signals before it waits", p.Pos(cf.Pos()), "the send on db.closeC precedes the receive from db.closed on every path")
			}
		} else {
			r.Undecided("-", "DB.Close", "", "anchor (*DB).Close not found")
		}
	}
	// (4) Open finishes both marks
	if open := p.Fn("", "", "Open"); open != nil {
		for _, mn := range []string{"readMark", "commitMark"} {
			mark := p.Field("", "oracle", mn)
			if mark == nil {
				r.Undecided("Open", "Done("+mn+")", "", "anchor oracle."+mn+" not found")
				continue
			}
			md := NewMustDo(p, markCalls(p, mark, "Done"))
			q := PathQuery{P: p, Fn: open, Avoid: md.Instr, Target: isSuccessReturn, SuccessOnly: true}
			if w := q.FindPath(); w != nil {
				r.Viol(p.FnName(open), "Done("+mn+")", p.Pos(open.Pos()), "Open can return a DB whose "+mn+" was not advanced to the recovered timestamp: the first Begin() waits forever for commitMark / cleanup never advances", p.describePath(w)...)
			} else {
				r.Hold(p.FnName(open), "Done("+mn+")", p.Pos(open.Pos()), "every success return of Open is preceded by "+mn+".Done")
			}
		}
	} else {
		r.Undecided("-", "Open", "", "anchor Open not found")
	}
}
