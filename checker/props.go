package main

var properties []*Property

func propertyByID(id string) *Property {
	for _, p := range properties {
		if p.ID == id {
			return p
		}
	}
	return nil
}
