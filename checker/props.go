package main

// The claimed properties and the rules that decide their structural necessary conditions.

var commonAssumptions = []string{
	"Static analysis of /repo's current source (go/types + go/ssa); nothing is executed. A held verdict means: every obligation of the listed rules holds on every path / for every interleaving permitted by the role model; it does not establish the behavioural property as a whole (see coverage.explanation).",
	"Role model (DESIGN.md §2.1): U = any number of user goroutines entering through the exported API of package originium except Open/Close; C = DB.Close, not concurrent with U (API contract); F = the goroutine started by Open; W = the goroutine started by watermark.New; I = code reachable only from Open. Each Txn is used by one goroutine (C12's statement), so Txn fields are thread-confined.",
	"Callees are resolved through go/types objects; interface calls by class hierarchy over the module's types; logger.Logger.Panicf does not return (checked for FLogger, assumed for user-installed loggers).",
	"Lock identity is the struct field holding the mutex (instances of one type are not distinguished); no go/pointer analysis is available offline: containers are identified by the field they are loaded from.",
	"Std effect tables (checker/effects.go, race.go): os.OpenFile/Create/Remove/Rename, (*os.File).Write/Sync/Close, binary.Write/io.Copy to an *os.File, container/list mutators, hash.Hash Write/Reset; third-party codecs (s2, frugal/thrift, murmur3) are trusted.",
}

var properties []*Property

func init() {
	properties = []*Property{
		{ID: "C01", Rules: []string{"READ.ORDER", "READ.PUBLISH", "READ.FLUSHER", "READ.HIT", "READ.ENTRY", "CMP.ORDER", "CMP.TOMB", "CMP.SIB", "KWAY.ORDER"},
			Explanation: "Decided: the newest-first skeleton of the read path without which no input can be answered correctly - age-ordered lists are appended at one end and looked up from that end, the flusher removes exactly the memtable it flushed, memtable rotation publishes the frozen memtable atomically with its successor and before the flusher sees it, L0 tables are written in rotation order (one flusher; Close flushes only after it stopped), a hit requires the same user key and goes through types.Value (tombstone = not found), a table without a visible version does not end the search, entry copies keep all four fields, compactions keep tombstones, feed the merge older-first, unlink and delete exactly what they merged, keys are ordered only by CompareKeys. NOT decided: the values returned; the arithmetic of Index.SearchLowerBound / Data.LowerBound (C10); which tables a compaction selects (overlap in user-key space); that this holds 'for every configuration'.",
			Assumptions: commonAssumptions},
		{ID: "C02", Rules: []string{"CLOSE.ORDER", "ORACLE.RESTART", "LEXNUM.SORT", "LEXNUM.WAL", "READ.FLUSHER", "LIVE.PAIR"},
			Explanation: "Decided: Close settles the active memtable on every path (frozen, then flushed to a durable table or - empty - its wal removed), after the flusher has stopped, and publishes the closed state last; Open restarts the oracle strictly above max(version from wals, version from tables) with both recoveries taking the maximum over every entry, and finishes both watermarks there; nothing numeric is ordered as text (table file names at recovery, wal versions). NOT decided: that recovery parses the files correctly; equality of every key before and after.",
			Assumptions: commonAssumptions},
		{ID: "C03", Rules: []string{"DUR.ACK", "DUR.APPEND", "DUR.SYNCERR", "DUR.REMOVE", "DUR.PUBLISH", "DUR.SIB", "LEXNUM.WAL"},
			Explanation: "Decided, for every point between two file-system operations (an all-paths ordering covers exactly that set): a commit is acknowledged only after its wal append was fsynced with the error checked; every file removal is justified on all paths (wal after the replacing table was fsynced and renamed into place, or after each of its entries was re-logged durably, or under the guard 'memtable empty'; compaction inputs only after the output table is durable and published); tables never appear half-made under the name recovery scans (tmp, write, fsync, rename); every table image goes through that writer; a wal created later always compares newer. NOT decided: that recovery rebuilds the right contents; 'no value that was never written is visible'; idempotence of replay across repeated crashes (argued in DESIGN.md, not checked).",
			Assumptions: commonAssumptions},
		{ID: "C04", Rules: []string{"ATOMIC.APPEND", "DUR.ACK"},
			Explanation: "Decided (process-crash model of C03/C04: a crash falls between file-system operations): the write set of a transaction reaches the wal through one chain of call sites none of which is in a loop - one append, one fsync, one wal file - after which the memtable may rotate; so a crash leaves the transaction in the log entirely or not at all. NOT decided: torn batches under C14's stronger model (a batch frame would be needed); designs with begin/end records would make this rule UNDECIDED and need an extension.",
			Assumptions: commonAssumptions},
		{ID: "C05", Rules: []string{"SNAP.TS", "SNAP.BEGIN", "SNAP.COMMIT", "SNAP.GC", "SNAP.DONE"},
			Explanation: "Decided: the read timestamp is assigned once at Begin from the oracle and every store lookup uses exactly key@readTs; oracle.readTs reads nextTs, registers nextTs-1 with readMark in one oracle.Mutex region and waits for commitMark on that value before returning it; newCommitTs allocates, increments, begins on commitMark and records in one region on one timestamp, Commit stamps every entry with it and finishes commitMark only after the append; version GC takes its threshold from readMark, deduplicates only at or below it and keeps the newest one there; View/Update defer Discard and the done-flags make readMark.Done exactly-once. NOT decided: that the per-key 'newest at or below the watermark' survives merges as a whole (C09), histories.",
			Assumptions: commonAssumptions},
		{ID: "C06", Rules: []string{"SER.SECTION", "SER.TS", "SNAP.BEGIN", "SNAP.COMMIT", "CONF.READFP", "CONF.WRITEFP", "CONF.ORDER", "CONF.WINDOW"},
			Explanation: "Serializability is a property of histories and is declined as a whole. Decided: the skeleton of the Badger-style protocol, each item necessary - validation, apply and doneCommit form one oracle.writeLock section in timestamp order; timestamps are only ever nextTs+1 under oracle.Mutex; snapshot and commit registration as in C05; reads of update transactions are fingerprinted before the store is read, writes fingerprinted with the same hash, the conflict window is ct.ts > readTs. NOT decided: fingerprint collisions, the serial order itself.",
			Assumptions: commonAssumptions},
		{ID: "C07", Rules: []string{"CONF.READFP", "CONF.WRITEFP", "CONF.ORDER", "CONF.REFUSED", "CONF.WINDOW"},
			Explanation: "Decided: Get records Hash(user key) before every store read of an update transaction and nothing on a buffer hit (under-/over-abort); modify records the write fingerprint and the buffered entry under the same user key on every success path; newCommitTs checks, then finishes the read mark, then cleans up, then allocates, and a refusal is effect-free while an acceptance always begins on commitMark; Commit applies only on the no-conflict branch and an empty write set never reaches validation; the comparison window is exactly ct.ts > readTs and cleanup keeps everything above readMark.DoneUntil (these two restate a comparison: spec-shaped, canonicalised). NOT decided: exactness over histories (collisions, interleavings).",
			Assumptions: commonAssumptions},
		{ID: "C08", Rules: []string{"TRACE.CONFINE", "TRACE.UPDATE", "TRACE.MISUSE", "CONF.REFUSED"},
			Explanation: "Decided: nothing reachable from Txn.Set/Delete/SetEntry/Get/Discard stores to shared engine state or performs a mutating file effect (only the private buffer and the read-mark message), and every way from the API to a wal append passes through Txn.Commit; Update commits only on err == nil of the closure; the misuse guards (read-only, finished, empty key, closed DB) dominate every effect and each failing branch returns its documented error; a refused commit applies nothing. 'Nor after flushes, compactions and restarts' follows from confinement (the data never left the private buffer).",
			Assumptions: commonAssumptions},
		{ID: "C09", Rules: []string{"CMP.ORDER", "CMP.TOMB", "CMP.SIB", "KWAY.ORDER", "SNAP.GC", "DUR.REMOVE", "DUR.PUBLISH", "BLOOM.KEY"},
			Explanation: "Decided: one comparator for versioned keys (no raw text comparison reaches a versioned key); nothing reachable from a compaction decides on Entry.Tombstone; both compactions run the same steps, feed the merge older level first, and unlink/delete exactly the tables they merged; the merge heap orders by CompareKeys with ties by list index so the newest entry wins; version discarding only at or below readMark and keeping the newest there; inputs are deleted only after the output is durable; the new handle's filter is built from the output's entries. NOT decided: the merged contents themselves; table selection (overlapLN in user-key space); cascaded compactions.",
			Assumptions: commonAssumptions},
		{ID: "C11", Rules: []string{"CODEC.POOL", "CODEC.SEQ", "CODEC.NARROW", "CODEC.PREFIX"},
			Explanation: "Decided: no byte of a pooled buffer outlives Pool.Put (the second sentence of C11, for all schedules): values aliasing b.Bytes() are not returned, stored, sent or captured; each encoder/decoder pair (Data, Index, Footer, Meta, wal records) writes and reads the same sequence of field types in the same byte order and loop structure, and the footer length used by recovery equals the encoded size; no length is narrowed to 8/16 bits without a dominating range check; encoder and decoder both carry the previous key through the prefix-compression loop. NOT decided: byte equality for all inputs; s2 and frugal/thrift round trips (third party).",
			Assumptions: commonAssumptions},
		{ID: "C12", Rules: []string{"RACE.FIELDS", "READ.PUBLISH", "LIVE.BALANCE", "CODEC.POOL"},
			Explanation: "Decided: the data-race clause, for all schedules - a static lockset analysis over every struct field, global and container of the module that is written after initialisation: each (write, access) pair that can run in concurrent roles holds a common lock (the writer exclusively) or both are atomic; locks are balanced; the rotation publishes before notifying the flusher (no Remove of a missing element); pooled bytes are not shared. NOT decided: 'no panic' in general; that results are allowed by C05-C07.",
			Assumptions: commonAssumptions},
		{ID: "C13", Rules: []string{"WM.WRITER", "WM.MONO", "WM.ADVANCE", "WM.SIGN", "WM.WAIT"},
			Explanation: "Decided (finite control, every rule a guard/ownership fact about the single consumer): doneUntil is stored only by the consumer started once in New, marks are received only there, its bookkeeping is confined; every store is guarded by 'greater than the current value'; the stored value is the current mark or a heap minimum whose pending count was not positive in that iteration; Begin/Done encode done=false/true and the consumer counts +1/-1; the heap is ascending and shaped like its sibling; waiters are closed only at or below doneUntil; WaitForMark returns nil only on DoneUntil() >= ts or after its waiter closed, else the context error. WM.ADVANCE and WM.SIGN restate comparisons (spec-shaped). NOT decided: liveness beyond the pairing rules of C15.",
			Assumptions: commonAssumptions},
		{ID: "C14", Rules: []string{"DUR.ACK", "DUR.APPEND", "DUR.SYNCERR", "DUR.REMOVE", "DUR.PUBLISH", "DUR.SIB", "DUR.TORN"},
			Explanation: "Decided: C14's second sentence is literally an ordering rule - nothing is acknowledged, and no file is deleted or relied upon, before the data that replaces it has been fsynced (DUR.ACK, DUR.APPEND, DUR.SYNCERR, DUR.REMOVE); a table becomes visible to recovery only by renaming a fsynced temporary file, so a partly written or empty table file cannot exist under a scanned name (DUR.PUBLISH, DUR.SIB); in the wal record loop a short read of the length prefix or of the body is classified as end of log before any failure return (DUR.TORN). NOT decided: torn batches inside one multi-record append (see C04); corruption of complete records (outside the fault model).",
			Assumptions: commonAssumptions},
		{ID: "C15", Rules: []string{"LIVE.ORDER", "LIVE.WAIT", "LIVE.BALANCE", "LIVE.PAIR", "CONF.ORDER"},
			Explanation: "Decided: necessary conditions for deadlock freedom under every schedule - the lock-order graph (edges from may-held locksets) is acyclic and no lock class is re-acquired while held; no goroutine blocks on a channel, or waits for a watermark, holding a lock that the goroutine(s) it waits for may need before performing the matching operation (locks needed are computed from the counterpart's reachable code, transitively through its own blocking operations); locks are balanced on every path; commitMark.Begin is always followed by Done, a refused commit begins nothing, every flusher exit closes DB.closed, Close signals then waits, Open finishes both marks. NOT decided: bounded time; behaviour when the API contract is broken (commit racing with Close).",
			Assumptions: commonAssumptions},
		{ID: "C16", Rules: []string{"BLOOM.SIB", "BLOOM.RESET", "BLOOM.KEY", "BLOOM.SIGN", "RACE.FIELDS"},
			Explanation: "Decided: Add and Contains compute the same bit index from the same hash functions in the same order, bits are only set, Contains denies only on a clear bit; the hash state is Reset on every path after Write; filters are built from and queried with ParseKey of the key, and every table handle's filter is built from that table's entries (writers and recovery); shared hash state is only used under levelManager.mu (RACE.FIELDS); under a GOARCH with 32-bit int no full-range unsigned hash passes through a signed int before %/index (thorough tier analyses GOARCH=386). NOT decided: the sizing arithmetic of New (m >= 1, k >= 1 for every n, p).",
			Assumptions: commonAssumptions},
		{ID: "C17", Rules: []string{"SKIP.DESCENT", "SKIP.UPDATE", "SKIP.COPY", "SKIP.CMP"},
			Explanation: "Decided (narrow): the five descents use the same level-loop bounds and the same advance predicate next != nil && CompareKeys(next.Key, target) < 0, exact matches test CompareKeys == 0, nothing in the package orders keys as raw text; Set on an existing versioned key replaces value and tombstone and inserts nothing; the entry copies handed out keep all four fields. NOT decided: the linking algorithm and its interaction with random tower heights (shape analysis of a linked structure is out of reach), Size accounting.",
			Assumptions: commonAssumptions},
	}
}

func propertyByID(id string) *Property {
	for _, p := range properties {
		if p.ID == id {
			return p
		}
	}
	return nil
}
