package main

import (
	"encoding/json"
	"fmt"
	"os"
	"path/filepath"
	"sort"
	"strings"
)

const (
	Hold      = "hold"
	Violation = "violation"
	Undecided = "undecided"
)

// Instance is one obligation of a rule at one construct of the program.
type Instance struct {
	Rule      string   `json:"rule"`
	Func      string   `json:"function"`
	Construct string   `json:"construct"`
	Pos       string   `json:"pos"`
	Verdict   string   `json:"verdict"`
	Detail    string   `json:"detail,omitempty"`
	Path      []string `json:"path,omitempty"`
}

func (i Instance) Key() string { return i.Rule + "|" + i.Func + "|" + i.Construct }

type RuleResult struct {
	Rule      string     `json:"rule"`
	Engine    string     `json:"engine"`
	Desc      string     `json:"description"`
	Min       int        `json:"min_instances"`
	Instances []Instance `json:"instances"`
	SpecShape bool       `json:"spec_shaped,omitempty"`
}

type Rule struct {
	ID     string
	Engine string
	Desc   string
	Min    int
	Spec   bool // restates a comparison (spec-shaped)
	Run    func(c *Ctx, r *RuleRun)
}

// RuleRun collects instances for one rule.
type RuleRun struct {
	c    *Ctx
	rule *Rule
	out  []Instance
	ord  map[string]int
}

func (r *RuleRun) add(verdict string, fn string, construct string, pos string, detail string, path ...string) {
	// ordinal among equal constructs of the same function
	k := fn + "|" + construct
	if r.ord == nil {
		r.ord = map[string]int{}
	}
	r.ord[k]++
	if r.ord[k] > 1 {
		construct = fmt.Sprintf("%s#%d", construct, r.ord[k])
	}
	r.out = append(r.out, Instance{Rule: r.rule.ID, Func: fn, Construct: construct, Pos: pos, Verdict: verdict, Detail: detail, Path: path})
}

func (r *RuleRun) Hold(fn, construct, pos, detail string) { r.add(Hold, fn, construct, pos, detail) }
func (r *RuleRun) Viol(fn, construct, pos, detail string, path ...string) {
	r.add(Violation, fn, construct, pos, detail, path...)
}
func (r *RuleRun) Undecided(fn, construct, pos, detail string) {
	r.add(Undecided, fn, construct, pos, detail)
}

// Check records hold/violation from a boolean.
func (r *RuleRun) Check(ok bool, fn, construct, pos, holdDetail, violDetail string) {
	if ok {
		r.Hold(fn, construct, pos, holdDetail)
	} else {
		r.Viol(fn, construct, pos, violDetail)
	}
}

// ---- known findings ----

type KnownFile struct {
	Comment string       `json:"comment"`
	Known   []KnownEntry `json:"known"`
	Fixed   []string     `json:"fixed"`
}

type KnownEntry struct {
	Property  string `json:"property"`
	Rule      string `json:"rule"`
	Func      string `json:"function"`
	Construct string `json:"construct"`
	What      string `json:"what"`
}

func loadKnown(path string) (*KnownFile, error) {
	var k KnownFile
	b, err := os.ReadFile(path)
	if err != nil {
		if os.IsNotExist(err) {
			return &k, nil
		}
		return nil, err
	}
	if err := json.Unmarshal(b, &k); err != nil {
		return nil, err
	}
	return &k, nil
}

func (k *KnownFile) match(prop string, i Instance) *KnownEntry {
	for idx := range k.Known {
		e := &k.Known[idx]
		if e.Property == prop && e.Rule == i.Rule && e.Func == i.Func && e.Construct == i.Construct {
			return e
		}
	}
	return nil
}

// ---- evidence ----

type Evidence struct {
	PropertyID  string         `json:"property_id"`
	Tier        string         `json:"tier"`
	Seed        int            `json:"seed"`
	Level       string         `json:"level"`
	Coverage    map[string]any `json:"coverage"`
	Assumptions []string       `json:"assumptions"`
	WallS       float64        `json:"wall_s"`
	Violations  int            `json:"violations"`
}

func writeJSON(path string, v any) error {
	if err := os.MkdirAll(filepath.Dir(path), 0o755); err != nil {
		return err
	}
	b, err := json.MarshalIndent(v, "", " ")
	if err != nil {
		return err
	}
	tmp := path + ".tmp"
	if err := os.WriteFile(tmp, append(b, '\n'), 0o644); err != nil {
		return err
	}
	return os.Rename(tmp, path)
}

func sortInstances(in []Instance) {
	sort.SliceStable(in, func(i, j int) bool {
		if in[i].Rule != in[j].Rule {
			return in[i].Rule < in[j].Rule
		}
		if in[i].Func != in[j].Func {
			return in[i].Func < in[j].Func
		}
		return in[i].Construct < in[j].Construct
	})
}

func sanitizeFile(s string) string {
	r := strings.NewReplacer("/", "_", "|", "_", " ", "_", "*", "", "(", "", ")", "", "$", "_", "#", "_", ":", "_", "<", "", ">", "", "\"", "", "'", "", "&", "", "%", "")
	s = r.Replace(s)
	if len(s) > 120 {
		s = s[:120]
	}
	return s
}
