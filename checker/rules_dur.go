package main

// Durability ordering rules (C03, C14, C04, C09, C02): all-paths ordering of file-system effects.

import (
	"fmt"
	"go/token"
	"go/types"
	"regexp"
	"sort"
	"strings"

	"golang.org/x/tools/go/ssa"
)

type durCtx struct {
	p          *Prog
	effects    map[ssa.Instruction]*FileEffect
	byFn       map[*ssa.Function][]*FileEffect
	walAppend  *Must // a wal write followed by a checked fsync happened
	tablePub   *Must // a table was renamed into place from a synced temporary file
	walSync    *Must
	walWriters map[*ssa.Function]bool
	appendGood map[*ssa.Function]bool
}

func (c *Ctx) Dur() *durCtx {
	if d, ok := c.memo["dur"]; ok {
		return d.(*durCtx)
	}
	p := c.P
	d := &durCtx{p: p, effects: map[ssa.Instruction]*FileEffect{}, byFn: map[*ssa.Function][]*FileEffect{}, walWriters: map[*ssa.Function]bool{}, appendGood: map[*ssa.Function]bool{}}
	for _, f := range p.Funcs {
		for _, b := range f.Blocks {
			for _, ins := range b.Instrs {
				if fe := p.FileEffectOf(ins); fe != nil {
					d.effects[ins] = fe
					d.byFn[f] = append(d.byFn[f], fe)
					if fe.Kind == "write" && fe.Class == "wal" {
						d.walWriters[f] = true
					}
				}
			}
		}
	}
	d.walSync = NewMust(p, func(call *ssa.Call) bool {
		fe := d.effects[call]
		return fe != nil && fe.Kind == "sync" && fe.Class == "wal"
	}, nil)
	for f := range d.walWriters {
		d.appendGood[f] = d.appendLocallyGood(f) == nil
	}
	d.walAppend = NewMust(p, func(call *ssa.Call) bool {
		cs := p.Callees(call)
		if len(cs) == 0 {
			return false
		}
		for _, g := range cs {
			if !d.walWriters[g] || !d.appendGood[g] {
				return false
			}
		}
		return true
	}, nil)
	d.tablePub = NewMust(p, func(call *ssa.Call) bool {
		fe := d.effects[call]
		return fe != nil && fe.Kind == "rename" && fe.To == "table" && fe.From == "table-tmp"
	}, nil)
	c.memo["dur"] = d
	return d
}

// appendLocallyGood: in f, no path from a wal write to a success return avoids a checked wal fsync. Returns a witness.
func (d *durCtx) appendLocallyGood(f *ssa.Function) []ssa.Instruction {
	var writes []ssa.Instruction
	for _, fe := range d.byFn[f] {
		if fe.Kind == "write" && fe.Class == "wal" {
			writes = append(writes, fe.Ins)
		}
	}
	q := PathQuery{P: d.p, Fn: f, Starts: writes, Avoid: d.walSync.Avoid(f), EdgeOK: d.walSync.EdgeOK(f), Target: isSuccessReturn, SuccessOnly: true}
	return q.FindPath()
}

func init() {
	register(&Rule{ID: "DUR.APPEND", Engine: "E-PATH", Min: 1,
		Desc: "every function that writes to a wal file reaches a checked fsync of it before any success return",
		Run: func(c *Ctx, r *RuleRun) {
			d := c.Dur()
			p := c.P
			for _, f := range sortedFns(p, d.walWriters) {
				w := d.appendLocallyGood(f)
				if w == nil {
					r.Hold(p.FnName(f), "wal-write", p.Pos(f.Pos()), "every path from the write to a success return passes a checked Sync")
				} else {
					r.Viol(p.FnName(f), "wal-write", p.Pos(instrPos(w[0])), "a success return is reachable after writing to the wal without a checked fsync: the caller is acknowledged before the record is durable", p.describePath(w)...)
				}
			}
		}})

	register(&Rule{ID: "DUR.SYNCERR", Engine: "E-PATH", Min: 2,
		Desc: "the error of every (*os.File).Sync is tested or returned",
		Run: func(c *Ctx, r *RuleRun) {
			d := c.Dur()
			p := c.P
			for _, f := range p.Funcs {
				for _, fe := range d.byFn[f] {
					if fe.Kind != "sync" {
						continue
					}
					call, ok := fe.Ins.(*ssa.Call)
					if !ok {
						r.Viol(p.FnName(f), "Sync("+fe.Class+")", p.Pos(instrPos(fe.Ins)), "Sync is deferred or started with go: its error cannot be checked")
						continue
					}
					_, checked := successPoints(call)
					r.Check(checked, p.FnName(f), "Sync("+fe.Class+")", p.Pos(instrPos(fe.Ins)), "error tested", "the error of Sync is dropped: a failed fsync would be acknowledged as durable")
				}
			}
		}})

	register(&Rule{ID: "DUR.ACK", Engine: "E-PATH", Min: 1,
		Desc: "Txn.Commit: once a commit timestamp was allocated, every success return is preceded by a durable wal append (write + checked fsync) on every path",
		Run: func(c *Ctx, r *RuleRun) {
			d := c.Dur()
			p := c.P
			commit := p.Fn("", "Txn", "Commit")
			if commit == nil {
				r.Undecided("-", "Txn.Commit", "", "anchor (*Txn).Commit not found")
				return
			}
			starts := tsAllocCalls(c, commit)
			if len(starts) == 0 {
				r.Undecided(p.FnName(commit), "ts-alloc", p.Pos(commit.Pos()), "no call in Commit reaches a store to oracle.nextTs")
				return
			}
			q := PathQuery{P: p, Fn: commit, Starts: starts, Avoid: d.walAppend.Avoid(commit), EdgeOK: d.walAppend.EdgeOK(commit), Target: isSuccessReturn, SuccessOnly: true}
			if w := q.FindPath(); w != nil {
				r.Viol(p.FnName(commit), "success-return", p.Pos(instrPos(w[len(w)-1])), "Commit can return nil after allocating a commit timestamp without a durable wal append on this path", p.describePath(w)...)
			} else {
				r.Hold(p.FnName(commit), "success-return", p.Pos(commit.Pos()), "every success return after the timestamp allocation passes a function that writes and fsyncs the wal, with the error checked on the way")
			}
			// the conflict branch: a failure return must not be preceded by an append (nothing applied when refused) -> CONF.REFUSED
		}})

	register(&Rule{ID: "ATOMIC.APPEND", Engine: "E-PATH", Min: 2,
		Desc: "the write set of a transaction reaches the wal through exactly one chain of call sites, none of them inside a loop: one append, one file",
		Run: func(c *Ctx, r *RuleRun) {
			d := c.Dur()
			p := c.P
			commit := p.Fn("", "Txn", "Commit")
			if commit == nil {
				r.Undecided("-", "Txn.Commit", "", "anchor (*Txn).Commit not found")
				return
			}
			isWalWrite := func(ins ssa.Instruction) bool {
				fe := d.effects[ins]
				return fe != nil && fe.Kind == "write" && fe.Class == "wal"
			}
			visited := map[*ssa.Function]bool{}
			var walk func(f *ssa.Function)
			walk = func(f *ssa.Function) {
				if visited[f] {
					return
				}
				visited[f] = true
				var sites []ssa.Instruction
				for _, b := range f.Blocks {
					for _, ins := range b.Instrs {
						if isWalWrite(ins) {
							sites = append(sites, ins)
						} else if ci, ok := ins.(ssa.CallInstruction); ok && p.SiteMayReach(ci, isWalWrite) {
							sites = append(sites, ins)
						}
					}
				}
				for _, s := range sites {
					what := "call reaching the wal write"
					if isWalWrite(s) {
						what = "wal write"
					}
					if inLoop(s.Block()) {
						r.Viol(p.FnName(f), what, p.Pos(instrPos(s)), "this "+what+" is inside a loop: a transaction is logged with several appends and a crash between two of them leaves it partially applied")
					} else if len(sites) > 1 {
						r.Viol(p.FnName(f), what, p.Pos(instrPos(s)), fmt.Sprintf("%d sites of %s can write the wal for one commit: the write set may be split over several appends or wal files", len(sites), p.FnName(f)))
					} else {
						r.Hold(p.FnName(f), what, p.Pos(instrPos(s)), "single site, not in a loop")
					}
					if ci, ok := s.(ssa.CallInstruction); ok && !isWalWrite(s) {
						for _, g := range p.Callees(ci) {
							walk(g)
						}
					}
				}
			}
			walk(commit)
		}})

	register(&Rule{ID: "DUR.REMOVE", Engine: "E-PATH", Min: 5,
		Desc: "every call site that may remove a file is justified on all paths: (a/d) after a table was synced and renamed into place, (b) wal removed after each of its entries was durably appended to another wal, (c) wal removed under the guard 'memtable empty'",
		Run:  runDurRemove})

	register(&Rule{ID: "DUR.PUBLISH", Engine: "E-PATH", Min: 2,
		Desc: "table files never appear half-made under the name scanned by recovery: they are created under a temporary name, written, fsynced (checked) and only then renamed",
		Run:  runDurPublish})

	register(&Rule{ID: "DUR.SIB", Engine: "E-SIB", Min: 2,
		Desc: "every table image produced by table.Build is handed to the durable table writer and its error is checked",
		Run: func(c *Ctx, r *RuleRun) {
			d := c.Dur()
			p := c.P
			build := p.Fn("table", "", "Build")
			if build == nil {
				r.Undecided("-", "table.Build", "", "anchor table.Build not found")
				return
			}
			for _, site := range p.CallersOf(build) {
				call, ok := site.(*ssa.Call)
				if !ok {
					continue
				}
				f := call.Parent()
				var bytesVal ssa.Value
				for _, ref := range *call.Referrers() {
					if ex, ok := ref.(*ssa.Extract); ok && ex.Index == 1 {
						bytesVal = ex
					}
				}
				if bytesVal == nil {
					r.Viol(p.FnName(f), "table.Build", p.Pos(instrPos(call)), "the table image is dropped")
					continue
				}
				good := false
				for _, ref := range *bytesVal.Referrers() {
					uc, ok := ref.(*ssa.Call)
					if !ok {
						continue
					}
					cs := p.Callees(uc)
					all := len(cs) > 0
					for _, g := range cs {
						if !d.tablePub.FuncSuccess(g) {
							all = false
						}
					}
					if _, checked := successPoints(uc); all && checked {
						good = true
					}
				}
				r.Check(good, p.FnName(f), "table.Build", p.Pos(instrPos(call)), "image handed to a function that fsyncs and renames on every success path, error checked",
					"the table image is not written through the durable table writer (tmp, write, fsync, rename) or its error is ignored")
			}
		}})

	register(&Rule{ID: "DUR.TORN", Engine: "E-PATH", Min: 2,
		Desc: "in the wal record loop, an error of reading a record (length prefix or body) is classified as end-of-file/torn tail before it can reach a failure return",
		Run:  runDurTorn})

	register(&Rule{ID: "LEXNUM.WAL", Engine: "E-DEP", Min: 1,
		Desc: "the wal version is compared as text, so every numeric verb that produces it has a fixed zero-padded width and the time layout is fixed-width",
		Run:  runLexnumWal})

	register(&Rule{ID: "LEXNUM.SORT", Engine: "E-DEP", Min: 1,
		Desc: "no slice of names is sorted as text when its elements are parsed with a variable-width numeric verb into an order-relevant number",
		Run:  runLexnumSort})
}

func sortedFns(p *Prog, m map[*ssa.Function]bool) []*ssa.Function {
	var out []*ssa.Function
	for f, ok := range m {
		if ok {
			out = append(out, f)
		}
	}
	sort.Slice(out, func(i, j int) bool { return p.FnName(out[i]) < p.FnName(out[j]) })
	return out
}

// tsAllocCalls: the calls in fn that may reach a store to oracle.nextTs.
func tsAllocCalls(c *Ctx, fn *ssa.Function) []ssa.Instruction {
	p := c.P
	nextTs := p.Field("", "oracle", "nextTs")
	if nextTs == nil {
		return nil
	}
	storesNextTs := func(ins ssa.Instruction) bool {
		if st, ok := ins.(*ssa.Store); ok {
			fv, _ := fieldOfAddr(st.Addr)
			return fv == nextTs
		}
		return false
	}
	var out []ssa.Instruction
	for _, b := range fn.Blocks {
		for _, ins := range b.Instrs {
			if ci, ok := ins.(*ssa.Call); ok && p.SiteMayReach(ci, storesNextTs) {
				out = append(out, ins)
			}
		}
	}
	return out
}

func runDurRemove(c *Ctx, r *RuleRun) {
	d := c.Dur()
	p := c.P
	isRemove := func(ins ssa.Instruction) bool {
		fe := d.effects[ins]
		return fe != nil && (fe.Kind == "remove" || fe.Kind == "truncate")
	}
	type site struct {
		ins   ssa.Instruction
		class string
		via   string
		depth int
	}
	// direct sites, and propagation through methods that remove a file named by a field of their receiver
	var work []site
	for _, f := range p.Funcs {
		for _, fe := range d.byFn[f] {
			if fe.Kind == "remove" || fe.Kind == "truncate" {
				work = append(work, site{fe.Ins, fe.Class, "", 0})
			}
		}
	}
	seen := map[ssa.Instruction]bool{}
	for len(work) > 0 {
		s := work[0]
		work = work[1:]
		if seen[s.ins] {
			continue
		}
		seen[s.ins] = true
		f := s.ins.Parent()
		// receiver-owned path: os.Remove(recv.field) inside a method -> the obligation belongs to the callers
		if fe := d.effects[s.ins]; fe != nil {
			if ci, ok := s.ins.(ssa.CallInstruction); ok && len(ci.Common().Args) > 0 && len(f.Params) > 0 && f.Signature.Recv() != nil {
				if fv, base := loadedField(ci.Common().Args[0]); fv != nil && base == ssa.Value(f.Params[0]) {
					callers := p.CallersOf(f)
					for _, cs := range callers {
						if strings.HasSuffix(p.Fset.Position(cs.Pos()).Filename, "_test.go") {
							continue
						}
						work = append(work, site{cs, s.class, p.FnName(f), s.depth + 1})
					}
					if len(callers) > 0 {
						continue
					}
				}
			}
		}
		construct := "remove(" + s.class + ")"
		if s.via != "" {
			construct = s.via + "→remove(" + s.class + ")"
		}
		fn := p.FnName(f)
		pos := p.Pos(instrPos(s.ins))
		if s.class == "unknown" {
			r.Undecided(fn, construct, pos, "cannot classify the removed file (neither a table nor a wal path)")
			continue
		}
		// (a)/(d): dominated by a durable table publish
		// (the site itself never justifies itself: a helper that removes and then publishes is a call that "must
		// publish", but its removal comes first)
		pubAvoid := d.tablePub.Avoid(f)
		selfOnly := d.tablePub.SelfOnly(f, s.ins)
		q := PathQuery{P: p, Fn: f, Avoid: func(ins ssa.Instruction) bool { return !(ins == s.ins && selfOnly) && pubAvoid(ins) }, EdgeOK: d.tablePub.EdgeOK(f), Target: func(ins ssa.Instruction) bool { return ins == s.ins }}
		w := q.FindPath()
		localOnly := false
		if df, isDefer := s.ins.(*ssa.Defer); isDefer {
			localOnly = true
			// a deferred removal runs at every exit after the defer statement - also when the function panics. It is
			// justified only if nothing between the defer and such an exit can happen before the publish.
			baseAvoid := d.tablePub.Avoid(f)
			noRet := func(ins ssa.Instruction) bool {
				if _, isPanic := ins.(*ssa.Panic); isPanic {
					return true
				}
				cl, ok := ins.(*ssa.Call)
				return ok && p.CallNoReturn(cl)
			}
			q2 := PathQuery{P: p, Fn: f, Starts: []ssa.Instruction{df}, Avoid: func(ins ssa.Instruction) bool { return !noRet(ins) && baseAvoid(ins) }, EdgeOK: d.tablePub.EdgeOK(f), Target: func(ins ssa.Instruction) bool {
				switch x := ins.(type) {
				case *ssa.RunDefers, *ssa.Panic:
					return true
				case *ssa.Call:
					return p.CallNoReturn(x)
				}
				return false
			}}
			w2 := q2.FindPath()
			if w2 != nil {
				w = w2
			} else {
				w = nil
			}
		}
		if w == nil {
			r.Hold(fn, construct, pos, "every path to the removal passes a table that was written, fsynced and renamed into place, with the error checked")
			continue
		}
		if s.class == "wal" {
			if why := d.justifyReplay(f, s.ins); why != "" {
				r.Hold(fn, construct, pos, why)
				continue
			}
			if why := d.justifyEmpty(f, s.ins); why != "" {
				r.Hold(fn, construct, pos, why)
				continue
			}
		}
		_ = isRemove
		// not justified inside this function: a helper that only removes what it is told to - the obligation then lies
		// with every call site of the helper
		if s.depth < 3 && !token.IsExported(f.Name()) && !localOnly {
			var callers []ssa.CallInstruction
			for _, cs := range p.CallersOf(f) {
				if !strings.HasSuffix(p.Fset.Position(cs.Pos()).Filename, "_test.go") {
					callers = append(callers, cs)
				}
			}
			// "told to": the file removed is named by a parameter of the helper (not the receiver). A function that chooses
			// its victims itself answers for them itself - an unrelated table published earlier in some caller is no excuse.
			told := false
			if ci, ok := s.ins.(ssa.CallInstruction); ok {
				first := 0
				if f.Signature.Recv() != nil {
					first = 1
				}
				for _, arg := range ci.Common().Args {
					if p.dependsOn(arg, func(x ssa.Value) bool {
						pr, isParam := x.(*ssa.Parameter)
						if !isParam || pr.Parent() != f {
							return false
						}
						for i, q := range f.Params {
							if q == pr {
								return i >= first
							}
						}
						return false
					}) {
						told = true
					}
				}
			}
			if told && len(callers) > 0 && len(w) > 0 && w[0].Block() == f.Blocks[0] {
				for _, cs := range callers {
					via := p.FnName(f)
					if s.via != "" {
						via = s.via
					}
					work = append(work, site{cs, s.class, via, s.depth + 1})
				}
				continue
			}
		}
		r.Viol(fn, construct, pos, "a "+s.class+" file can be removed on a path on which nothing durable replaces it yet (no table fsynced and renamed into place before the removal; for a wal also: its entries were not re-logged, and the memtable is not known to be empty)", p.describePath(w)...)
	}
}

// justifyReplay: (b) the wal removed at site was read completely (same receiver) and each entry read was durably
// appended to another wal inside a range loop over the result, before the removal.
func (d *durCtx) justifyReplay(f *ssa.Function, site ssa.Instruction) string {
	p := d.p
	ci, ok := site.(ssa.CallInstruction)
	if !ok || len(ci.Common().Args) == 0 {
		return ""
	}
	recv := ci.Common().Args[0]
	pts := d.walAppend.Points(f)
	for _, b := range f.Blocks {
		for _, ins := range b.Instrs {
			rd, ok := ins.(*ssa.Call)
			if !ok || len(rd.Call.Args) == 0 || rd.Call.Args[0] != recv {
				continue
			}
			// a reader: returns ([]Entry, error)
			sig := rd.Call.Signature()
			if sig.Results().Len() != 2 || errResultIndex(sig) != 1 {
				continue
			}
			sl, isSlice := sig.Results().At(0).Type().Underlying().(*types.Slice)
			if !isSlice || p.isModuleNamed(sl.Elem()) == nil {
				continue
			}
			sp, checked := successPointsP(p, rd)
			if !checked {
				continue
			}
			dom := false
			for _, s := range sp {
				if dominatesInstr(s, site) || s == site {
					dom = true
				}
			}
			if !dom {
				continue
			}
			// the entries value
			var entries ssa.Value
			for _, ref := range *rd.Referrers() {
				if ex, ok := ref.(*ssa.Extract); ok && ex.Index == 0 {
					entries = ex
				}
			}
			if entries == nil {
				continue
			}
			// a loop over entries: find the loop header block that indexes entries (range over slice compiles to index loop)
			for _, ref := range *entries.Referrers() {
				var loopIns ssa.Instruction
				switch x := ref.(type) {
				case *ssa.Index, *ssa.IndexAddr:
					loopIns = x.(ssa.Instruction)
				case *ssa.Range:
					loopIns = x
				}
				if loopIns == nil || !inLoop(loopIns.Block()) {
					continue
				}
				// every iteration (path from the element access back to itself) passes a durable append
				q := PathQuery{P: p, Fn: f, Starts: []ssa.Instruction{loopIns}, Avoid: func(i ssa.Instruction) bool { return pts[i] }, EdgeOK: d.walAppend.EdgeOK(f),
					Target: func(i ssa.Instruction) bool { return i == loopIns }}
				// the removal comes after the loop: it is dominated by the loop's exit edge
				afterLoop := false
				for hb := loopIns.Block(); hb != nil; hb = hb.Idom() {
					if len(hb.Instrs) == 0 || !inLoop(hb) {
						continue
					}
					if _, isIf := hb.Instrs[len(hb.Instrs)-1].(*ssa.If); !isIf {
						continue
					}
					if hb == loopIns.Block() {
						continue
					}
					isHeader := false
					for _, ex := range hb.Succs {
						body := ex == loopIns.Block() || ex.Dominates(loopIns.Block())
						if body {
							isHeader = true
						}
					}
					if !isHeader {
						continue
					}
					for _, ex := range hb.Succs {
						body := ex == loopIns.Block() || ex.Dominates(loopIns.Block())
						if !body && (ex == site.Block() || ex.Dominates(site.Block())) {
							afterLoop = true
						}
					}
					break
				}
				if !afterLoop {
					continue
				}
				if q.FindPath() == nil && dominatesInstr(loopIns, site) == false {
					// the loop must come before the removal: the removal is not inside the loop body before the append
					q2 := PathQuery{P: p, Fn: f, Starts: []ssa.Instruction{loopIns}, Avoid: func(i ssa.Instruction) bool { return pts[i] }, EdgeOK: d.walAppend.EdgeOK(f),
						Target: func(i ssa.Instruction) bool { return i == site }}
					if q2.FindPath() == nil {
						return fmt.Sprintf("(b) the wal was read completely at %s and every entry is durably appended to another wal in the loop at %s before the removal", p.Pos(instrPos(rd)), p.Pos(instrPos(loopIns)))
					}
				}
			}
		}
	}
	return ""
}

// justifyEmpty: (c) the removal is dominated by the branch on which the memtable's size is <= 0.
func (d *durCtx) justifyEmpty(f *ssa.Function, site ssa.Instruction) string {
	p := d.p
	mtType := p.Named("", "memtable")
	for _, b := range f.Blocks {
		if len(b.Instrs) == 0 {
			continue
		}
		iff, ok := b.Instrs[len(b.Instrs)-1].(*ssa.If)
		if !ok {
			continue
		}
		bo, ok := iff.Cond.(*ssa.BinOp)
		if !ok {
			continue
		}
		call, okc := bo.X.(*ssa.Call)
		k, okk := constInt(bo.Y)
		op := bo.Op.String()
		if !okc || !okk {
			// constant on the left
			call, okc = bo.Y.(*ssa.Call)
			k, okk = constInt(bo.X)
			op = flipCmp(op)
		}
		if !okc || !okk || k != 0 {
			continue
		}
		// callee: a method of memtable returning an int that depends on the skiplist size
		cs := p.Callees(call)
		if len(cs) != 1 || cs[0].Signature.Recv() == nil || mtType == nil || p.isModuleNamed(cs[0].Signature.Recv().Type()) != mtType {
			continue
		}
		if !returnsSkiplistSize(p, cs[0]) {
			continue
		}
		// which successor means size <= 0 ?
		emptySucc := -1
		switch op {
		case ">", "!=":
			emptySucc = 1
		case "<=", "==":
			emptySucc = 0
		}
		if emptySucc < 0 {
			continue
		}
		sb := b.Succs[emptySucc]
		if len(sb.Preds) == 1 && (sb == site.Block() || sb.Dominates(site.Block())) {
			return fmt.Sprintf("(c) only reached when %s() <= 0 (test at %s): the memtable is empty, its wal holds nothing", cs[0].Name(), p.Pos(instrPos(iff)))
		}
	}
	return ""
}

func flipCmp(op string) string {
	switch op {
	case "<":
		return ">"
	case ">":
		return "<"
	case "<=":
		return ">="
	case ">=":
		return "<="
	}
	return op
}

// returnsSkiplistSize: f returns (through a call chain) the value of field SkipList.size.
func returnsSkiplistSize(p *Prog, f *ssa.Function) bool {
	sizeField := p.Field("pkg/skiplist", "SkipList", "size")
	if sizeField == nil {
		return false
	}
	var ret func(g *ssa.Function, depth int) bool
	ret = func(g *ssa.Function, depth int) bool {
		if depth > 3 {
			return false
		}
		for _, b := range g.Blocks {
			for _, ins := range b.Instrs {
				rt, ok := ins.(*ssa.Return)
				if !ok || len(rt.Results) != 1 {
					continue
				}
				v := retOperand(rt, 0)
				if fv, _ := loadedField(v); fv == sizeField {
					return true
				}
				if call, ok := v.(*ssa.Call); ok {
					for _, h := range p.Callees(call) {
						if ret(h, depth+1) {
							return true
						}
					}
				}
			}
		}
		return false
	}
	return ret(f, 0)
}

func runDurPublish(c *Ctx, r *RuleRun) {
	d := c.Dur()
	p := c.P
	for _, f := range p.Funcs {
		for _, fe := range d.byFn[f] {
			fn := p.FnName(f)
			pos := p.Pos(instrPos(fe.Ins))
			switch fe.Kind {
			case "create":
				switch fe.Class {
				case "table":
					r.Viol(fn, "create(table)", pos, "a table file is created under its final name: a crash before the write and fsync complete leaves a truncated N-M.db, on which recovery panics")
				case "table-tmp":
					r.Check(fe.Truncates, fn, "create(table-tmp)", pos, "created under a temporary name that recovery ignores, truncating what a crashed attempt left there",
						"the temporary table file is opened without O_TRUNC/O_EXCL: temporary names are reused, so after a crash in the middle of a write a later, smaller table keeps the stale tail and is renamed into place with a wrong footer")
				case "wal":
					r.Hold(fn, "create(wal)", pos, "wal files are valid when empty or torn (see DUR.TORN)")
				default:
					// a file of another kind (neither table nor wal). It matters to C14 when the engine writes content
					// into it and reads a file of that name back: then it is relied upon and has to be fsynced first.
					call, _ := fe.Ins.(*ssa.Call)
					var obj *types.Func
					if call != nil {
						obj = p.CalleeObj(call)
					}
					if call == nil || obj == nil {
						r.Undecided(fn, "create(unknown)", pos, "cannot classify the created file")
						break
					}
					var mine []string
					p.stringConsts(call.Call.Args[0], 0, map[ssa.Value]bool{}, &mine)
					readBack := false
					for _, g := range p.Funcs {
						eachInstr(g, func(i2 ssa.Instruction) {
							c2, ok := i2.(*ssa.Call)
							if !ok || c2 == call {
								return
							}
							o2 := p.CalleeObj(c2)
							if o2 == nil || !(funcIs(o2, "os", "", "ReadFile") || funcIs(o2, "os", "", "Open") || funcIs(o2, "os", "", "OpenFile")) {
								return
							}
							var theirs []string
							p.stringConsts(c2.Call.Args[0], 0, map[ssa.Value]bool{}, &theirs)
							for _, a := range mine {
								for _, b := range theirs {
									if a == b && len(strings.Trim(a, "/%sdv.-")) > 1 {
										readBack = true
									}
								}
							}
						})
					}
					if !readBack {
						r.Hold(fn, "create(other)", pos, "a file of another kind that the engine never reads back")
						break
					}
					if funcIs(obj, "os", "", "WriteFile") {
						r.Viol(fn, "create(other)", pos, "a file the engine reads back (and acts upon) is written with os.WriteFile, which never fsyncs: after a power loss it can be empty or partial although everything that depends on it was acknowledged")
						break
					}
					// OpenFile/Create: every return of the function is preceded by a checked Sync on a file (approximation:
					// the function syncs at all on every path that wrote)
					md := NewMustDo(p, func(i ssa.Instruction) bool {
						c3, ok := i.(*ssa.Call)
						if !ok {
							return false
						}
						o3 := p.CalleeObj(c3)
						return o3 != nil && funcIs(o3, "os", "File", "Sync")
					})
					wrote := p.FuncMayDo(f, func(i ssa.Instruction) bool {
						c3, ok := i.(*ssa.Call)
						if !ok {
							return false
						}
						o3 := p.CalleeObj(c3)
						return o3 != nil && (funcIs(o3, "os", "File", "Write") || funcIs(o3, "os", "File", "WriteString") || funcIs(o3, "os", "File", "WriteAt"))
					})
					if !wrote {
						r.Hold(fn, "create(other)", pos, "created without content")
						break
					}
					q := PathQuery{P: p, Fn: f, Starts: []ssa.Instruction{fe.Ins}, Avoid: md.Instr, Target: isSuccessReturn, SuccessOnly: true}
					r.Check(q.FindPath() == nil, fn, "create(other)", pos, "content is fsynced before the function returns successfully",
						"a file the engine reads back is written but not fsynced before its writer returns")
				}
			case "rename":
				if fe.To != "table" {
					continue
				}
				if fe.From != "table-tmp" {
					r.Viol(fn, "rename(→table)", pos, "a table name is produced by renaming a file that is not a temporary table file ("+fe.From+")")
					continue
				}
				tmpSync := NewMust(p, func(call *ssa.Call) bool {
					e := d.effects[call]
					return e != nil && e.Kind == "sync" && e.Class == "table-tmp"
				}, nil)
				isRename := func(ins ssa.Instruction) bool { return ins == fe.Ins }
				q1 := PathQuery{P: p, Fn: f, Avoid: tmpSync.Avoid(f), EdgeOK: tmpSync.EdgeOK(f), Target: isRename}
				if w := q1.FindPath(); w != nil {
					r.Viol(fn, "rename(→table)", pos, "the temporary table file can be renamed into place without a checked fsync on this path", p.describePath(w)...)
					continue
				}
				var writes []ssa.Instruction
				for _, e2 := range d.byFn[f] {
					if e2.Kind == "write" && e2.Class == "table-tmp" {
						writes = append(writes, e2.Ins)
					}
				}
				// writes made by helpers called from here
				isTmpWrite := func(i ssa.Instruction) bool {
					e2 := d.effects[i]
					return e2 != nil && e2.Kind == "write" && e2.Class == "table-tmp"
				}
				for _, b2 := range f.Blocks {
					for _, i2 := range b2.Instrs {
						if call, ok := i2.(*ssa.Call); ok && p.SiteMayReach(call, isTmpWrite) {
							writes = append(writes, call)
						}
					}
				}
				if len(writes) == 0 {
					r.Viol(fn, "rename(→table)", pos, "nothing is written to the temporary file in this function before it is renamed")
					continue
				}
				q2 := PathQuery{P: p, Fn: f, Starts: writes, Avoid: tmpSync.Avoid(f), EdgeOK: tmpSync.EdgeOK(f), Target: isRename}
				if w := q2.FindPath(); w != nil {
					r.Viol(fn, "rename(→table)", pos, "bytes written after the last fsync can be renamed into place", p.describePath(w)...)
					continue
				}
				r.Hold(fn, "rename(→table)", pos, "create(tmp) → write → checked fsync → rename on every path")
			}
		}
	}
}

func runDurTorn(c *Ctx, r *RuleRun) {
	p := c.P
	pk := p.SSAPkg[p.pkgPath("wal")]
	if pk == nil {
		r.Undecided("-", "package wal", "", "package wal not found")
		return
	}
	eofVars := map[string]bool{"EOF": true, "ErrUnexpectedEOF": true}
	// classifier: an instruction that compares/Is-tests an error against io.EOF or io.ErrUnexpectedEOF
	isClassifier := func(ins ssa.Instruction) bool {
		switch x := ins.(type) {
		case *ssa.Call:
			obj := p.ExtCallee(x)
			if obj != nil && funcIs(obj, "errors", "", "Is") && len(x.Call.Args) == 2 {
				if g := globalLoaded(x.Call.Args[1]); g != nil && g.Pkg() != nil && g.Pkg().Path() == "io" && eofVars[g.Name()] {
					return true
				}
			}
		case *ssa.BinOp:
			for _, o := range []ssa.Value{x.X, x.Y} {
				if g := globalLoaded(o); g != nil && g.Pkg() != nil && g.Pkg().Path() == "io" && eofVars[g.Name()] {
					return true
				}
			}
		}
		return false
	}
	classify := NewMustDo(p, isClassifier)
	for _, f := range p.Funcs {
		if f.Pkg != pk {
			continue
		}
		for _, b := range f.Blocks {
			for _, ins := range b.Instrs {
				call, ok := ins.(*ssa.Call)
				if !ok || !inLoop(b) {
					continue
				}
				obj := p.ExtCallee(call)
				if obj == nil || !(funcIs(obj, "encoding/binary", "", "Read") || funcIs(obj, "io", "", "ReadFull") || funcIs(obj, "bytes", "Reader", "Read") || funcIs(obj, "io", "", "ReadAtLeast")) {
					continue
				}
				fn, pos := p.FnName(f), p.Pos(instrPos(call))
				ev, _ := errValueOf(call)
				if ev == nil {
					r.Viol(fn, "record-read", pos, "the error of reading a record is dropped")
					continue
				}
				// paths from the non-nil edge to a return with a possibly non-nil error, avoiding a classification
				var starts []ssa.Instruction
				tested := false
				for _, ref := range *ev.Referrers() {
					bo, ok := ref.(*ssa.BinOp)
					if !ok {
						continue
					}
					for _, r2 := range *bo.Referrers() {
						iff, ok := r2.(*ssa.If)
						if !ok {
							continue
						}
						tv, nilSucc, ok := nilTestCond(iff.Cond)
						if !ok || tv != ev {
							continue
						}
						tested = true
						nb := iff.Block().Succs[1-nilSucc]
						if len(nb.Instrs) > 0 {
							starts = append(starts, nb.Instrs[0])
						}
					}
				}
				if !tested {
					r.Viol(fn, "record-read", pos, "the error of reading a record is never tested")
					continue
				}
				bad := false
				var preClassified []*ssa.Call
				for _, st := range starts {
					// include the start instruction itself
					if classify.Instr(st) {
						continue
					}
					// classified before it was tested: `if err := read(); isTornTail(err) { … } else if err != nil { return err }`
					if boolFactIs(st, func(v ssa.Value) bool {
						cl, isCall := v.(*ssa.Call)
						if !isCall || !classify.Instr(cl) {
							return false
						}
						for _, a := range cl.Call.Args {
							if a == ev {
								preClassified = append(preClassified, cl)
								return true
							}
						}
						return false
					}, false) {
						continue
					}
					q := PathQuery{P: p, Fn: f, Starts: []ssa.Instruction{st}, Avoid: classify.Instr, Target: func(i ssa.Instruction) bool {
						rt, ok := i.(*ssa.Return)
						if !ok {
							return false
						}
						idx := errResultIndex(f.Signature)
						return idx >= 0 && !isNilConst(retOperand(rt, idx))
					}}
					if w := q.FindPath(); w != nil {
						bad = true
						r.Viol(fn, "record-read", pos, "a short read of the last record (torn tail after a crash) is returned as an error without being classified as end of log: recovery fails on it", p.describePath(w)...)
						break
					}
				}
				if !bad {
					// a record cut inside its length prefix or body is reported as io.ErrUnexpectedEOF: it must be among the
					// errors the classification knows
					isUEOF := func(i ssa.Instruction) bool {
						for _, v := range operandsOf(i) {
							if g := globalLoaded(v); g != nil && g.Pkg() != nil && g.Pkg().Path() == "io" && g.Name() == "ErrUnexpectedEOF" {
								return true
							}
						}
						return false
					}
					// reachable from this read's error edge (within the reader): a comparison with io.ErrUnexpectedEOF, directly
					// or inside a called classifier
					knowsUEOF := false
					for _, st := range starts {
						q := PathQuery{P: p, Fn: f, Starts: []ssa.Instruction{st}, Target: func(i ssa.Instruction) bool {
							if isUEOF(i) {
								return true
							}
							if ci, ok := i.(*ssa.Call); ok && p.SiteMayReach(ci, isUEOF) {
								return true
							}
							return false
						}, Avoid: func(i ssa.Instruction) bool { return i == ssa.Instruction(call) }}
						if isUEOF(st) || q.FindPath() != nil {
							knowsUEOF = true
						}
						if ci, ok := st.(*ssa.Call); ok && p.SiteMayReach(ci, isUEOF) {
							knowsUEOF = true
						}
					}
					for _, cl := range preClassified {
						if p.SiteMayReach(cl, isUEOF) {
							knowsUEOF = true
						}
					}
					r.Check(knowsUEOF, fn, "record-read", pos, "the read error is compared with io.EOF/io.ErrUnexpectedEOF before any failure return",
						"the classification of a short read never mentions io.ErrUnexpectedEOF, which is what a record torn inside its length prefix or body produces: recovery fails on a torn tail")
				}
			}
		}
	}
	// a classifier function answers "torn" as soon as ONE of the end-of-input errors matches (a conjunction of them can
	// never hold)
	for _, f := range p.Funcs {
		if f.Pkg != pk {
			continue
		}
		isBoolFn := f.Signature.Results().Len() == 1
		if isBoolFn {
			bt, ok := f.Signature.Results().At(0).Type().Underlying().(*types.Basic)
			isBoolFn = ok && bt.Kind() == types.Bool
		}
		if !isBoolFn {
			// the classification written out where the record is read: a successful end-of-input test decides by
			// itself - its true edge does not lead into another end-of-input test (that would be a conjunction)
			for _, b := range f.Blocks {
				if len(b.Instrs) == 0 {
					continue
				}
				iff, ok := b.Instrs[len(b.Instrs)-1].(*ssa.If)
				if !ok {
					continue
				}
				ci, ok := iff.Cond.(ssa.Instruction)
				if !ok || !isClassifier(ci) {
					continue
				}
				nxt := b.Succs[0]
				for hops := 0; hops < 4 && len(nxt.Instrs) == 1; hops++ {
					if _, isJump := nxt.Instrs[0].(*ssa.Jump); !isJump {
						break
					}
					nxt = nxt.Succs[0]
				}
				again := false
				if i2, ok := nxt.Instrs[len(nxt.Instrs)-1].(*ssa.If); ok {
					if c2, ok := i2.Cond.(ssa.Instruction); ok && isClassifier(c2) && c2.Block() == nxt {
						again = true
					}
				}
				r.Check(!again, p.FnName(f), "one end-of-input error is enough", p.Pos(instrPos(iff)), "this test decides by itself when it succeeds",
					"a successful end-of-input test leads into the next one (the tests are combined with && instead of ||): a record cut short is never recognised and recovery fails on it")
			}
			continue
		}
		var mustTrue func(b, from *ssa.BasicBlock, depth int) bool
		mustTrue = func(b, from *ssa.BasicBlock, depth int) bool {
			if depth > 8 || len(b.Instrs) == 0 {
				return false
			}
			switch last := b.Instrs[len(b.Instrs)-1].(type) {
			case *ssa.Return:
				v := last.Results[0]
				if ph, ok := v.(*ssa.Phi); ok && ph.Block() == b {
					for i, pr := range b.Preds {
						if pr == from {
							v = ph.Edges[i]
						}
					}
				}
				return isConstBool(v, true)
			case *ssa.Jump:
				return mustTrue(b.Succs[0], b, depth+1)
			case *ssa.If:
				return mustTrue(b.Succs[0], b, depth+1) && mustTrue(b.Succs[1], b, depth+1)
			}
			return false
		}
		for _, b := range f.Blocks {
			if len(b.Instrs) == 0 {
				continue
			}
			iff, ok := b.Instrs[len(b.Instrs)-1].(*ssa.If)
			if !ok {
				continue
			}
			ci, ok := iff.Cond.(ssa.Instruction)
			if !ok || !isClassifier(ci) {
				continue
			}
			r.Check(mustTrue(b.Succs[0], b, 0), p.FnName(f), "one end-of-input error is enough", p.Pos(instrPos(iff)), "the classifier answers true as soon as this test succeeds",
				"the classifier does not answer `torn` when this end-of-input test succeeds (the tests are combined with && instead of ||): a record cut short is never recognised and recovery fails on it")
		}
	}
}

func operandsOf(i ssa.Instruction) []ssa.Value {
	var out []ssa.Value
	for _, op := range i.Operands(nil) {
		if op != nil && *op != nil {
			out = append(out, *op)
		}
	}
	return out
}

func globalLoaded(v ssa.Value) *types.Var {
	if u, ok := v.(*ssa.UnOp); ok {
		if g, ok := u.X.(*ssa.Global); ok {
			if gv, ok := g.Object().(*types.Var); ok {
				return gv
			}
		}
	}
	return nil
}

var verbRe = regexp.MustCompile(`%([-+# 0]*)(\d*)(?:\.\d+)?([a-zA-Z%])`)

func runLexnumWal(c *Ctx, r *RuleRun) {
	p := c.P
	ver := p.Field("wal", "WAL", "version")
	cmp := p.Fn("wal", "", "CompareVersion")
	if ver == nil || cmp == nil {
		r.Undecided("-", "WAL.version", "", "anchor WAL.version / wal.CompareVersion not found")
		return
	}
	// is the comparator textual? (ordered comparison of strings)
	textual := false
	for _, b := range cmp.Blocks {
		for _, ins := range b.Instrs {
			if bo, ok := ins.(*ssa.BinOp); ok {
				switch bo.Op.String() {
				case "<", ">", "<=", ">=":
					if bt, ok := bo.X.Type().Underlying().(*types.Basic); ok && bt.Info()&types.IsString != 0 {
						textual = true
					}
				}
			}
			if call, ok := ins.(*ssa.Call); ok {
				if obj := p.ExtCallee(call); obj != nil && (funcIs(obj, "strings", "", "Compare") || funcIs(obj, "cmp", "", "Compare")) {
					textual = true
				}
			}
		}
	}
	if !textual {
		r.Hold(p.FnName(cmp), "comparator", p.Pos(cmp.Pos()), "versions are not compared as text")
		return
	}
	// all Sprintf calls in the backward slice of stores to WAL.version made from a fresh timestamp
	n := 0
	for _, f := range p.Funcs {
		for _, b := range f.Blocks {
			for _, ins := range b.Instrs {
				st, ok := ins.(*ssa.Store)
				if !ok {
					continue
				}
				if fv, _ := fieldOfAddr(st.Addr); fv != ver {
					continue
				}
				var calls []*ssa.Call
				collectCalls(p, st.Val, 0, map[ssa.Value]bool{}, &calls)
				for _, call := range calls {
					obj := p.ExtCallee(call)
					if obj == nil {
						continue
					}
					fn, pos := p.FnName(f), p.Pos(instrPos(call))
					if funcIs(obj, "fmt", "", "Sprintf") {
						format, ok := constString(call.Call.Args[0])
						if !ok {
							r.Undecided(fn, "Sprintf", pos, "format of the version string is not a constant")
							continue
						}
						argTypes := variadicArgTypes(call)
						ai := 0
						for _, m := range verbRe.FindAllStringSubmatch(format, -1) {
							flags, width, verb := m[1], m[2], m[3]
							if verb == "%" {
								continue
							}
							var at types.Type
							if ai < len(argTypes) {
								at = argTypes[ai]
							}
							ai++
							numeric := false
							if at != nil {
								if bt, ok := at.Underlying().(*types.Basic); ok && bt.Info()&types.IsNumeric != 0 {
									numeric = true
								}
							}
							if !numeric {
								continue
							}
							n++
							fixed := width != "" && strings.Contains(flags, "0") && !strings.Contains(flags, "-")
							r.Check(fixed, fn, "verb %"+flags+width+verb, pos, "zero-padded fixed width",
								"a number is formatted with variable width into the wal version, which CompareVersion orders as text: a wal created later in the same second can compare older and is skipped by recovery")
						}
					}
					if funcIs(obj, "time", "Time", "Format") && len(call.Call.Args) > 1 {
						layout, ok := constString(call.Call.Args[1])
						if !ok {
							r.Undecided(fn, "time.Format", pos, "layout is not a constant")
							continue
						}
						n++
						r.Check(fixedWidthLayout(layout), fn, "layout "+layout, pos, "fixed-width layout", "the time layout has variable-width components, text order of versions is not time order")
					}
				}
			}
		}
	}
	if n == 0 {
		r.Undecided("-", "WAL.version", "", "no formatting call found in the provenance of WAL.version")
	}
}

func fixedWidthLayout(l string) bool {
	for _, tok := range []string{"2006", "01", "02", "15", "04", "05", "06", "000000000", "000000", "000", "-0700", "Z0700"} {
		l = strings.ReplaceAll(l, tok, "")
	}
	for _, bad := range []string{"1", "2", "3", "4", "5", "6", "7", "Jan", "Mon", "PM", "pm", "MST", "_", "9"} {
		if strings.Contains(l, bad) {
			return false
		}
	}
	return true
}

func collectCalls(ccProg *Prog, v ssa.Value, depth int, seen map[ssa.Value]bool, out *[]*ssa.Call) {
	if v == nil || depth > 8 || seen[v] {
		return
	}
	seen[v] = true
	switch x := v.(type) {
	case *ssa.Call:
		*out = append(*out, x)
		for _, a := range x.Call.Args {
			collectCalls(ccProg, a, depth+1, seen, out)
		}
	case *ssa.Phi:
		for _, e := range x.Edges {
			collectCalls(ccProg, e, depth+1, seen, out)
		}
	case *ssa.MakeInterface:
		collectCalls(ccProg, x.X, depth+1, seen, out)
	case *ssa.BinOp:
		collectCalls(ccProg, x.X, depth+1, seen, out)
		collectCalls(ccProg, x.Y, depth+1, seen, out)
	case *ssa.Slice:
		collectCalls(ccProg, x.X, depth+1, seen, out)
	case *ssa.Alloc:
		for _, ref := range *x.Referrers() {
			if ia, ok := ref.(*ssa.IndexAddr); ok {
				for _, r2 := range *ia.Referrers() {
					if st, ok := r2.(*ssa.Store); ok {
						collectCalls(ccProg, st.Val, depth+1, seen, out)
					}
				}
			}
			if st, ok := ref.(*ssa.Store); ok && st.Addr == x {
				collectCalls(ccProg, st.Val, depth+1, seen, out)
			}
		}
	case *ssa.Parameter:
		// a constructor that is handed the value (newWAL(path, version, fd)): what its call sites pass
		if ccProg != nil && !ccProg.isExported(x.Parent()) {
			for _, a := range ccProg.callerArgs(x) {
				collectCalls(ccProg, a, depth+1, seen, out)
			}
		}
	case *ssa.UnOp:
		collectCalls(ccProg, x.X, depth+1, seen, out)
	case *ssa.Extract:
		collectCalls(ccProg, x.Tuple, depth+1, seen, out)
	case *ssa.Convert:
		collectCalls(ccProg, x.X, depth+1, seen, out)
	case *ssa.ChangeType:
		collectCalls(ccProg, x.X, depth+1, seen, out)
	}
}

// variadicArgTypes: static types of the values passed in the variadic ...any of a Sprintf-like call.
func variadicArgTypes(call *ssa.Call) []types.Type {
	args := call.Call.Args
	if len(args) < 2 {
		return nil
	}
	var out []types.Type
	sl, ok := args[len(args)-1].(*ssa.Slice)
	if !ok {
		return nil
	}
	al, ok := sl.X.(*ssa.Alloc)
	if !ok {
		return nil
	}
	type kv struct {
		idx int64
		t   types.Type
	}
	var items []kv
	for _, ref := range *al.Referrers() {
		ia, ok := ref.(*ssa.IndexAddr)
		if !ok {
			continue
		}
		idx, _ := constInt(ia.Index)
		for _, r2 := range *ia.Referrers() {
			if st, ok := r2.(*ssa.Store); ok {
				items = append(items, kv{idx, stripValue(st.Val).Type()})
			}
		}
	}
	sort.Slice(items, func(i, j int) bool { return items[i].idx < items[j].idx })
	for _, it := range items {
		out = append(out, it.t)
	}
	return out
}

func runLexnumSort(c *Ctx, r *RuleRun) {
	p := c.P
	parsesNumber := func(ins ssa.Instruction) bool {
		call, ok := ins.(*ssa.Call)
		if !ok {
			return false
		}
		obj := p.ExtCallee(call)
		if obj == nil {
			return false
		}
		if funcIs(obj, "strconv", "", "Atoi") || funcIs(obj, "strconv", "", "ParseInt") || funcIs(obj, "strconv", "", "ParseUint") {
			return true
		}
		if funcIs(obj, "fmt", "", "Sscanf") && len(call.Call.Args) > 1 {
			if f, ok := constString(call.Call.Args[1]); ok && strings.Contains(f, "%d") {
				return true
			}
		}
		return false
	}
	for _, f := range p.Funcs {
		if strings.HasSuffix(p.Fset.Position(f.Pos()).Filename, "_test.go") {
			continue
		}
		for _, b := range f.Blocks {
			for _, ins := range b.Instrs {
				call, ok := ins.(*ssa.Call)
				if !ok {
					continue
				}
				obj := p.CalleeObj(call)
				if obj == nil || obj.Pkg() == nil {
					continue
				}
				isTextSort := (obj.Pkg().Path() == "slices" && obj.Name() == "Sort") || (obj.Pkg().Path() == "sort" && obj.Name() == "Strings")
				if !isTextSort || len(call.Call.Args) == 0 {
					continue
				}
				sl, ok := call.Call.Args[0].Type().Underlying().(*types.Slice)
				if !ok {
					continue
				}
				if bt, ok := sl.Elem().Underlying().(*types.Basic); !ok || bt.Info()&types.IsString == 0 {
					continue
				}
				// elements of the sorted slice flowing into calls whose callee parses numbers
				sorted := call.Call.Args[0]
				bad := ""
				for _, elem := range sliceElemUses(sorted) {
					// the element itself (or a piece of it) is what gets parsed - not merely "a parser is reachable"
					if at := flowsToCall(p, elem, parsesNumber, 0, map[ssa.Value]bool{}); at != nil {
						bad = p.Pos(instrPos(at))
					}
				}
				r.Check(bad == "", p.FnName(f), "text-sort", p.Pos(instrPos(call)), "elements are not parsed as numbers",
					"names are sorted as text but their numeric parts (parsed at "+bad+") define the order of the tables: 0-10.db sorts before 0-2.db")
			}
		}
	}
}

// sliceElemUses: values that are elements of the slice value sl (loads of IndexAddr on the same underlying variable).
func sliceElemUses(sl ssa.Value) []ssa.Value {
	var out []ssa.Value
	// the slice is usually a load of a local cell or a phi; collect all loads/phis of the same cell
	srcs := map[ssa.Value]bool{sl: true}
	if u, ok := sl.(*ssa.UnOp); ok {
		if al, ok := u.X.(*ssa.Alloc); ok {
			for _, ref := range *al.Referrers() {
				if ld, ok := ref.(*ssa.UnOp); ok && ld.X == al {
					srcs[ld] = true
				}
			}
		}
	}
	// SSA usually lifts the variable: the sorted value and the ranged value are the same phi/value
	work := []ssa.Value{}
	for s := range srcs {
		work = append(work, s)
	}
	seen := map[ssa.Value]bool{}
	for len(work) > 0 {
		v := work[0]
		work = work[1:]
		if seen[v] {
			continue
		}
		seen[v] = true
		for _, ref := range *v.Referrers() {
			switch x := ref.(type) {
			case *ssa.IndexAddr:
				for _, r2 := range *x.Referrers() {
					if ld, ok := r2.(*ssa.UnOp); ok {
						out = append(out, ld)
					}
				}
			case *ssa.Index:
				out = append(out, x)
			case *ssa.Phi:
				work = append(work, x)
			case *ssa.Slice:
				work = append(work, x)
			case *ssa.Range:
				for _, r2 := range *x.Referrers() {
					if nx, ok := r2.(*ssa.Next); ok {
						for _, r3 := range *nx.Referrers() {
							if ex, ok := r3.(*ssa.Extract); ok && ex.Index == 2 {
								out = append(out, ex)
							}
						}
					}
				}
			}
		}
	}
	return out
}

// flowsToCall: the string v - or a string derived from it by slicing, concatenation, conversion or a string-valued
// library call - is an argument of a call satisfying sink, followed through parameters of module functions (four
// levels). Returns the sink call.
func flowsToCall(p *Prog, v ssa.Value, sink InstrPred, depth int, seen map[ssa.Value]bool) ssa.Instruction {
	if v == nil || depth > 4 || seen[v] || v.Referrers() == nil {
		return nil
	}
	seen[v] = true
	for _, ref := range *v.Referrers() {
		switch x := ref.(type) {
		case *ssa.Call:
			if sink(x) {
				return x
			}
			if g := x.Call.StaticCallee(); g != nil && p.InModule(g) && len(g.Blocks) > 0 {
				for i, a := range x.Call.Args {
					if a == v && i < len(g.Params) {
						if at := flowsToCall(p, g.Params[i], sink, depth+1, seen); at != nil {
							return at
						}
					}
				}
				continue
			}
			// a library call that hands back a string (strings.TrimSuffix, path.Base, …): the result is derived
			if isStringType(x.Type()) {
				if at := flowsToCall(p, x, sink, depth, seen); at != nil {
					return at
				}
			}
		case *ssa.Slice, *ssa.Convert, *ssa.ChangeType, *ssa.Phi, *ssa.MakeInterface:
			if at := flowsToCall(p, x.(ssa.Value), sink, depth, seen); at != nil {
				return at
			}
		case *ssa.BinOp:
			if x.Op == token.ADD {
				if at := flowsToCall(p, x, sink, depth, seen); at != nil {
					return at
				}
			}
		case *ssa.Store:
			// spilled into a local cell: the loads of the cell
			if al, ok := x.Addr.(*ssa.Alloc); ok && x.Val == v {
				for _, r2 := range *al.Referrers() {
					if ld, ok := r2.(*ssa.UnOp); ok && ld.X == ssa.Value(al) {
						if at := flowsToCall(p, ld, sink, depth, seen); at != nil {
							return at
						}
					}
				}
			}
		}
	}
	return nil
}
