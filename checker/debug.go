package main

import (
	"fmt"
	"sort"
)

func init() {
	properties = append(properties, &Property{ID: "DBG", Rules: []string{"DBG.LOCKS"}})
	register(&Rule{ID: "DBG.LOCKS", Run: func(c *Ctx, r *RuleRun) {
		la := c.Locks()
		p := c.P
		for role, roots := range la.RoleRoots {
			var ns []string
			for _, f := range roots {
				ns = append(ns, p.FnName(f))
			}
			sort.Strings(ns)
			fmt.Println("role", role, ns)
		}
		for _, op := range la.Ops {
			if op.Unlock {
				continue
			}
			fmt.Printf("acquire %-22s mode=%d in %-40s %s must=%v may=%v roles=%v\n", op.Lock, op.Mode, p.FnName(op.Fn), p.Pos(instrPos(op.Ins)), la.Must[op.Ins], la.May[op.Ins], la.RoleNames(op.Fn))
		}
		for _, b := range la.BlockingOps() {
			fmt.Printf("blocking %-7s %-30s in %-40s %s may=%v roles=%v\n", b.Kind, b.Chan, p.FnName(b.Fn), p.Pos(instrPos(b.Ins)), la.May[b.Ins], la.RoleNames(b.Fn))
		}
	}})
}

func init() {
	properties = append(properties, &Property{ID: "DBGR", Rules: []string{"RACE.FIELDS"}})
}

func init() {
	properties = append(properties, &Property{ID: "DBGD", Rules: []string{"DUR.APPEND", "DUR.SYNCERR", "DUR.ACK", "ATOMIC.APPEND", "DUR.REMOVE", "DUR.PUBLISH", "DUR.SIB", "DUR.TORN", "LEXNUM.WAL", "LEXNUM.SORT"}})
}

func init() {
	properties = append(properties, &Property{ID: "DBGL", Rules: []string{"LIVE.ORDER", "LIVE.WAIT", "LIVE.BALANCE", "LIVE.PAIR"}})
}

func init() {
	properties = append(properties, &Property{ID: "DBGC", Rules: []string{"CODEC.POOL", "CODEC.SEQ", "CODEC.NARROW", "CODEC.PREFIX"}})
}

func init() {
	properties = append(properties, &Property{ID: "DBGT", Rules: []string{"SNAP.TS", "SNAP.BEGIN", "SNAP.COMMIT", "SNAP.GC", "SNAP.DONE", "SER.SECTION", "SER.TS", "CONF.READFP", "CONF.WRITEFP", "CONF.ORDER", "CONF.REFUSED", "CONF.WINDOW", "TRACE.CONFINE", "TRACE.UPDATE", "TRACE.MISUSE"}})
}

func init() {
	properties = append(properties, &Property{ID: "DBGW", Rules: []string{"WM.WRITER", "WM.MONO", "WM.ADVANCE", "WM.SIGN", "WM.WAIT"}})
}
