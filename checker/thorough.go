package main

// Thorough tier: (a) the same rules under other build configurations (GOARCH=386, arm64, -tags verif);
// (b) the self-test corpus of variants.go, applied in memory, both directions.

import (
	"encoding/json"
	"fmt"
	"os"
	"path/filepath"
	"sort"
	"strings"
	"sync"
)

type variantOutcome struct {
	ID      string   `json:"id"`
	Expect  string   `json:"expect"`
	Outcome string   `json:"outcome"` // killed, missed, silent-ok, false-alarm, skipped, discarded
	Rules   []string `json:"rules_reporting,omitempty"`
	Detail  string   `json:"detail,omitempty"`
}

func inList(xs []string, x string) bool {
	for _, y := range xs {
		if y == x {
			return true
		}
	}
	return false
}

func thoroughExtras(c *Ctx, pr *Property, repo, verif string) (map[string]any, []RuleResult) {
	extra := map[string]any{}
	var more []RuleResult

	// (a) other build configurations: violations there count like any other
	type cfg struct{ arch, tags, label string }
	var cfgNotes []string
	for _, cf := range []cfg{{"386", "", "GOARCH=386"}, {"arm64", "", "GOARCH=arm64"}, {"", "verif", "tags=verif"}} {
		p2, err := Load(LoadOpts{Dir: repo, GOARCH: cf.arch, Tags: cf.tags})
		if err != nil {
			more = append(more, RuleResult{Rule: "CONFIG@" + cf.label, Engine: "loader", Desc: "the tree loads and type-checks under " + cf.label,
				Instances: []Instance{{Rule: "CONFIG@" + cf.label, Func: "-", Construct: "load", Verdict: Undecided, Detail: err.Error()}}})
			continue
		}
		c2 := &Ctx{P: p2, Tier: "thorough", memo: map[string]any{}}
		nv := 0
		for _, id := range pr.Rules {
			rr := runRule(c2, id)
			rr.Rule = id + "@" + cf.label
			for i := range rr.Instances {
				rr.Instances[i].Rule = rr.Rule
				if rr.Instances[i].Verdict == Violation {
					nv++
				}
			}
			more = append(more, rr)
		}
		cfgNotes = append(cfgNotes, fmt.Sprintf("%s: %d packages, %d functions, %d violations", cf.label, len(p2.Pkgs), len(p2.Funcs), nv))
	}
	extra["build_configurations"] = append([]string{"host (amd64)"}, cfgNotes...)

	// (b) self-test
	var mine []Variant
	for _, v := range variants {
		if inList(v.Props, pr.ID) {
			mine = append(mine, v)
		}
	}
	outcomes := make([]variantOutcome, len(mine))
	var wg sync.WaitGroup
	sem := make(chan struct{}, 5)
	for i, v := range mine {
		wg.Add(1)
		go func(i int, v Variant) {
			defer wg.Done()
			sem <- struct{}{}
			defer func() { <-sem }()
			outcomes[i] = runVariant(pr, v, repo)
		}(i, v)
	}
	wg.Wait()
	// the stored seeded changes that target this property, replayed in memory on the current tree
	seeds := seedsFor(pr.ID, verif)
	seedOut := make([]variantOutcome, len(seeds))
	for i, sm := range seeds {
		wg.Add(1)
		go func(i int, sm seedMeta) {
			defer wg.Done()
			sem <- struct{}{}
			defer func() { <-sem }()
			seedOut[i] = runSeed(pr, sm, repo, verif)
		}(i, sm)
	}
	wg.Wait()
	outcomes = append(outcomes, seedOut...)
	// the stored behaviour-preserving refactorings: every rule of the property must stay silent on each
	refs, _ := filepath.Glob(filepath.Join(verif, "refactors", "*.diff"))
	sort.Strings(refs)
	refOut := make([]variantOutcome, len(refs))
	for i, rf := range refs {
		wg.Add(1)
		go func(i int, rf string) {
			defer wg.Done()
			sem <- struct{}{}
			defer func() { <-sem }()
			refOut[i] = runRefactor(pr, rf, repo)
		}(i, rf)
	}
	wg.Wait()
	outcomes = append(outcomes, refOut...)
	// a sample of the mutation corpus (mutation/corpus.jsonl: syntactic mutants of the reference tree that pass the
	// project's test suite and were reported for this property when the corpus was built): each must still be reported
	muts := mutantsFor(pr.ID, verif, 40)
	mutOut := make([]variantOutcome, len(muts))
	for i, m := range muts {
		wg.Add(1)
		go func(i int, m corpusMutant) {
			defer wg.Done()
			sem <- struct{}{}
			defer func() { <-sem }()
			mutOut[i] = runMutant(pr, m, repo)
		}(i, m)
	}
	wg.Wait()
	outcomes = append(outcomes, mutOut...)
	tally := map[string]int{}
	for _, o := range outcomes {
		tally[o.Outcome]++
	}
	extra["selftest"] = map[string]any{
		"note":     "variants of /repo's current source applied in memory (packages.Config.Overlay); 'killed' = a seeded break was reported, 'silent-ok' = a behaviour-preserving rewrite was not; 'missed' and 'false-alarm' are defects of the checker and do not change the verdict on /repo",
		"variants": len(mine), "seeded_changes": len(seeds), "refactorings": len(refs), "mutants": len(muts), "tally": tally, "outcomes": outcomes,
	}
	var bad []string
	for _, o := range outcomes {
		if o.Outcome == "missed" || o.Outcome == "false-alarm" {
			bad = append(bad, o.ID+":"+o.Outcome)
		}
	}
	sort.Strings(bad)
	if len(bad) > 0 {
		fmt.Fprintf(os.Stderr, "selftest %s: %v\n", pr.ID, bad)
	}
	fmt.Printf("%s selftest: %d variants + %d seeded changes + %d refactorings + %d mutants %v\n", pr.ID, len(mine), len(seeds), len(refs), len(muts), tally)
	return extra, more
}

func runSeed(pr *Property, sm seedMeta, repo, verif string) variantOutcome {
	out := variantOutcome{ID: "seed:" + sm.Seed, Expect: "fire (any rule of " + pr.ID + ")"}
	ov, err := seedOverlay(repo, verif, sm.Seed)
	if err != nil {
		out.Outcome, out.Detail = "skipped", err.Error()
		return out
	}
	p2, err := Load(LoadOpts{Dir: repo, Overlay: ov})
	if err != nil {
		out.Outcome, out.Detail = "discarded", "does not type-check on the current tree: "+err.Error()
		return out
	}
	c2 := &Ctx{P: p2, Tier: "thorough", memo: map[string]any{}}
	n, u := 0, 0
	for _, id := range pr.Rules {
		for _, in := range runRule(c2, id).Instances {
			if in.Verdict == Violation {
				n++
				if !inList(out.Rules, id) {
					out.Rules = append(out.Rules, id)
				}
			}
			if in.Verdict == Undecided {
				u++
				if !inList(out.Rules, id+"(undecided)") {
					out.Rules = append(out.Rules, id+"(undecided)")
				}
			}
		}
	}
	switch {
	case n > 0:
		out.Outcome = "killed"
	case u > 0:
		out.Outcome = "undecided" // the check fails closed (exit 2) without naming a violation
	default:
		out.Outcome = "missed"
	}
	return out
}

type corpusMutant struct {
	ID     string   `json:"id"`
	File   string   `json:"file"`
	Line   int      `json:"line"`
	Func   string   `json:"func"`
	Op     string   `json:"op"`
	Start  int      `json:"start"`
	Old    string   `json:"old"`
	New    string   `json:"new"`
	Alarms []string `json:"alarms"`
	// Always: replayed in every thorough run of its properties, not only when the sample hits it (the mutants that
	// were found unreported when the silent survivors were read, mutation/SURVIVORS.md)
	Always bool `json:"always"`
}

// mutantsFor: a deterministic sample (every k-th) of the corpus mutants that were reported for the property.
func mutantsFor(prop, verif string, max int) []corpusMutant {
	b, err := os.ReadFile(filepath.Join(verif, "mutation", "corpus.jsonl"))
	if err != nil {
		return nil
	}
	var all []corpusMutant
	for _, line := range strings.Split(string(b), "\n") {
		if strings.TrimSpace(line) == "" {
			continue
		}
		var m corpusMutant
		if json.Unmarshal([]byte(line), &m) == nil && inList(m.Alarms, prop) {
			all = append(all, m)
		}
	}
	if len(all) <= max {
		return all
	}
	var out []corpusMutant
	picked := map[string]bool{}
	for i := 0; i < max; i++ {
		m := all[i*len(all)/max]
		out = append(out, m)
		picked[m.ID] = true
	}
	for _, m := range all {
		if m.Always && !picked[m.ID] {
			out = append(out, m)
		}
	}
	return out
}

func runMutant(pr *Property, m corpusMutant, repo string) variantOutcome {
	out := variantOutcome{ID: fmt.Sprintf("mutant:%s %s:%d %s %s", m.ID, m.File, m.Line, m.Func, m.Op), Expect: "fire (any rule of " + pr.ID + ")"}
	path := filepath.Join(repo, m.File)
	src, err := os.ReadFile(path)
	if err != nil || m.Start+len(m.Old) > len(src) || string(src[m.Start:m.Start+len(m.Old)]) != m.Old {
		out.Outcome, out.Detail = "skipped", "the mutated text is no longer at its place in the current tree"
		return out
	}
	mutated := string(src[:m.Start]) + m.New + string(src[m.Start+len(m.Old):])
	p2, err := Load(LoadOpts{Dir: repo, Overlay: map[string][]byte{path: []byte(mutated)}})
	if err != nil {
		out.Outcome, out.Detail = "discarded", "does not type-check on the current tree"
		return out
	}
	c2 := &Ctx{P: p2, Tier: "thorough", memo: map[string]any{}}
	for _, id := range pr.Rules {
		for _, in := range runRule(c2, id).Instances {
			if in.Verdict != Hold && !inList(out.Rules, id) {
				out.Rules = append(out.Rules, id)
			}
		}
	}
	if len(out.Rules) > 0 {
		out.Outcome = "killed"
	} else {
		out.Outcome = "missed"
	}
	return out
}

func runRefactor(pr *Property, diff, repo string) variantOutcome {
	out := variantOutcome{ID: "refactor:" + strings.TrimSuffix(filepath.Base(diff), ".diff"), Expect: "silent"}
	ov, err := diffOverlay(repo, diff)
	if err != nil {
		out.Outcome, out.Detail = "skipped", err.Error()
		return out
	}
	p2, err := Load(LoadOpts{Dir: repo, Overlay: ov})
	if err != nil {
		out.Outcome, out.Detail = "discarded", "does not type-check on the current tree: "+err.Error()
		return out
	}
	c2 := &Ctx{P: p2, Tier: "thorough", memo: map[string]any{}}
	for _, id := range pr.Rules {
		for _, in := range runRule(c2, id).Instances {
			if in.Verdict != Hold && !inList(out.Rules, id) {
				out.Rules = append(out.Rules, id)
			}
		}
	}
	if len(out.Rules) == 0 {
		out.Outcome = "silent-ok"
	} else {
		out.Outcome = "false-alarm"
	}
	return out
}

func runVariant(pr *Property, v Variant, repo string) variantOutcome {
	out := variantOutcome{ID: v.ID, Expect: "silent"}
	if v.Fire != "" {
		out.Expect = "fire " + v.Fire
	}
	path := filepath.Join(repo, v.File)
	src, err := os.ReadFile(path)
	if err != nil {
		out.Outcome, out.Detail = "skipped", err.Error()
		return out
	}
	if n := strings.Count(string(src), v.Old); n != 1 {
		out.Outcome, out.Detail = "skipped", fmt.Sprintf("anchor text occurs %d times in %s", n, v.File)
		return out
	}
	mutated := strings.Replace(string(src), v.Old, v.New, 1)
	arch := ""
	fire := v.Fire
	if i := strings.Index(fire, "@GOARCH="); i >= 0 {
		arch = fire[i+len("@GOARCH="):]
		fire = fire[:i]
	}
	p2, err := Load(LoadOpts{Dir: repo, GOARCH: arch, Overlay: map[string][]byte{path: []byte(mutated)}})
	if err != nil {
		out.Outcome, out.Detail = "discarded", "variant does not type-check: "+err.Error()
		return out
	}
	c2 := &Ctx{P: p2, Tier: "thorough", memo: map[string]any{}}
	reporting := map[string]bool{}
	undecided := false
	for _, id := range pr.Rules {
		rr := runRule(c2, id)
		for _, in := range rr.Instances {
			if in.Verdict == Violation {
				reporting[id] = true
			}
			if in.Verdict == Undecided {
				undecided = true
				reporting[id+"(undecided)"] = true
			}
		}
	}
	for r := range reporting {
		out.Rules = append(out.Rules, r)
	}
	sort.Strings(out.Rules)
	nViol := 0
	for r := range reporting {
		if !strings.HasSuffix(r, "(undecided)") {
			nViol++
		}
	}
	if v.Fire == "" {
		if nViol == 0 && !undecided {
			out.Outcome = "silent-ok"
		} else {
			out.Outcome = "false-alarm"
		}
		return out
	}
	switch {
	case inList(pr.Rules, fire) && reporting[fire]:
		out.Outcome = "killed"
	case !inList(pr.Rules, fire) && nViol > 0:
		out.Outcome = "killed"
	default:
		out.Outcome = "missed"
	}
	return out
}
