package main

func thoroughExtras(c *Ctx, pr *Property, repo, verif string) (map[string]any, []RuleResult) {
	return nil, nil
}
