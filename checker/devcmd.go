package main

// Development helper: `ogcheck variant <variant-id> <property> [-repo dir]` prints the outcome of one self-test variant.

import (
	"fmt"
	"os"
)

func variantMain(args []string) int {
	if len(args) < 2 {
		fmt.Fprintln(os.Stderr, "usage: ogcheck variant <variant-id> <property> [repo]")
		return 2
	}
	repo := "/repo"
	if len(args) > 2 {
		repo = args[2]
	}
	var pr *Property
	for _, q := range properties {
		if q.ID == args[1] {
			pr = q
		}
	}
	if pr == nil {
		fmt.Fprintln(os.Stderr, "unknown property")
		return 2
	}
	for _, v := range variants {
		if v.ID == args[0] {
			o := runVariant(pr, v, repo)
			fmt.Printf("%s expect=%q outcome=%s rules=%v detail=%s\n", v.ID, o.Expect, o.Outcome, o.Rules, o.Detail)
			return 0
		}
	}
	fmt.Fprintln(os.Stderr, "unknown variant")
	return 2
}
