package main

// E-PATH: path queries over the SSA control-flow graph of one function, with interprocedural event predicates.
// "A happens before B on every path" == no path from the entry to B that avoids A.
// "after A, B happens before the function returns" == no path from A to a return that avoids B.
// Paths end at no-return calls (panic, Panicf, os.Exit); the recover block is not entered.

import (
	"fmt"

	"golang.org/x/tools/go/ssa"
)

type InstrPred func(ins ssa.Instruction) bool

type PathQuery struct {
	P  *Prog
	Fn *ssa.Function
	// Starts: instructions after which the search starts; nil = function entry
	Starts []ssa.Instruction
	Avoid  InstrPred
	Target InstrPred
	// EdgeOK restricts which branch edges may be taken (nil = all)
	EdgeOK func(b *ssa.BasicBlock, succ int) bool
	// SuccessOnly: edges into a return block on which the returned error (a phi of that block: single-exit functions
	// with a result variable) is definitely non-nil are not taken - such a path is not a path to a success return
	SuccessOnly bool
}

// errEdgeNonNil: the edge b -> b.Succs[si] enters a block that returns an error phi whose value on this edge cannot be nil.
func errEdgeNonNil(b *ssa.BasicBlock, si int) bool {
	s := b.Succs[si]
	if len(s.Instrs) == 0 {
		return false
	}
	ret, ok := s.Instrs[len(s.Instrs)-1].(*ssa.Return)
	if !ok {
		return false
	}
	idx := errResultIndex(ret.Parent().Signature)
	if idx < 0 {
		return false
	}
	ph, ok := retOperand(ret, idx).(*ssa.Phi)
	if !ok || ph.Block() != s {
		return false
	}
	k := -1
	for i, pb := range s.Preds {
		if pb == b {
			if k >= 0 {
				return false // both arms of a branch lead here: the edge is ambiguous
			}
			k = i
		}
	}
	if k < 0 || k >= len(ph.Edges) {
		return false
	}
	return !mayBeNilError(ph.Edges[k], map[ssa.Value]bool{})
}

// FindPath returns a witness path (instructions with positions, abbreviated) or nil if no such path exists.
func (q PathQuery) FindPath() []ssa.Instruction {
	type node struct {
		b *ssa.BasicBlock
		i int
	}
	prev := map[node]node{}
	seen := map[node]bool{}
	var queue []node
	push := func(n, from node) {
		if !seen[n] {
			seen[n] = true
			prev[n] = from
			queue = append(queue, n)
		}
	}
	root := node{nil, -1}
	if q.Starts == nil {
		if len(q.Fn.Blocks) == 0 {
			return nil
		}
		push(node{q.Fn.Blocks[0], 0}, root)
	} else {
		for _, s := range q.Starts {
			// start after s; if s is a no-return call nothing follows
			if ci, ok := s.(*ssa.Call); ok && q.P.CallNoReturn(ci) {
				continue
			}
			push(node{s.Block(), instrIndex(s) + 1}, root)
		}
	}
	for len(queue) > 0 {
		n := queue[0]
		queue = queue[1:]
		if n.i >= len(n.b.Instrs) {
			// a start placed after the last instruction of its block: continue with the successors
			for si, sb := range n.b.Succs {
				if q.EdgeOK != nil && !q.EdgeOK(n.b, si) {
					continue
				}
				if q.SuccessOnly && errEdgeNonNil(n.b, si) {
					continue
				}
				push(node{sb, 0}, n)
			}
			continue
		}
		ins := n.b.Instrs[n.i]
		if q.Avoid != nil && q.Avoid(ins) {
			continue
		}
		if q.Target != nil && q.Target(ins) {
			// reconstruct
			var path []ssa.Instruction
			for cur := n; cur.b != nil; cur = prev[cur] {
				if cur.i < len(cur.b.Instrs) {
					path = append(path, cur.b.Instrs[cur.i])
				}
			}
			for l, r := 0, len(path)-1; l < r; l, r = l+1, r-1 {
				path[l], path[r] = path[r], path[l]
			}
			return path
		}
		if ci, ok := ins.(*ssa.Call); ok && q.P.CallNoReturn(ci) {
			continue
		}
		if n.i+1 < len(n.b.Instrs) {
			push(node{n.b, n.i + 1}, n)
			continue
		}
		for si, s := range n.b.Succs {
			if q.EdgeOK != nil && !q.EdgeOK(n.b, si) {
				continue
			}
			if q.SuccessOnly && errEdgeNonNil(n.b, si) {
				continue
			}
			push(node{s, 0}, n)
		}
	}
	return nil
}

// describePath renders a witness path as source positions of its interesting instructions.
func (p *Prog) describePath(path []ssa.Instruction) []string {
	var out []string
	last := ""
	for _, ins := range path {
		switch ins.(type) {
		case *ssa.Call, *ssa.If, *ssa.Return, *ssa.Store, *ssa.Send, *ssa.Defer, *ssa.Go, *ssa.RunDefers, *ssa.Panic, *ssa.Select:
		default:
			continue
		}
		if !ins.Pos().IsValid() {
			if _, isRet := ins.(*ssa.Return); !isRet {
				continue
			}
		}
		s := fmt.Sprintf("%s: %s", p.Pos(instrPos(ins)), shortInstr(ins))
		if s != last {
			out = append(out, s)
		}
		last = s
	}
	if len(out) > 14 {
		out = append(append([]string{}, out[:6]...), append([]string{"..."}, out[len(out)-7:]...)...)
	}
	return out
}

func shortInstr(ins ssa.Instruction) string {
	s := ins.String()
	if len(s) > 90 {
		s = s[:90] + "…"
	}
	return s
}

func isReturn(ins ssa.Instruction) bool {
	_, ok := ins.(*ssa.Return)
	return ok
}

// ---- interprocedural predicates ----

// MayReach: the call site may (transitively, through module functions; go statements included) execute an
// instruction satisfying pred.
func (p *Prog) SiteMayReach(site ssa.CallInstruction, pred InstrPred) bool {
	for _, g := range p.Callees(site) {
		if p.FuncMayDo(g, pred) {
			return true
		}
	}
	return false
}

func (p *Prog) FuncMayDo(f *ssa.Function, pred InstrPred) bool {
	for g := range p.Reach(f) {
		for _, b := range g.Blocks {
			for _, ins := range b.Instrs {
				if pred(ins) {
					return true
				}
			}
		}
	}
	return false
}

// MustDo computes, for a family of "event" instructions, whether a function performs the event on every path from its
// entry to a normal return (success-only when onlySuccess: returns whose error result is the nil constant).
type MustDo struct {
	P     *Prog
	Event InstrPred
	memo  map[*ssa.Function]int // 1 yes 2 no 3 in progress
}

func NewMustDo(p *Prog, ev InstrPred) *MustDo {
	return &MustDo{P: p, Event: ev, memo: map[*ssa.Function]int{}}
}

// Instr: executing ins guarantees the event (the instruction is the event, or a call all of whose callees must do it).
func (m *MustDo) Instr(ins ssa.Instruction) bool {
	if m.Event(ins) {
		return true
	}
	switch x := ins.(type) {
	case *ssa.Call, *ssa.Defer:
		// a deferred call runs before the function returns: for "… happens before the return" queries the defer
		// statement is as good as the call
		cs := m.P.Callees(x.(ssa.CallInstruction))
		if len(cs) == 0 {
			return false
		}
		for _, g := range cs {
			if !m.Func(g) {
				return false
			}
		}
		return true
	}
	return false
}

func (m *MustDo) Func(f *ssa.Function) bool {
	switch m.memo[f] {
	case 1:
		return true
	case 2:
		return false
	case 3:
		return false // recursion: conservative
	}
	m.memo[f] = 3
	q := PathQuery{P: m.P, Fn: f, Avoid: m.Instr, Target: isReturn}
	ok := q.FindPath() == nil
	// deferred calls run at returns: if a deferred call must do the event and its defer statement is on every path, fine;
	// handled by treating RunDefers as event when every pending defer... approximated: a Defer instruction whose callee must
	// do the event counts at the point of the defer statement (it will run before the function returns).
	if ok {
		m.memo[f] = 1
	} else {
		m.memo[f] = 2
	}
	return ok
}

// successReturn: a Return whose trailing error result is the nil constant (or the function has no error result).
func successReturn(ins ssa.Instruction) bool {
	ret, ok := ins.(*ssa.Return)
	if !ok {
		return false
	}
	sig := ret.Parent().Signature
	idx := errResultIndex(sig)
	if idx < 0 {
		return true
	}
	v := ret.Results[idx]
	return mayBeNilError(v, map[ssa.Value]bool{})
}

// mayBeNilError: can the returned error value be nil? Constants: only nil. Phis: any edge. Calls/loads: unknown -> yes.
// A value that is tested `!= nil` on the only path to the return is handled by callers through edge filters.
func mayBeNilError(v ssa.Value, seen map[ssa.Value]bool) bool {
	if seen[v] {
		return false
	}
	seen[v] = true
	switch x := v.(type) {
	case *ssa.Const:
		return x.IsNil()
	case *ssa.Phi:
		for _, e := range x.Edges {
			if mayBeNilError(e, seen) {
				return true
			}
		}
		return false
	case *ssa.MakeInterface:
		return false
	case *ssa.Call:
		// constructors of errors never return nil
		if f := x.Call.StaticCallee(); f != nil && f.Pkg != nil {
			switch f.Pkg.Pkg.Path() + "." + f.Name() {
			case "fmt.Errorf", "errors.New":
				return false
			}
		}
		return true
	case *ssa.UnOp:
		// load of a global error variable (ErrFoo): non-nil
		if g, ok := x.X.(*ssa.Global); ok {
			_ = g
			return false
		}
		return true
	}
	return true
}

// definitelyNonNilAt: v was tested non-nil on every path to ins (ins is dominated by the non-nil edge of a test of v).
func definitelyNonNilAt(v ssa.Value, at ssa.Instruction) bool {
	for _, a := range cellAliases(v) {
		refs := a.Referrers()
		if refs == nil {
			continue
		}
		for _, ref := range *refs {
			bo, ok := ref.(*ssa.BinOp)
			if !ok {
				continue
			}
			for _, r2 := range *bo.Referrers() {
				iff, ok := r2.(*ssa.If)
				if !ok {
					continue
				}
				tv, nilSucc, ok := nilTestCond(iff.Cond)
				if !ok || tv != a {
					continue
				}
				nonNil := iff.Block().Succs[1-nilSucc]
				// the edge must be the only way into nonNil for dominance to imply the test
				if len(nonNil.Preds) == 1 && nonNil != iff.Block().Succs[nilSucc] && (nonNil == at.Block() || nonNil.Dominates(at.Block())) {
					return true
				}
			}
		}
	}
	return false
}

// cellAliases: v and the loads of local cells into which v was stored (an error variable that is captured by a deferred
// closure, or a named result, lives in a cell: `*cell = v; t = *cell; if t != nil`). A load counts when the store of v
// dominates it and no other store to the cell lies between them on the dominator path (approximated: the store is the
// last one to the cell that dominates the load).
func cellAliases(v ssa.Value) []ssa.Value {
	out := []ssa.Value{v}
	seen := map[ssa.Value]bool{v: true}
	add := func(x ssa.Value) {
		if x != nil && !seen[x] {
			seen[x] = true
			out = append(out, x)
		}
	}
	storesTo := func(al *ssa.Alloc) []*ssa.Store {
		var ss []*ssa.Store
		for _, r := range *al.Referrers() {
			if s2, ok := r.(*ssa.Store); ok && s2.Addr == al {
				ss = append(ss, s2)
			}
		}
		return ss
	}
	// the store whose value a load of the cell sees: the latest store dominating it
	reaching := func(al *ssa.Alloc, ld ssa.Instruction) *ssa.Store {
		var best *ssa.Store
		for _, s2 := range storesTo(al) {
			if dominatesInstr(s2, ld) && (best == nil || dominatesInstr(best, s2)) {
				best = s2
			}
		}
		return best
	}
	loadsSeeing := func(al *ssa.Alloc, st *ssa.Store) {
		for _, r := range *al.Referrers() {
			if ld, ok := r.(*ssa.UnOp); ok && ld.X == al && reaching(al, ld) == st {
				add(ld)
			}
		}
	}
	for i := 0; i < len(out) && i < 16; i++ {
		x := out[i]
		// x is a load of a cell: the stored value and the other loads seeing the same store are the same value
		if ld, ok := x.(*ssa.UnOp); ok {
			if al, ok := ld.X.(*ssa.Alloc); ok {
				if st := reaching(al, ld); st != nil {
					add(st.Val)
					loadsSeeing(al, st)
				}
			}
		}
		// x is stored into a cell: the loads seeing that store
		if refs := x.Referrers(); refs != nil {
			for _, ref := range *refs {
				if st, ok := ref.(*ssa.Store); ok && st.Val == x {
					if al, ok := st.Addr.(*ssa.Alloc); ok {
						loadsSeeing(al, st)
					}
				}
			}
		}
	}
	return out
}

// cellValue: for a load of a local cell (a named result or a variable that go/ssa keeps in memory because a defer or
// a closure can see it), the value of the one store that reaches the load - the latest store to the cell that
// dominates it, provided every other store to the cell also dominates that one or cannot lie between them; any other
// value is returned unchanged.
func cellValue(v ssa.Value) ssa.Value {
	for hops := 0; hops < 4; hops++ {
		ld, ok := v.(*ssa.UnOp)
		if !ok {
			return v
		}
		al, ok := ld.X.(*ssa.Alloc)
		if !ok {
			return v
		}
		var best *ssa.Store
		var all []*ssa.Store
		for _, r := range *al.Referrers() {
			if st, ok := r.(*ssa.Store); ok && st.Addr == ssa.Value(al) {
				all = append(all, st)
				if dominatesInstr(st, ld) && (best == nil || dominatesInstr(best, st)) {
					best = st
				}
			}
		}
		if best == nil {
			return v
		}
		// no other store may lie on a path between best and the load: every other store either dominates best (it is
		// overwritten) or is not reachable from best before the load (approximated: it does not dominate the load and is
		// not dominated by best)
		for _, st := range all {
			if st == best || dominatesInstr(st, best) {
				continue
			}
			if dominatesInstr(best, st) {
				return v
			}
		}
		v = best.Val
	}
	return v
}

// retOperand resolves the i-th result of a return through the result cell go/ssa uses in functions with defer
// (`*cell = v; rundefers; t = *cell; return t`).
func retOperand(ret *ssa.Return, i int) ssa.Value {
	v := ret.Results[i]
	ld, ok := v.(*ssa.UnOp)
	if !ok {
		return v
	}
	al, ok := ld.X.(*ssa.Alloc)
	if !ok {
		return v
	}
	// last store to the cell before the return, in the same block or the unique chain of predecessors
	b := ret.Block()
	idx := instrIndex(ret)
	for hops := 0; hops < 4 && b != nil; hops++ {
		for k := idx - 1; k >= 0; k-- {
			if st, ok := b.Instrs[k].(*ssa.Store); ok && st.Addr == al {
				return st.Val
			}
		}
		if len(b.Preds) != 1 {
			break
		}
		b = b.Preds[0]
		idx = len(b.Instrs)
	}
	return v
}

// isSuccessReturnAt: a return that can be a success: error result may be nil and was not proven non-nil by a dominating test.
func isSuccessReturn(ins ssa.Instruction) bool {
	ret, ok := ins.(*ssa.Return)
	if !ok {
		return false
	}
	idx := errResultIndex(ret.Parent().Signature)
	if idx < 0 {
		return true
	}
	v := retOperand(ret, idx)
	if !mayBeNilError(v, map[ssa.Value]bool{}) {
		return false
	}
	if _, isConst := v.(*ssa.Const); isConst {
		return true
	}
	if definitelyNonNilAt(v, ins) {
		return false
	}
	// `return abandon(err)`: a helper or closure that hands back the error it was given
	if fw := forwardedErr(v); fw != nil && (!mayBeNilError(fw, map[ssa.Value]bool{}) || definitelyNonNilAt(fw, ins)) {
		return false
	}
	return true
}

// forwardedErr: v is the error result of a call of a function with a body (a helper of the program or a closure) each
// of whose returns answers with one and the same of its parameters, or with an error that is never nil: the argument
// passed for that parameter (the result is non-nil whenever that argument is); nil otherwise.
func forwardedErr(v ssa.Value) ssa.Value {
	var call *ssa.Call
	ridx := 0
	switch x := v.(type) {
	case *ssa.Call:
		call = x
	case *ssa.Extract:
		call, _ = x.Tuple.(*ssa.Call)
		ridx = x.Index
	}
	if call == nil || call.Call.IsInvoke() {
		return nil
	}
	g := call.Call.StaticCallee()
	if g == nil || len(g.Blocks) == 0 || errResultIndex(g.Signature) != ridx {
		return nil
	}
	pi := -1
	for _, b := range g.Blocks {
		if len(b.Instrs) == 0 || b == g.Recover {
			continue
		}
		ret, ok := b.Instrs[len(b.Instrs)-1].(*ssa.Return)
		if !ok {
			continue
		}
		rv := cellValue(retOperand(ret, ridx))
		if pr, isParam := rv.(*ssa.Parameter); isParam {
			k := -1
			for i, q := range g.Params {
				if q == pr {
					k = i
				}
			}
			if k < 0 || (pi >= 0 && pi != k) {
				return nil
			}
			pi = k
			continue
		}
		if mayBeNilError(rv, map[ssa.Value]bool{}) {
			return nil
		}
	}
	if pi < 0 || pi >= len(call.Call.Args) {
		return nil
	}
	return call.Call.Args[pi]
}
