package main

// The container/heap contract of a slice-backed heap.Interface implementation, method by method. Each implementation
// is judged on its own (pointer or value receivers, with or without a temporary copy of the slice), so that rewriting
// one of two sibling implementations does not make them "disagree".

import (
	"go/token"
	"go/types"

	"golang.org/x/tools/go/ssa"
)

// heapContract: does method m (Len, Swap, Push, Pop) of a slice-backed heap do what container/heap requires?
//
//	Len:  returns len(h)
//	Swap: h[i], h[j] = h[j], h[i]
//	Push: *h = append(*h, x.(T))
//	Pop:  returns the last element and stores *h = (*h)[:len-1]
func heapContract(f *ssa.Function, m string) (bool, string) {
	if f == nil || len(f.Params) == 0 || len(f.Blocks) == 0 {
		return false, "no body"
	}
	recv := f.Params[0]
	_, ptrRecv := recv.Type().Underlying().(*types.Pointer)
	// the heap's slice: the value receiver, or a load of the pointer receiver (also through a local copy `old := *h`)
	var isSlice func(v ssa.Value, d int) bool
	isSlice = func(v ssa.Value, d int) bool {
		if d > 4 {
			return false
		}
		if v == ssa.Value(recv) && !ptrRecv {
			return true
		}
		switch x := v.(type) {
		case *ssa.UnOp:
			if x.Op != token.MUL {
				return false
			}
			if x.X == ssa.Value(recv) && ptrRecv {
				return true
			}
			// a spilled receiver or local copy
			if al, ok := x.X.(*ssa.Alloc); ok {
				if sv := singleStore(al); sv != ssa.Value(al) {
					return sv == ssa.Value(recv) && !ptrRecv || isSlice(sv, d+1)
				}
			}
		case *ssa.ChangeType:
			return isSlice(x.X, d+1)
		}
		return false
	}
	elemAt := func(v ssa.Value) (idx ssa.Value, ok bool) {
		// v = load of &slice[idx]  (or slice[idx] for an Index on a value)
		if ld, isLd := v.(*ssa.UnOp); isLd && ld.Op == token.MUL {
			if ia, isIA := ld.X.(*ssa.IndexAddr); isIA && isSlice(ia.X, 0) {
				return ia.Index, true
			}
		}
		return nil, false
	}
	isLenMinus1 := func(v ssa.Value) bool {
		bo, ok := v.(*ssa.BinOp)
		if !ok || bo.Op != token.SUB {
			return false
		}
		if k, isK := constInt(bo.Y); !isK || k != 1 {
			return false
		}
		cl, ok := bo.X.(*ssa.Call)
		if !ok {
			return false
		}
		bi, ok := cl.Call.Value.(*ssa.Builtin)
		return ok && bi.Name() == "len" && isSlice(cl.Call.Args[0], 0)
	}
	switch m {
	case "Len":
		n, good := 0, true
		eachInstr(f, func(ins ssa.Instruction) {
			ret, ok := ins.(*ssa.Return)
			if !ok || len(ret.Results) != 1 {
				return
			}
			n++
			cl, ok := retOperand(ret, 0).(*ssa.Call)
			if !ok {
				good = false
				return
			}
			bi, ok := cl.Call.Value.(*ssa.Builtin)
			if !ok || bi.Name() != "len" || !isSlice(cl.Call.Args[0], 0) {
				good = false
			}
		})
		if n == 0 || !good {
			return false, "Len does not return len(h)"
		}
		return true, ""
	case "Swap":
		if len(f.Params) != 3 {
			return false, "Swap does not take (i, j)"
		}
		i, j := ssa.Value(f.Params[1]), ssa.Value(f.Params[2])
		toI, toJ := false, false
		bad := false
		eachInstr(f, func(ins ssa.Instruction) {
			st, ok := ins.(*ssa.Store)
			if !ok {
				return
			}
			ia, ok := st.Addr.(*ssa.IndexAddr)
			if !ok || !isSlice(ia.X, 0) {
				return
			}
			from, ok := elemAt(st.Val)
			switch {
			case ok && ia.Index == i && from == j:
				toI = true
			case ok && ia.Index == j && from == i:
				toJ = true
			default:
				bad = true
			}
		})
		if !toI || !toJ || bad {
			return false, "Swap does not exchange h[i] and h[j]"
		}
		return true, ""
	case "Push":
		if !ptrRecv || len(f.Params) != 2 {
			return false, "Push needs a pointer receiver and one argument"
		}
		x := ssa.Value(f.Params[1])
		n, good := 0, true
		eachInstr(f, func(ins ssa.Instruction) {
			st, ok := ins.(*ssa.Store)
			if !ok || st.Addr != ssa.Value(recv) {
				return
			}
			n++
			cl, ok := st.Val.(*ssa.Call)
			if !ok {
				good = false
				return
			}
			bi, ok := cl.Call.Value.(*ssa.Builtin)
			if !ok || bi.Name() != "append" || len(cl.Call.Args) != 2 || !isSlice(cl.Call.Args[0], 0) {
				good = false
				return
			}
			if !derivesFrom(cl.Call.Args[1], func(v ssa.Value) bool { return v == x }) {
				good = false
			}
		})
		if n != 1 || !good {
			return false, "Push does not store append(h, x)"
		}
		return true, ""
	case "Pop":
		if !ptrRecv {
			return false, "Pop needs a pointer receiver"
		}
		n, good := 0, true
		eachInstr(f, func(ins ssa.Instruction) {
			switch x := ins.(type) {
			case *ssa.Store:
				if x.Addr != ssa.Value(recv) {
					return
				}
				n++
				sl, ok := x.Val.(*ssa.Slice)
				if !ok || !isSlice(sl.X, 0) || sl.High == nil || !isLenMinus1(sl.High) {
					good = false
					return
				}
				if sl.Low != nil {
					if k, isK := constInt(sl.Low); !isK || k != 0 {
						good = false
					}
				}
			case *ssa.Return:
				if len(x.Results) != 1 {
					return
				}
				v := retOperand(x, 0)
				if mi, ok := v.(*ssa.MakeInterface); ok {
					v = mi.X
				}
				idx, ok := elemAt(v)
				if !ok || !isLenMinus1(idx) {
					good = false
				}
			}
		})
		if n != 1 || !good {
			return false, "Pop does not return the last element and cut it off"
		}
		return true, ""
	}
	return false, "unknown method"
}
