package main

// Return cases: what a function returns, way by way. A function written with early returns has one Return per answer
// and the facts that dominate it; the same function written with a result variable, a flag or named results has one
// Return of phis. returnCases gives both shapes the same reading: one case per way into the return, with the values
// the results have on that way and the facts that hold on it.

import (
	"go/constant"
	"go/token"
	"go/types"

	"golang.org/x/tools/go/ssa"
)

type retCase struct {
	Ret   *ssa.Return
	Vals  []ssa.Value // the results on this way (phis of the return block replaced by their incoming values)
	Facts []Cmp       // dominating facts of the way (edge facts for an expanded phi)
	At    ssa.Instruction
	Zero  *ssa.Alloc      // for the way on which a result cell was never assigned (its zero value is returned): that cell
	To    *ssa.BasicBlock // for a way into a joined return: the block the edge At.Block() -> To enters; nil for a plain return
}

func returnCases(f *ssa.Function) []retCase {
	var out []retCase
	for _, b := range f.Blocks {
		if len(b.Instrs) == 0 || b == f.Recover {
			continue
		}
		ret, ok := b.Instrs[len(b.Instrs)-1].(*ssa.Return)
		if !ok {
			continue
		}
		vals := make([]ssa.Value, len(ret.Results))
		for i := range ret.Results {
			vals[i] = cellValue(retOperand(ret, i))
		}
		for _, c := range expandCells(retCase{Ret: ret, Vals: vals, Facts: factsAt(ret), At: ret}) {
			if c.At == ssa.Instruction(ret) {
				out = append(out, expandCase(c, b, 0)...)
			} else {
				out = append(out, c)
			}
		}
	}
	return out
}

// expandCells: named results of a function that defers live in memory cells. A result that is still a load of such a
// cell at the return (several assignments can be the last one: `if ok { value, found = … }; return`) is split by the
// stores that can reach the return: one case per reaching store with the facts that hold at that store, plus the
// zero value when the return can be reached without any.
func expandCells(c retCase) []retCase {
	pivot := -1
	var cells []*ssa.Alloc
	for i, v := range c.Vals {
		cells = append(cells, nil)
		if ld, ok := v.(*ssa.UnOp); ok && ld.Op == token.MUL {
			if al, ok := ld.X.(*ssa.Alloc); ok {
				cells[i] = al
				pivot = i
			}
		}
	}
	if pivot < 0 {
		return []retCase{c}
	}
	stores, zero := cellWays(cells[pivot], c.Ret)
	if len(stores) == 0 {
		return []retCase{c}
	}
	var out []retCase
	for _, st := range stores {
		nc := retCase{Ret: c.Ret, Facts: factsAt(st), At: st}
		nc.Vals = append([]ssa.Value{}, c.Vals...)
		nc.Vals[pivot] = st.Val
		for j, al := range cells {
			if j == pivot || al == nil {
				continue
			}
			// the companion result assigned together with it: the store to that cell in the same block
			for _, ins := range st.Block().Instrs {
				if s2, ok := ins.(*ssa.Store); ok && s2.Addr == ssa.Value(al) {
					nc.Vals[j] = s2.Val
				}
			}
		}
		out = append(out, nc)
	}
	if zero {
		nc := retCase{Ret: c.Ret, Facts: c.Facts, At: c.Ret, Zero: cells[pivot]}
		nc.Vals = append([]ssa.Value{}, c.Vals...)
		nc.Vals[pivot] = zeroConst(cells[pivot].Type().Underlying().(*types.Pointer).Elem())
		out = append(out, nc)
	}
	return out
}

func zeroConst(t types.Type) ssa.Value {
	if bt, ok := t.Underlying().(*types.Basic); ok {
		switch {
		case bt.Info()&types.IsBoolean != 0:
			return ssa.NewConst(constant.MakeBool(false), t)
		case bt.Info()&types.IsInteger != 0:
			return ssa.NewConst(constant.MakeInt64(0), t)
		case bt.Info()&types.IsString != 0:
			return ssa.NewConst(constant.MakeString(""), t)
		}
	}
	return ssa.NewConst(nil, t)
}

// cellWays: the stores to the cell that can be the last one before `at` (reaching definitions, by a backward walk over
// the blocks), and whether `at` can be reached without any store (the cell then holds its zero value).
func cellWays(cell *ssa.Alloc, at ssa.Instruction) (stores []*ssa.Store, zero bool) {
	seen := map[*ssa.BasicBlock]bool{}
	var walk func(b *ssa.BasicBlock, upto int)
	walk = func(b *ssa.BasicBlock, upto int) {
		for k := upto - 1; k >= 0; k-- {
			if st, ok := b.Instrs[k].(*ssa.Store); ok && st.Addr == ssa.Value(cell) {
				for _, s := range stores {
					if s == st {
						return
					}
				}
				stores = append(stores, st)
				return
			}
			if b.Instrs[k] == ssa.Instruction(cell) {
				zero = true
				return
			}
		}
		if len(b.Preds) == 0 {
			zero = true
			return
		}
		for _, pb := range b.Preds {
			if !seen[pb] {
				seen[pb] = true
				walk(pb, len(pb.Instrs))
			}
		}
	}
	walk(at.Block(), instrIndex(at))
	return
}

// expandCase: if a result is a phi of block b (the block the case is "at"), split the case by predecessor.
func expandCase(c retCase, b *ssa.BasicBlock, depth int) []retCase {
	hasPhi := false
	for _, v := range c.Vals {
		if ph, ok := v.(*ssa.Phi); ok && ph.Block() == b {
			hasPhi = true
		}
	}
	if !hasPhi || depth > 2 || len(b.Preds) < 2 {
		return []retCase{c}
	}
	var out []retCase
	for k, pb := range b.Preds {
		if len(pb.Instrs) == 0 {
			continue
		}
		nc := retCase{Ret: c.Ret, Facts: edgeFacts(pb, b), At: pb.Instrs[len(pb.Instrs)-1], To: b}
		nc.Vals = make([]ssa.Value, len(c.Vals))
		for i, v := range c.Vals {
			nc.Vals[i] = v
			if ph, ok := v.(*ssa.Phi); ok && ph.Block() == b && k < len(ph.Edges) {
				nc.Vals[i] = ph.Edges[k]
			}
		}
		// a merge block in front of the return block that only joins values
		onlyPhis := true
		for _, ins := range pb.Instrs[:len(pb.Instrs)-1] {
			if _, isPhi := ins.(*ssa.Phi); !isPhi {
				onlyPhis = false
			}
		}
		if onlyPhis && len(pb.Succs) == 1 {
			out = append(out, expandCase(nc, pb, depth+1)...)
		} else {
			out = append(out, nc)
		}
	}
	return out
}

// caseHasFact: one of the facts of the case (either orientation) satisfies pred.
func caseHasFact(c retCase, pred func(Cmp) bool) bool {
	for _, f := range c.Facts {
		if pred(f) || pred(f.Flip()) {
			return true
		}
	}
	return false
}

// caseBoolFact: the case's facts establish that a value satisfying match is want.
func caseBoolFact(c retCase, match func(ssa.Value) bool, want bool) bool {
	return caseHasFact(c, func(cm Cmp) bool {
		if cm.Y != nil {
			if cm.Op == "==" && match(cm.X) && isConstBool(cm.Y, want) {
				return true
			}
			if cm.Op == "!=" && match(cm.X) && isConstBool(cm.Y, !want) {
				return true
			}
			return false
		}
		return match(cm.X) && ((cm.Op == "true") == want)
	})
}

// chanCloseOf: the call closes channels - the builtin close(ch), or a closure/helper of the package that closes every
// channel it is handed: a channel parameter, or a (variadic) slice-of-channels parameter it ranges over with an
// unconditional close. Returns the channel (or the slice of channels) as a value of the caller and whether all
// elements of a slice are closed.
func chanCloseOf(p *Prog, call *ssa.Call) (src ssa.Value, all bool, ok bool) {
	if bi, isBi := call.Call.Value.(*ssa.Builtin); isBi {
		if bi.Name() == "close" && len(call.Call.Args) == 1 {
			return call.Call.Args[0], false, true
		}
		return nil, false, false
	}
	h := call.Call.StaticCallee()
	if h == nil || len(h.Blocks) == 0 || h.Pkg != call.Parent().Pkg {
		return nil, false, false
	}
	for i, pr := range h.Params {
		if i >= len(call.Call.Args) {
			break
		}
		isChan := false
		isChanSlice := false
		switch t := pr.Type().Underlying().(type) {
		case *types.Chan:
			isChan = true
		case *types.Slice:
			_, isChanSlice = t.Elem().Underlying().(*types.Chan)
		}
		if !isChan && !isChanSlice {
			continue
		}
		// every close in h takes its channel from this parameter and is not under a data condition
		n, good := 0, true
		eachInstr(h, func(ins ssa.Instruction) {
			c2, isCall := ins.(*ssa.Call)
			if !isCall {
				return
			}
			bi, isBi := c2.Call.Value.(*ssa.Builtin)
			if !isBi || bi.Name() != "close" {
				return
			}
			n++
			fromParam := c2.Call.Args[0] == ssa.Value(pr) || derivesFrom(c2.Call.Args[0], func(x ssa.Value) bool { return x == ssa.Value(pr) })
			if !fromParam || hasFactAny(c2) {
				good = false
			}
		})
		if n == 0 || !good {
			continue
		}
		arg := call.Call.Args[i]
		// a variadic call with explicit elements: wake(m.waiter) → the one element
		if sl, isSl := arg.(*ssa.Slice); isSl && isChanSlice {
			if al, isAl := sl.X.(*ssa.Alloc); isAl {
				var elems []ssa.Value
				for _, ref := range *al.Referrers() {
					if ia, isIA := ref.(*ssa.IndexAddr); isIA {
						for _, r2 := range *ia.Referrers() {
							if st, isSt := r2.(*ssa.Store); isSt {
								elems = append(elems, st.Val)
							}
						}
					}
				}
				if len(elems) == 1 {
					return elems[0], false, true
				}
			}
		}
		return arg, isChanSlice, true
	}
	return nil, false, false
}

// isMaxCell: v is a load of a local cell (a named result or a captured variable) that holds a running maximum: every
// store into the cell is a constant (the start) or a value that the dominating branch showed to be greater than (or
// not smaller than) what the cell held - `if x > m { m = x }` with m in memory.
func isMaxCell(p *Prog, v ssa.Value) bool {
	ld, ok := v.(*ssa.UnOp)
	if !ok || ld.Op != token.MUL {
		return false
	}
	cell, ok := ld.X.(*ssa.Alloc)
	if !ok {
		return false
	}
	guarded := 0
	for _, ref := range *cell.Referrers() {
		st, ok := ref.(*ssa.Store)
		if !ok || st.Addr != ssa.Value(cell) {
			continue
		}
		if _, isConst := st.Val.(*ssa.Const); isConst {
			continue
		}
		x := unconv(st.Val)
		if !hasFact(st, func(cm Cmp) bool {
			if (cm.Op != ">" && cm.Op != ">=") || cm.Y == nil {
				return false
			}
			if unconv(cm.X) != x && !sameReRead(p, unconv(cm.X), x) {
				return false
			}
			old, isLd := unconv(cm.Y).(*ssa.UnOp)
			return isLd && old.Op == token.MUL && old.X == ssa.Value(cell)
		}) {
			// max(cell, x) through the builtin
			if call, isCall := st.Val.(*ssa.Call); isCall {
				if bi, isBi := call.Call.Value.(*ssa.Builtin); isBi && bi.Name() == "max" {
					guarded++
					continue
				}
			}
			return false
		}
		guarded++
	}
	return guarded > 0
}

// resultMayAlias: can what the module function g returns give access to the bytes reachable from its idx-th parameter?
// A value-flow closure inside g from the parameter: re-slices, phis, interface boxes, field/element addresses, loads of
// aliasing types, Buffer.Bytes/Next, append to it, any other call that returns an aliasing type (module callees one
// level further down by the same analysis); copies (bytes.Clone, string conversions, sanitizers) end the flow. A
// store into memory that is not a local cell, a send or a goroutine also count as "may alias" (conservative).
func resultMayAlias(p *Prog, g *ssa.Function, idx, depth int) bool {
	if g == nil || len(g.Blocks) == 0 || idx >= len(g.Params) || depth > 2 {
		return true
	}
	taint := map[ssa.Value]bool{g.Params[idx]: true}
	work := []ssa.Value{g.Params[idx]}
	add := func(v ssa.Value) {
		if v != nil && !taint[v] {
			taint[v] = true
			work = append(work, v)
		}
	}
	for len(work) > 0 {
		v := work[0]
		work = work[1:]
		refs := v.Referrers()
		if refs == nil {
			continue
		}
		for _, ref := range *refs {
			switch x := ref.(type) {
			case *ssa.Return:
				return true
			case *ssa.Send, *ssa.Go, *ssa.MapUpdate, *ssa.MakeClosure:
				return true
			case *ssa.Store:
				if x.Val != v {
					continue
				}
				if al, ok := x.Addr.(*ssa.Alloc); ok {
					add(al)
				} else if base := rootAlloc(x.Addr); base != nil {
					add(base)
				} else {
					return true
				}
			case *ssa.Slice:
				add(x)
			case *ssa.Phi:
				add(x)
			case *ssa.MakeInterface:
				add(x)
			case *ssa.ChangeType:
				add(x)
			case *ssa.ChangeInterface:
				add(x)
			case *ssa.TypeAssert:
				add(x)
			case *ssa.Extract:
				add(x)
			case *ssa.FieldAddr:
				add(x)
			case *ssa.IndexAddr:
				add(x)
			case *ssa.UnOp:
				if x.Op == token.MUL && canAlias(x.Type()) {
					add(x)
				}
			case *ssa.Call:
				if isSanitizer(p, x) {
					continue
				}
				obj := p.CalleeObj(x)
				if obj != nil && obj.Pkg() != nil && obj.Pkg().Path() == "bytes" && len(x.Call.Args) > 0 && x.Call.Args[0] == v {
					if isBufferMethod(obj, "Bytes") || isBufferMethod(obj, "Next") || isBufferMethod(obj, "AvailableBuffer") {
						add(x)
					}
					continue
				}
				if bi, ok := x.Call.Value.(*ssa.Builtin); ok {
					if bi.Name() == "append" && len(x.Call.Args) > 0 && x.Call.Args[0] == v {
						add(x)
					}
					continue
				}
				if !canAlias(x.Type()) {
					continue
				}
				if h := x.Call.StaticCallee(); h != nil && p.InModule(h) && len(h.Blocks) > 0 {
					aliases := false
					for ai, a := range x.Call.Args {
						if a == v && resultMayAlias(p, h, ai, depth+1) {
							aliases = true
						}
					}
					if aliases {
						add(x)
					}
					continue
				}
				add(x)
			}
		}
	}
	return false
}
