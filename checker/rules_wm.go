package main

// C13: the watermark. Guard and ownership facts about the single consumer goroutine.

import (
	"fmt"
	"go/token"
	"go/types"
	"os"

	"golang.org/x/tools/go/ssa"
)

func init() {
	register(&Rule{ID: "WM.WRITER", Engine: "E-CG", Min: 3,
		Desc: "doneUntil is stored only by the single consumer goroutine started in watermark.New; marks are received only there; its bookkeeping never leaves it",
		Run:  runWmWriter})
	register(&Rule{ID: "WM.MONO", Engine: "E-GUARD", Min: 1,
		Desc: "every store doneUntil.Store(x) is dominated by x > y with y read from doneUntil in the same iteration: DoneUntil never decreases",
		Run:  runWmMono})
	register(&Rule{ID: "WM.ADVANCE", Engine: "E-GUARD", Min: 2, Spec: true,
		Desc: "the value stored is the current mark or a heap minimum read in an iteration in which its pending count was not positive: the mark never passes an index begun more often than finished",
		Run:  runWmAdvance})
	register(&Rule{ID: "WM.SIGN", Engine: "E-SIB", Min: 6, Spec: true,
		Desc: "Begin sends done=false, Done sends done=true; the consumer counts +1 for begin and -1 for done; the heap orders ascending and follows the container/heap contract (as its sibling kway.Heap does)",
		Run:  runWmSign})
	register(&Rule{ID: "WM.WAIT", Engine: "E-GUARD+E-PATH", Min: 4,
		Desc: "a waiter channel is closed only when its timestamp is at or below doneUntil; WaitForMark returns nil only on the fast path DoneUntil() >= ts or after its waiter was closed, and the context error when the context ended",
		Run:  runWmWait})
}

type wmAnchors struct {
	process, newFn, begin, done, wait, doneUntilFn *ssa.Function
	fDoneUntil, fMarkC, fTs, fDone, fWaiter        *types.Var
	mirrors                                        map[ssa.Value]bool
}

func wmGet(c *Ctx, r *RuleRun) *wmAnchors {
	p := c.P
	a := &wmAnchors{newFn: p.Fn("pkg/watermark", "", "New"), begin: p.Fn("pkg/watermark", "WaterMark", "Begin"), done: p.Fn("pkg/watermark", "WaterMark", "Done"),
		wait: p.Fn("pkg/watermark", "WaterMark", "WaitForMark"), doneUntilFn: p.Fn("pkg/watermark", "WaterMark", "DoneUntil"),
		fDoneUntil: p.Field("pkg/watermark", "WaterMark", "doneUntil"), fMarkC: p.Field("pkg/watermark", "WaterMark", "markC"),
		fTs: p.Field("pkg/watermark", "mark", "ts"), fDone: p.Field("pkg/watermark", "mark", "done"), fWaiter: p.Field("pkg/watermark", "mark", "waiter")}
	la := c.Locks()
	if len(la.RoleRoots["W"]) == 1 {
		a.process = la.RoleRoots["W"][0]
		// the goroutine may be a thin wrapper (go func() { defer wg.Done(); processMarks(w) }()): the consumer is the
		// function that holds the select loop
		if h := p.directHolder(a.process, func(ins ssa.Instruction) bool { _, ok := ins.(*ssa.Select); return ok }); h != nil {
			a.process = h
		}
	}
	if a.process == nil || a.newFn == nil || a.begin == nil || a.done == nil || a.wait == nil || a.doneUntilFn == nil || a.fDoneUntil == nil || a.fMarkC == nil || a.fTs == nil || a.fDone == nil || a.fWaiter == nil {
		r.Undecided("-", "watermark anchors", "", "watermark.New / the goroutine it starts / WaterMark methods / mark fields not found")
		return nil
	}
	return a
}

// isDoneUntilRead: v is the current value of doneUntil (DoneUntil() or doneUntil.Load()).
func (a *wmAnchors) isDoneUntilRead(p *Prog, v ssa.Value) bool {
	if _, isPhi := v.(*ssa.Phi); isPhi && a.mirrorsOf(p)[v] {
		return true
	}
	call, ok := v.(*ssa.Call)
	if !ok {
		return false
	}
	if callTo(p, call, a.doneUntilFn) != nil {
		return true
	}
	if obj := p.CalleeObj(call); obj != nil && funcIs(obj, "sync/atomic", "Uint64", "Load") && len(call.Call.Args) > 0 {
		fv, _ := fieldOfAddr(call.Call.Args[0])
		return fv == a.fDoneUntil
	}
	return false
}

// mirrorsOf: locals of the consumer that always hold the current value of doneUntil - the consumer is the only writer
// (WM.WRITER), the atomic starts at zero, so a variable that starts at zero and is assigned X after every Store(X)
// equals it. A forward pass over the consumer's blocks tracks "the value known to equal the atomic": the zero
// constant at the entry, X after Store(X), at a join the phi whose edges are exactly the values arriving. A phi is a
// mirror if it is that value at its block and at every one of its uses.
func (a *wmAnchors) mirrorsOf(p *Prog) map[ssa.Value]bool {
	if a.mirrors != nil {
		return a.mirrors
	}
	a.mirrors = map[ssa.Value]bool{}
	f := a.process
	if f == nil || len(f.Blocks) == 0 {
		return a.mirrors
	}
	// no other function stores
	for _, g := range p.Funcs {
		if g != f && len(a.stores(p, g)) > 0 {
			return a.mirrors
		}
	}
	isStore := map[ssa.Instruction]ssa.Value{}
	for _, st := range a.stores(p, f) {
		obj := p.CalleeObj(st)
		if obj == nil || obj.Name() != "Store" || len(st.Call.Args) != 2 {
			return a.mirrors // Add/Swap/CAS: not tracked
		}
		isStore[st] = st.Call.Args[1]
	}
	type state struct {
		known bool // computed at all
		v     ssa.Value
		zero  bool // the initial zero
		bot   bool
	}
	same := func(x state, v ssa.Value) bool {
		if x.bot {
			return false
		}
		if x.zero {
			k, ok := constInt(v)
			return ok && k == 0
		}
		return x.v == v || unconv(x.v) == unconv(v)
	}
	eq := func(x, y state) bool {
		if x.bot || y.bot {
			return x.bot == y.bot
		}
		if x.zero || y.zero {
			if x.zero && y.zero {
				return true
			}
			if x.zero {
				return same(x, y.v)
			}
			return same(y, x.v)
		}
		return x.v == y.v
	}
	in := map[*ssa.BasicBlock]state{}
	out := map[*ssa.BasicBlock]state{}
	transfer := func(b *ssa.BasicBlock, s state) state {
		for _, ins := range b.Instrs {
			if x, ok := isStore[ins]; ok {
				s = state{known: true, v: x}
			}
		}
		return s
	}
	// only a phi each of whose edges can be the tracked value at all is a candidate: the zero it starts with, itself,
	// something that was stored, or another such phi
	storedVal := map[ssa.Value]bool{}
	for _, x := range isStore {
		storedVal[x] = true
		storedVal[unconv(x)] = true
	}
	var plausibleD func(ph *ssa.Phi, seen map[*ssa.Phi]bool) bool
	plausibleD = func(ph *ssa.Phi, seen map[*ssa.Phi]bool) bool {
		if seen[ph] {
			return true
		}
		seen[ph] = true
		for _, e := range ph.Edges {
			if e == ssa.Value(ph) || storedVal[e] || storedVal[unconv(e)] {
				continue
			}
			if k, ok := constInt(e); ok && k == 0 {
				continue
			}
			if p2, ok := e.(*ssa.Phi); ok && plausibleD(p2, seen) {
				continue
			}
			return false
		}
		return true
	}
	plausible := func(ph *ssa.Phi) bool { return plausibleD(ph, map[*ssa.Phi]bool{}) }
	order := f.DomPreorder()
	// A join picks, optimistically, a phi that agrees with what has arrived so far; a pick that later disagrees with
	// what comes round a back edge is banned and the pass starts over.
	banned := map[*ssa.Phi]bool{}
	converged := false
	for restart := 0; restart < 24 && !converged; restart++ {
		in = map[*ssa.BasicBlock]state{}
		out = map[*ssa.BasicBlock]state{}
		chosen := map[*ssa.BasicBlock]*ssa.Phi{}
		again := false
		for iter := 0; iter < 16 && !again; iter++ {
			changed := false
			for _, b := range order {
				var ns state
				if b == f.Blocks[0] {
					ns = state{known: true, zero: true}
				} else {
					var arriving []state
					var idx []int
					for k, pb := range b.Preds {
						if o := out[pb]; o.known {
							arriving = append(arriving, o)
							idx = append(idx, k)
						}
					}
					if len(arriving) == 0 {
						continue
					}
					all := true
					for _, o := range arriving[1:] {
						if !eq(o, arriving[0]) {
							all = false
						}
					}
					ns = state{known: true, bot: true}
					if all {
						ns = arriving[0]
					}
					var pick *ssa.Phi
					if len(b.Preds) > 1 {
						for _, ins := range b.Instrs {
							ph, ok := ins.(*ssa.Phi)
							if !ok {
								break
							}
							if banned[ph] || !plausible(ph) {
								continue
							}
							match := true
							for j, o := range arriving {
								if !same(o, ph.Edges[idx[j]]) {
									match = false
								}
							}
							if match {
								pick = ph
								break
							}
						}
					}
					if prev := chosen[b]; prev != nil && pick != prev {
						if os.Getenv("OGDEBUG_MIRROR") != "" {
							fmt.Fprintf(os.Stderr, "mirror: ban %s at block %d arriving=%+v idx=%v\n", prev.Name(), b.Index, arriving, idx)
						}
						banned[prev] = true
						again = true
						break
					}
					if pick != nil {
						chosen[b] = pick
						ns = state{known: true, v: pick}
					}
				}
				if old, ok := in[b]; !ok || !eq(old, ns) || old.known != ns.known {
					in[b] = ns
					changed = true
				}
				no := transfer(b, ns)
				if old, ok := out[b]; !ok || !eq(old, no) {
					out[b] = no
					changed = true
				}
			}
			if !changed && !again {
				converged = true
				break
			}
		}
	}
	if !converged {
		return a.mirrors
	}
	if os.Getenv("OGDEBUG_MIRROR") != "" {
		for _, b := range f.Blocks {
			fmt.Fprintf(os.Stderr, "mirror: block %d in=%+v out=%+v\n", b.Index, in[b], out[b])
		}
	}
	// candidates: phis that are the tracked value at their block, and at every use
	stateAt := func(u ssa.Instruction) state {
		b := u.Block()
		s := in[b]
		for _, ins := range b.Instrs {
			if ins == u {
				break
			}
			if x, ok := isStore[ins]; ok {
				s = state{known: true, v: x}
			}
		}
		return s
	}
	for _, b := range f.Blocks {
		for _, ins := range b.Instrs {
			ph, ok := ins.(*ssa.Phi)
			if !ok {
				break
			}
			if s := in[b]; !s.known || s.bot || s.zero || s.v != ssa.Value(ph) {
				continue
			}
			good := true
			for _, ref := range *ph.Referrers() {
				if _, isPhi := ref.(*ssa.Phi); isPhi {
					continue
				}
				if s := stateAt(ref); !s.known || s.bot || s.zero || s.v != ssa.Value(ph) {
					good = false
				}
			}
			if good {
				a.mirrors[ph] = true
			}
		}
	}
	return a.mirrors
}

func (a *wmAnchors) stores(p *Prog, f *ssa.Function) []*ssa.Call {
	var out []*ssa.Call
	eachInstr(f, func(ins ssa.Instruction) {
		if call, ok := ins.(*ssa.Call); ok {
			if obj := p.CalleeObj(call); obj != nil && (funcIs(obj, "sync/atomic", "Uint64", "Store") || funcIs(obj, "sync/atomic", "Uint64", "Swap") || funcIs(obj, "sync/atomic", "Uint64", "Add") || funcIs(obj, "sync/atomic", "Uint64", "CompareAndSwap")) && len(call.Call.Args) > 0 {
				if fv, _ := fieldOfAddr(call.Call.Args[0]); fv == a.fDoneUntil {
					out = append(out, call)
				}
			}
		}
	})
	return out
}

func runWmWriter(c *Ctx, r *RuleRun) {
	a := wmGet(c, r)
	if a == nil {
		return
	}
	p := c.P
	la := c.Locks()
	n := 0
	for _, f := range p.Funcs {
		for _, st := range a.stores(p, f) {
			n++
			roles := la.RoleNames(f)
			ok := len(roles) == 1 && roles[0] == "W"
			r.Check(ok, p.FnName(f), "doneUntil store", p.Pos(instrPos(st)), "only the consumer goroutine stores doneUntil", fmt.Sprintf("doneUntil is stored by code that runs in roles %v, not only in the consumer goroutine: two writers can move it backwards", roles))
		}
	}
	if n == 0 {
		r.Viol("-", "doneUntil store", "", "doneUntil is never stored: the watermark never advances")
	}
	// one go statement in New, not in a loop
	gos := 0
	eachInstr(a.newFn, func(ins ssa.Instruction) {
		if g, ok := ins.(*ssa.Go); ok {
			gos++
			r.Check(!inLoop(g.Block()), p.FnName(a.newFn), "one consumer", p.Pos(instrPos(g)), "started once per WaterMark", "the consumer goroutine is started in a loop: several consumers process marks out of order")
		}
	})
	if gos != 1 {
		r.Viol(p.FnName(a.newFn), "one consumer", p.Pos(a.newFn.Pos()), fmt.Sprintf("%d go statements in watermark.New (expected exactly one consumer)", gos))
	}
	// receives on markC only in the consumer
	for _, b := range la.BlockingOps() {
		recv := false
		if b.Kind == "recv" && b.Chan == p.fieldName(a.fMarkC) {
			recv = true
		}
		if b.Kind == "select" {
			for i, ch := range b.Chans {
				if ch == p.fieldName(a.fMarkC) && b.Dirs[i] == types.RecvOnly {
					recv = true
				}
			}
		}
		if recv {
			r.Check(b.Fn == a.process, p.FnName(b.Fn), "markC receiver", p.Pos(instrPos(b.Ins)), "marks are consumed by the single consumer", "marks are received outside the consumer goroutine: Begin/Done pairs are split between consumers")
		}
	}
	// bookkeeping confined: no closure/go captures in process
	leak := false
	eachInstr(a.process, func(ins ssa.Instruction) {
		switch ins.(type) {
		case *ssa.Go, *ssa.MakeClosure:
			leak = true
		}
	})
	r.Check(!leak, p.FnName(a.process), "bookkeeping confined", p.Pos(a.process.Pos()), "pending counts, heap and waiters are locals of the consumer and are not captured", "the consumer hands its bookkeeping to a closure or another goroutine")
}

func runWmMono(c *Ctx, r *RuleRun) {
	a := wmGet(c, r)
	if a == nil {
		return
	}
	p := c.P
	for _, st := range a.stores(p, a.process) {
		if len(st.Call.Args) < 2 {
			continue
		}
		x := st.Call.Args[1]
		ok := hasFact(st, func(cm Cmp) bool {
			return cm.Op == ">" && cm.X == x && cm.Y != nil && a.isDoneUntilRead(p, cm.Y)
		})
		r.Check(ok, p.FnName(a.process), "monotone store", p.Pos(instrPos(st)), "stored only when greater than the current value", "doneUntil can be stored with a value that is not greater than its current value: DoneUntil decreases or waiters are woken for nothing")
	}
}

func runWmAdvance(c *Ctx, r *RuleRun) {
	a := wmGet(c, r)
	if a == nil {
		return
	}
	p := c.P
	f := a.process
	fn := p.FnName(f)
	for _, st := range a.stores(p, f) {
		if len(st.Call.Args) < 2 {
			continue
		}
		stored := st.Call.Args[1]
		// the candidate may be computed by a helper that pops the finished minima: advance(&heap, pending, current)
		isCurrent := func(v ssa.Value) bool { return a.isDoneUntilRead(p, v) }
		if hc, isCall := stored.(*ssa.Call); isCall && hc.Call.StaticCallee() != nil && hc.Call.StaticCallee().Pkg == f.Pkg && len(hc.Call.StaticCallee().Blocks) > 0 {
			h := hc.Call.StaticCallee()
			var rets []ssa.Value
			eachInstr(h, func(ins ssa.Instruction) {
				if ret, ok := ins.(*ssa.Return); ok && len(ret.Results) == 1 {
					rets = append(rets, retOperand(ret, 0))
				}
			})
			if len(rets) == 1 {
				stored = rets[0]
				isCurrent = func(v ssa.Value) bool {
					if pr, isParam := v.(*ssa.Parameter); isParam {
						for i, q := range h.Params {
							if q == pr && i < len(hc.Call.Args) {
								return a.isDoneUntilRead(p, hc.Call.Args[i])
							}
						}
					}
					return a.isDoneUntilRead(p, v)
				}
			}
		}
		ph, ok := stored.(*ssa.Phi)
		if !ok {
			r.Viol(fn, "stored value", p.Pos(instrPos(st)), "the value stored into doneUntil is not the loop-carried candidate (current mark / finished heap minimum)")
			continue
		}
		for i, e := range ph.Edges {
			pred := ph.Block().Preds[i]
			if isCurrent(e) {
				r.Hold(fn, "candidate: current mark", p.Pos(instrPos(st)), "starts from the current value of doneUntil")
				continue
			}
			// e must be heap[0] and the edge must come from an iteration where pending[e] was not > 0
			isMin := false
			// the value heap.Pop hands back is the minimum (the heap's contract is WM.SIGN's business): doneUntil =
			// heap.Pop(&h).(uint64) behind a test of pending[h[0]] with nothing in between
			var popCall *ssa.Call
			if ta, ok := e.(*ssa.TypeAssert); ok {
				if pc, ok := ta.X.(*ssa.Call); ok {
					if obj := p.CalleeObj(pc); obj != nil && funcIs(obj, "container/heap", "", "Pop") {
						popCall = pc
						isMin = true
					}
				}
			}
			if ld, ok := e.(*ssa.UnOp); ok && ld.Op == token.MUL {
				if ia, ok := ld.X.(*ssa.IndexAddr); ok {
					if k, ok := constInt(ia.Index); ok && k == 0 {
						isMin = true
					}
				}
			}
			// an accessor of the heap type that returns its element 0 (peek)
			if cl, ok := e.(*ssa.Call); ok {
				if g := cl.Call.StaticCallee(); g != nil && g.Pkg == f.Pkg && g.Signature.Recv() != nil && len(g.Blocks) == 1 {
					if ret, ok := g.Blocks[0].Instrs[len(g.Blocks[0].Instrs)-1].(*ssa.Return); ok && len(ret.Results) == 1 {
						if ld, ok := ret.Results[0].(*ssa.UnOp); ok && ld.Op == token.MUL {
							if ia, ok := ld.X.(*ssa.IndexAddr); ok {
								k, isK := constInt(ia.Index)
								base := ia.X
								if u, isLd := base.(*ssa.UnOp); isLd && u.Op == token.MUL {
									base = u.X
								}
								if isK && k == 0 && base == ssa.Value(g.Params[0]) {
									isMin = true
								}
							}
						}
					}
				}
			}
			last := pred.Instrs[len(pred.Instrs)-1]
			notPending := hasFact(last, func(cm Cmp) bool {
				if cm.Y == nil {
					return false
				}
				k, ok := constInt(cm.Y)
				if !ok || k != 0 || !(cm.Op == "<=" || cm.Op == "==") {
					return false
				}
				// cm.X is pending[e]
				var lk *ssa.Lookup
				switch y := cm.X.(type) {
				case *ssa.Lookup:
					lk = y
				case *ssa.Extract:
					lk, _ = y.Tuple.(*ssa.Lookup)
				}
				if lk != nil && popCall != nil {
					// pending[h[0]] was read from the heap that is popped right after, with nothing in between
					if ld, ok := lk.Index.(*ssa.UnOp); ok && ld.Op == token.MUL {
						if ia, ok := ld.X.(*ssa.IndexAddr); ok {
							k0, isK0 := constInt(ia.Index)
							heapArg := popCall.Call.Args[0]
							if mi, ok := heapArg.(*ssa.MakeInterface); ok {
								heapArg = mi.X
							}
							base := ia.X
							if u, ok := base.(*ssa.UnOp); ok && u.Op == token.MUL {
								base = u.X
							}
							if isK0 && k0 == 0 && base == heapArg && quietBetween(ld, popCall) {
								return true
							}
						}
					}
				}
				return lk != nil && (lk.Index == e || sameReRead(p, lk.Index, e))
			})
			r.Check(isMin && notPending, fn, "candidate: finished heap minimum", p.Pos(instrPos(last)), "heap[0], taken only when its pending count is not positive",
				"doneUntil can advance to a value that is not the heap minimum, or to an index whose pending count is still positive (begun more often than finished)")
		}
	}
}

func runWmSign(c *Ctx, r *RuleRun) {
	a := wmGet(c, r)
	if a == nil {
		return
	}
	p := c.P
	// producers: the done field of the mark sent
	var sentDone func(f *ssa.Function) (val ssa.Value, found bool, pos token.Pos)
	sentDone = func(f *ssa.Function) (val ssa.Value, found bool, pos token.Pos) {
		eachInstr(f, func(ins ssa.Instruction) {
			snd, ok := ins.(*ssa.Send)
			if !ok {
				return
			}
			found = true
			pos = instrPos(snd)
			// the mark value is a load of a local struct cell; look at stores into its done field
			if ld, ok := snd.X.(*ssa.UnOp); ok {
				if al, ok := ld.X.(*ssa.Alloc); ok {
					for _, ref := range *al.Referrers() {
						if fa, ok := ref.(*ssa.FieldAddr); ok {
							if fv, _ := fieldOfAddr(fa); fv == a.fDone {
								for _, r2 := range *fa.Referrers() {
									if st, ok := r2.(*ssa.Store); ok {
										val = st.Val
									}
								}
							}
						}
					}
				}
			}
		})
		return
	}
	// the send may live in a helper that is handed the flag (post(ts, done, waiter))
	direct := sentDone
	sentDone = func(f *ssa.Function) (ssa.Value, bool, token.Pos) {
		if v, found, pos := direct(f); found {
			return v, found, pos
		}
		var val ssa.Value
		found := false
		var pos token.Pos
		eachInstr(f, func(ins ssa.Instruction) {
			cl, ok := ins.(*ssa.Call)
			if !ok {
				return
			}
			h := cl.Call.StaticCallee()
			if h == nil || h.Pkg != f.Pkg || len(h.Blocks) == 0 {
				return
			}
			hv, hf, _ := direct(h)
			if !hf {
				return
			}
			found, pos = true, instrPos(cl)
			val = hv
			if pr, isParam := hv.(*ssa.Parameter); isParam {
				for i, q := range h.Params {
					if q == pr && i < len(cl.Call.Args) {
						val = cl.Call.Args[i]
					}
				}
			}
		})
		return val, found, pos
	}
	bv, bf, bp := sentDone(a.begin)
	r.Check(bf && (bv == nil || isConstBool(bv, false)), p.FnName(a.begin), "sends done=false", p.Pos(bp), "Begin sends a mark with done=false", "Begin does not send a mark with done=false")
	dv, df, dp := sentDone(a.done)
	r.Check(df && dv != nil && isConstBool(dv, true), p.FnName(a.done), "sends done=true", p.Pos(dp), "Done sends a mark with done=true", "Done does not send a mark with done=true: finished work is counted as begun")
	// consumer: pending[ts] = prev + phi(1 | -1 on the done edge)
	f := a.process
	n := 0
	eachInstr(f, func(ins ssa.Instruction) {
		mu, ok := ins.(*ssa.MapUpdate)
		if !ok {
			return
		}
		bo, ok := mu.Value.(*ssa.BinOp)
		if !ok || (bo.Op != token.ADD && bo.Op != token.SUB) {
			return
		}
		if mt, isMap := mu.Map.Type().Underlying().(*types.Map); !isMap || !isIntType(mt.Elem()) {
			return
		}
		// written out per branch: pending[ts] = prev - 1 under done, prev + 1 otherwise
		if k, isK := constInt(bo.Y); isK && (k == 1 || k == -1) {
			delta := k
			if bo.Op == token.SUB {
				delta = -k
			}
			n++
			isDone := func(v ssa.Value) bool { return isLoadOfField(v, a.fDone) }
			good := (delta == -1 && boolFactIs(mu, isDone, true)) || (delta == 1 && boolFactIs(mu, isDone, false))
			r.Check(good, p.FnName(f), "pending += done ? -1 : +1", p.Pos(instrPos(mu)), "+1 for a begin mark, -1 for a done mark", "the pending count is not incremented for begin marks and decremented for done marks")
			return
		}
		if bo.Op != token.ADD {
			return
		}
		// the delta computed by a helper that is handed the flag: markDelta(m.done) = -1 under done, +1 otherwise
		for _, side := range []ssa.Value{bo.Y, bo.X} {
			hc, isCall := side.(*ssa.Call)
			if !isCall {
				continue
			}
			h := hc.Call.StaticCallee()
			if h == nil || h.Pkg != f.Pkg || len(h.Blocks) == 0 || len(h.Params) != 1 || len(hc.Call.Args) != 1 {
				continue
			}
			n++
			good := isLoadOfField(hc.Call.Args[0], a.fDone)
			// or a method of the mark itself: m.delta() tests m.done inside
			ofMark := false
			if n2 := p.isModuleNamed(h.Params[0].Type()); n2 != nil && !good {
				if st, isSt := n2.Underlying().(*types.Struct); isSt {
					for i := 0; i < st.NumFields(); i++ {
						if st.Field(i) == a.fDone {
							ofMark, good = true, true
						}
					}
				}
			}
			nret := 0
			eachInstr(h, func(i2 ssa.Instruction) {
				ret, isRet := i2.(*ssa.Return)
				if !isRet || len(ret.Results) != 1 {
					return
				}
				nret++
				k, isK := constInt(retOperand(ret, 0))
				isPrm := func(v ssa.Value) bool {
					if ofMark {
						fv, base := loadedField(v)
						return fv == a.fDone && (base == ssa.Value(h.Params[0]) || singleStore(base) == ssa.Value(h.Params[0]))
					}
					return v == ssa.Value(h.Params[0])
				}
				if !isK || !((k == -1 && boolFactIs(ret, isPrm, true)) || (k == 1 && boolFactIs(ret, isPrm, false))) {
					good = false
				}
			})
			r.Check(good && nret > 0, p.FnName(f), "pending += done ? -1 : +1", p.Pos(instrPos(mu)), "+1 for a begin mark, -1 for a done mark", "the pending count is not incremented for begin marks and decremented for done marks")
			return
		}
		ph, ok := bo.Y.(*ssa.Phi)
		if !ok {
			ph, ok = bo.X.(*ssa.Phi)
		}
		if !ok {
			return
		}
		n++
		good := len(ph.Edges) == 2
		for i, e := range ph.Edges {
			k, isK := constInt(e)
			pred := ph.Block().Preds[i]
			last := pred.Instrs[len(pred.Instrs)-1]
			doneTrue := boolFactIs(last, func(v ssa.Value) bool { return isLoadOfField(v, a.fDone) }, true)
			switch {
			case isK && k == -1 && doneTrue:
			case isK && k == 1 && !doneTrue:
			default:
				good = false
			}
		}
		r.Check(good, p.FnName(f), "pending += done ? -1 : +1", p.Pos(instrPos(mu)), "+1 for a begin mark, -1 for a done mark", "the pending count is not incremented for begin marks and decremented for done marks")
	})
	if n == 0 {
		r.Undecided(p.FnName(f), "pending update", p.Pos(f.Pos()), "no pending[ts] = prev + delta found")
	}
	// heap order and contract
	less := p.Fn("pkg/watermark", "lowHeap", "Less")
	if less == nil {
		r.Undecided("-", "lowHeap.Less", "", "anchor not found")
	} else {
		ok := false
		eachInstr(less, func(ins ssa.Instruction) {
			ret, isRet := ins.(*ssa.Return)
			if !isRet {
				return
			}
			bo, isBo := ret.Results[0].(*ssa.BinOp)
			if !isBo {
				return
			}
			idxParam := func(v ssa.Value) int {
				ld, _ := v.(*ssa.UnOp)
				if ld == nil {
					return -1
				}
				ia, _ := ld.X.(*ssa.IndexAddr)
				if ia == nil {
					return -1
				}
				for i, pr := range less.Params {
					if ia.Index == ssa.Value(pr) {
						return i
					}
				}
				return -1
			}
			x, y := idxParam(bo.X), idxParam(bo.Y)
			if (bo.Op == token.LSS && x == 1 && y == 2) || (bo.Op == token.GTR && x == 2 && y == 1) {
				ok = true
			}
		})
		r.Check(ok, p.FnName(less), "ascending order", p.Pos(less.Pos()), "Less(i, j) = h[i] < h[j]: index 0 is the minimum", "the heap is not a min-heap on the timestamps: index 0 is not the smallest unfinished index")
	}
	for _, m := range []string{"Push", "Pop", "Swap", "Len"} {
		wf, kf := p.Fn("pkg/watermark", "lowHeap", m), p.Fn("pkg/kway", "Heap", m)
		if wf == nil || kf == nil {
			r.Undecided("-", "heap."+m, "", "lowHeap/kway.Heap method not found")
			continue
		}
		// each of the two sibling implementations is held to the contract of container/heap on its own
		okW, whyW := heapContract(wf, m)
		okK, whyK := heapContract(kf, m)
		why := ""
		if !okW {
			why = "lowHeap." + m + ": " + whyW
		} else if !okK {
			why = "kway.Heap." + m + ": " + whyK
		}
		pos := wf.Pos()
		if okW && !okK {
			pos = kf.Pos()
		}
		r.Check(okW && okK, "lowHeap/kway.Heap", "sibling "+m, p.Pos(pos), "both implementations follow the container/heap contract (Len = len, Swap exchanges, Push appends, Pop cuts off and returns the last element)", why+": the heap's invariant is broken, its root is no longer the minimum")
	}
}

func runWmWait(c *Ctx, r *RuleRun) {
	a := wmGet(c, r)
	if a == nil {
		return
	}
	p := c.P
	f := a.process
	stores := a.stores(p, f)
	isMarkValue := func(v ssa.Value) bool {
		if a.isDoneUntilRead(p, v) {
			return true
		}
		for _, st := range stores {
			if len(st.Call.Args) > 1 && st.Call.Args[1] == v {
				return true
			}
		}
		return false
	}
	n := 0
	eachInstr(f, func(ins ssa.Instruction) {
		call, ok := ins.(*ssa.Call)
		if !ok {
			return
		}
		src, _, isClose := chanCloseOf(p, call)
		if !isClose {
			return
		}
		// closing markC itself on stop is not a waiter
		if fv, _ := loadedField(src); fv == a.fMarkC {
			return
		}
		n++
		ok2 := hasFact(call, func(cm Cmp) bool {
			return cm.Op == "<=" && cm.Y != nil && isMarkValue(cm.Y) && !isMarkValue(cm.X)
		})
		r.Check(ok2, p.FnName(f), "close waiter", p.Pos(instrPos(call)), "closed only when its timestamp <= doneUntil", "a waiter is released although doneUntil has not reached its timestamp: Begin() returns before the commits it must see are applied")
	})
	if n == 0 {
		r.Viol(p.FnName(f), "close waiter", p.Pos(f.Pos()), "the consumer never closes a waiter channel: WaitForMark blocks forever")
	}
	// WaitForMark returns: nil only on the fast path or after the waiter was closed, otherwise the context's error -
	// in WaitForMark itself, through a result variable, or in a helper whose answer it hands on
	wf := a.wait
	anyFact := func(facts []Cmp, pred func(Cmp) bool) bool {
		for _, f := range facts {
			if pred(f) || pred(f.Flip()) {
				return true
			}
		}
		return false
	}
	var judge func(g *ssa.Function, v ssa.Value, facts []Cmp, at ssa.Instruction, depth int)
	judge = func(g *ssa.Function, v ssa.Value, facts []Cmp, at ssa.Instruction, depth int) {
		gn := p.FnName(g)
		switch x := v.(type) {
		case *ssa.Phi:
			if x.Block() == at.Block() && depth < 4 {
				for i, e := range x.Edges {
					judge(g, e, edgeFacts(x.Block().Preds[i], x.Block()), at, depth+1)
				}
				return
			}
		case *ssa.Call:
			if x.Call.IsInvoke() && x.Call.Method.Name() == "Err" {
				r.Hold(gn, "return ctx.Err()", p.Pos(instrPos(at)), "the context's error")
				return
			}
			if h := x.Call.StaticCallee(); h != nil && h.Pkg == wf.Pkg && len(h.Blocks) > 0 && depth < 4 && errResultIndex(h.Signature) == 0 && h.Signature.Results().Len() == 1 {
				eachInstr(h, func(ins ssa.Instruction) {
					if ret, ok := ins.(*ssa.Return); ok {
						judge(h, retOperand(ret, 0), factsAt(ret), ret, depth+1)
					}
				})
				return
			}
		}
		if isNilConst(v) {
			fast := anyFact(facts, func(cm Cmp) bool {
				_, isParam := cm.Y.(*ssa.Parameter)
				return cm.Op == ">=" && cm.Y != nil && a.isDoneUntilRead(p, cm.X) && isParam
			})
			woken := anyFact(facts, func(cm Cmp) bool {
				ex, ok := cm.X.(*ssa.Extract)
				if !ok || ex.Index != 0 || cm.Op != "==" || cm.Y == nil {
					return false
				}
				sel, ok := ex.Tuple.(*ssa.Select)
				if !ok {
					return false
				}
				k, ok := constInt(cm.Y)
				if !ok || int(k) >= len(sel.States) {
					return false
				}
				// the waiter: a channel made here, or handed to an unexported helper
				_, isLocal := sel.States[k].Chan.(*ssa.MakeChan)
				if pr, isParam := unconv(sel.States[k].Chan).(*ssa.Parameter); isParam && !p.isExported(pr.Parent()) {
					isLocal = true
				}
				return isLocal && sel.States[k].Dir == types.RecvOnly
			})
			r.Check(fast || woken, gn, "return nil", p.Pos(instrPos(at)), "nil only when DoneUntil() >= ts or after the waiter was closed", "WaitForMark can return nil although neither DoneUntil() >= ts held nor its waiter was closed")
			return
		}
		r.Viol(gn, "return ctx.Err()", p.Pos(instrPos(at)), "WaitForMark returns an error other than the context's error")
	}
	eachInstr(wf, func(ins ssa.Instruction) {
		if ret, ok := ins.(*ssa.Return); ok {
			judge(wf, retOperand(ret, 0), factsAt(ret), ret, 0)
		}
	})
}

func isIntType(t types.Type) bool {
	bt, ok := t.Underlying().(*types.Basic)
	return ok && bt.Info()&types.IsInteger != 0
}

// sameReRead: a and b are loads of the same location (same normal form of the address) and nothing between the first
// and the second can have changed it: they are in one block, or the second is in a block entered only from the block
// of the first, and no call (other than len/cap), store or map update lies between them.
func sameReRead(p *Prog, a, b ssa.Value) bool {
	la, ok1 := a.(*ssa.UnOp)
	lb, ok2 := b.(*ssa.UnOp)
	if !ok1 || !ok2 || la.Op != token.MUL || lb.Op != token.MUL {
		return false
	}
	o := nfOpts{p: p, depth: 6}
	if o.nf(la.X) != o.nf(lb.X) {
		return false
	}
	first, second := ssa.Instruction(la), ssa.Instruction(lb)
	if !dominatesInstr(first, second) {
		first, second = second, first
	}
	return quietBetween(first, second)
}

// quietBetween: first dominates second, they lie in one block or second's block is entered only from first's, and no
// call (other than len/cap), store, map update, send, go or defer lies between them.
func quietBetween(first, second ssa.Instruction) bool {
	if !dominatesInstr(first, second) {
		return false
	}
	var between []ssa.Instruction
	fb, sb := first.Block(), second.Block()
	switch {
	case fb == sb:
		between = fb.Instrs[instrIndex(first)+1 : instrIndex(second)]
	case len(sb.Preds) == 1 && sb.Preds[0] == fb:
		between = append(append([]ssa.Instruction{}, fb.Instrs[instrIndex(first)+1:]...), sb.Instrs[:instrIndex(second)]...)
	default:
		return false
	}
	for _, ins := range between {
		switch x := ins.(type) {
		case *ssa.Store, *ssa.MapUpdate, *ssa.Send, *ssa.Go, *ssa.Defer:
			return false
		case *ssa.Call:
			if bi, ok := x.Call.Value.(*ssa.Builtin); ok && (bi.Name() == "len" || bi.Name() == "cap") {
				continue
			}
			return false
		}
	}
	return true
}
