package main

// Additions to the per-property explanations for the rules added after the third round of seeded changes
// (kept apart from props.go so that the rule lists there stay readable).

var explanationAdditions = map[string]string{
	"C01": "Round-3 additions: table selection at sorted levels is decided on user keys (CMP.OVERLAP); a read that reaches a table goes through the two-stage lower-bound lookup checked under C10 (LOOKUP.*); what a table file holds is what was handed to the encoder (CODEC.SEQ/PREFIX/BYTES/BLOCKS/DRAIN).",
	"C02": "Round-3 additions: Close removes the wal only under the guard 'memtable empty' (DUR.REMOVE); a table written after a reopen never takes a number in use (IDX.FRESH); recovery grows the level lists in a loop before indexing them (RECOVER.LEVELS); the wal replay loop ends the log only at the end of the data or on a torn tail (RECOVER.ENDLOG); decoders consume their whole input (CODEC.DRAIN).",
	"C03": "Round-3 additions: the oracle restarts above every recovered version after a crash too (ORACLE.RESTART/ACCUM); the wal replay loop never ends the log on a condition a complete record can satisfy (RECOVER.ENDLOG); level lists are grown by a loop before being indexed (RECOVER.LEVELS); a file of another kind that the engine writes with content and reads back is fsynced before its writer returns (DUR.PUBLISH).",
	"C04": "Round-3 additions: table numbers are never reused after a crash in a compaction (IDX.FRESH); the replay of a batch is not cut at a large record (RECOVER.ENDLOG).",
	"C05": "Round-3 additions: rotated memtables are searched newest first (READ.ORDER); the table lookup is a versioned (not user-key) lower-bound search wired per table (LOOKUP.STAGES/BSEARCH); timestamps keep growing across restarts (ORACLE.RESTART/ACCUM); the read mark is released only from Discard and the commit path, never at Begin (SNAP.DONE).",
	"C06": "Round-3 additions: fingerprints hash the whole key (CONF.HASH); the read mark that bounds the conflict window counts every mark and keeps its heap in order (WM.COUNT, WM.HEAP); timestamps keep growing across restarts (ORACLE.RESTART/ACCUM).",
	"C07": "Round-3 additions: fingerprints hash the whole key (CONF.HASH); only guarded writes reach the write set and a refusal leaves nothing outside the transaction (TRACE.GUARDS); WM.COUNT, WM.HEAP as under C06.",
	"C08": "Round-3 additions: every function that updates the write buffer - not only modify - is behind the read-only, finished and empty-key checks, also through a validation helper; Get reads the store only if the transaction is not finished; no store outside the transaction lies on a path to the ErrConflictTxn return (TRACE.GUARDS).",
	"C09": "Round-3 additions: overlap with the compaction range is decided on user keys, ParseKey on both sides and never CompareKeys with a range bound (CMP.OVERLAP); lookups are wired to the table they consult, no state keyed by a reusable file name in between (LOOKUP.STAGES).",
	"C11": "Round-3 additions: decoder loops run while Len() > 0 (CODEC.DRAIN); wal writes land at the end of the file - O_APPEND at every open site or Seek(0, SeekEnd) before the write (WAL.APPENDPOS); no package-level variable or array of the library packages is written or used statefully without a lock of the package itself (RACE.GLOBALS); the prefix length advances one byte per compared position (CODEC.BYTES).",
	"C12": "Round-3 additions: RACE.GLOBALS (package-level state of the library packages), SNAP.DONE and SNAP.BEGIN (the read-mark protocol that keeps concurrent compaction from discarding versions an open transaction needs).",
	"C13": "Round-3 additions: an entry of the waiter table is deleted only after the loop that closes its channels and is only ever extended by append to itself (WM.WAITERS); indices enter the heap only through container/heap, also in helpers (WM.HEAP).",
	"C14": "Round-3 additions: ORACLE.RESTART/ACCUM, RECOVER.ENDLOG as under C03; files of another kind that are read back must be fsynced by their writer (DUR.PUBLISH).",
	"C16": "Round-3 additions: every hash Write in the filter package is fed the complete key parameter (BLOOM.BYTES); hashers are not shared through package-level state (RACE.GLOBALS).",
	"C17": "Round-3 additions: every element Scan returns was compared with the end key (SKIP.SCAN); Get and Delete act only under CompareKeys(elem.Key, key) == 0 (SKIP.MATCH).",
}

// Additions for the "must" rules and the restated wiring added after the mutation sweep (DESIGN.md §9).
var sweepAdditions = map[string]string{
	"C01": "Additions after the mutation sweep: a hit is answered (READ.MUSTHIT); a frozen memtable is dropped only after it was flushed (FLUSH.MUST); failure handlers run on the failure branch (ERR.POLARITY); list walks advance the way they started and run while the element is non-nil (LIST.WALK); compaction uses every table set with the level it came from, one target level = source + 1, created when missing (CMP.LEVELS); the compaction range and the overlap test are the stated predicates (CMP.RANGE); version discarding keeps what it must (GC.KEEP); the table image is laid out as its handles say and no block is lost (BUILD.LAYOUT, BUILD.ALLBLOCKS).",
	"C02": "Additions after the mutation sweep: recovery reads footer, index and data from where the previous section says they are, into the buffers it decodes (RECOVER.SECTIONS); it loads every regular table file and returns early only when there is none (RECOVER.MUST); wal recovery selects every older regular log, and sets and re-logs every entry (RECOVER.REPLAY); wal versions are parsed and ordered as Create wrote them (WAL.VERSION); ERR.POLARITY, ERR.SWALLOW, FLUSH.MUST, BUILD.LAYOUT.",
	"C03": "Additions after the mutation sweep: RECOVER.SECTIONS, RECOVER.MUST, RECOVER.REPLAY, WAL.VERSION, ERR.POLARITY, ERR.SWALLOW, FLUSH.MUST as under C02; the four legitimate ends of a log are all present and a torn record ends the replay (RECOVER.ENDLOG).",
	"C04": "Additions after the mutation sweep: RECOVER.REPLAY, WAL.VERSION.",
	"C05": "Additions after the mutation sweep: READ.MUSTHIT, GC.KEEP.",
	"C06": "Additions after the mutation sweep: the clean-up of the committed-transaction list visits the whole list and drops a record only under ts <= read watermark (CONF.KEEPALL).",
	"C07": "Additions after the mutation sweep: CONF.KEEPALL.",
	"C09": "Additions after the mutation sweep: CMP.LEVELS, CMP.RANGE, GC.KEEP, LIST.WALK, BUILD.LAYOUT, BUILD.ALLBLOCKS as under C01; the next table number is the running maximum (IDX.FRESH).",
	"C10": "Additions after round 4 and the mutation sweep: early not-found answers of a search only for an empty container or when its last element is below the key; the loops of the lookup are left only through their own condition or a found-return; READ.MUSTHIT; RECOVER.SECTIONS; BUILD.LAYOUT, BUILD.ALLBLOCKS.",
	"C11": "Additions after the mutation sweep: BUILD.LAYOUT, BUILD.ALLBLOCKS; the out-of-range branch of a length check records or returns an error (CODEC.NARROW).",
	"C14": "Additions after the mutation sweep: RECOVER.REPLAY, WAL.VERSION, ERR.POLARITY, ERR.SWALLOW, FLUSH.MUST; the torn-tail classifier answers true as soon as one end-of-input test succeeds (DUR.TORN); RECOVER.ENDLOG as under C03.",
	"C15": "Additions after the mutation sweep: every loop can make progress - its exit condition reads something the loop changes, or the loop calls out (LOOP.PROGRESS); list walks advance (LIST.WALK); each watermark of the oracle is stopped exactly once (LIVE.STOPONCE).",
	"C17": "Additions after the mutation sweep: Delete redirects a predecessor only where it points at the found element, to that element's successor (SKIP.UNLINK); LOOP.PROGRESS.",
}

// Additions for the rules added after the fifth round (feature- and optimisation-shaped changes).
var round5Additions = map[string]string{
	"C01": "Round-5 additions: not-found only after every source was consulted and answers derived from the lookups only - no cache in between (READ.SOURCES); branches of the table walk other than filter / index found / block found / same key are UNDECIDED and the searched block is always the freshly fetched one (LOOKUP.SKIP); the table and its filter are built from exactly what version discarding returned (CMP.PIPE); keys are rebuilt as prevKey[:lcp]+suffix unconditionally (CODEC.KEYREBUILD).",
	"C02": "Round-5 additions: background work is confined to the goroutines Close waits for (LIVE.NOSPAWN); recovery's file filter (RECOVER.FILTER); package-level registries are released under the key they were taken with (REG.PAIR).",
	"C03": "Round-5 additions: no decision on tombstones in compactions (CMP.TOMB); a single source table is the oldest of its level and inputs are never deleted from Back() (CMP.VICTIM); deferred removals are checked at every later exit including panics, and unjustified removals in helpers become obligations of their call sites (DUR.REMOVE); the loop over wal files is left only at its header (RECOVER.REPLAY).",
	"C04": "Round-5 additions: CMP.TOMB, CMP.VICTIM as under C03.",
	"C05": "Round-5 additions: a flush only counts when its errors are checked on the way (FLUSH.MUST, error-aware); READ.PUBLISH; READ.SOURCES.",
	"C06": "Round-5 additions: the write buffer and its fingerprints only grow and finished-flags only rise (TRACE.BUFMONO); READ.SOURCES.",
	"C07": "Round-5 additions: hasConflict becomes true only behind a fingerprint hit and the committed list is only appended to outside the clean-up (CONF.ONLYIF); doneRead in Commit itself only after the timestamp was allocated (SNAP.DONE); SNAP.BEGIN; TRACE.BUFMONO.",
	"C08": "Round-5 additions: TRACE.BUFMONO; every nil return of Set/Delete/SetEntry follows an update of the write buffer, so no fast path bypasses the misuse checks (TRACE.ACK); READ.SOURCES; sync.Map mutators count as shared writes (TRACE.CONFINE).",
	"C09": "Round-5 additions: CMP.PIPE, LOOKUP.SKIP, BLOOM.ALL.",
	"C10": "Round-5 additions: LOOKUP.SKIP, READ.SOURCES, CODEC.KEYREBUILD, RACE.READPATH, RACE.FILTER.",
	"C11": "Round-5 additions: CODEC.KEYREBUILD; nothing touches a buffer after sync.Pool.Put, deferred calls included (POOL.PUTLAST).",
	"C12": "Round-5 additions: POOL.PUTLAST; lock order and wait-for rules of C15 (every operation returns).",
	"C13": "Round-5 additions: after every store of the watermark the waiter table is scanned before the next mark is taken, unless nobody waits (WM.RELEASE).",
	"C14": "Round-5 additions: CMP.TOMB, CMP.VICTIM, CMP.RMORDER; deferred removals on panic exits (DUR.REMOVE); RECOVER.REPLAY file loop.",
	"C15": "Round-5 additions: the mark consumer closes its channel on every way out (LIVE.CLOSECHAN); no rendezvous-order cycle between channel operations, channels without a positive constant capacity counting as unbuffered (LIVE.RENDEZVOUS).",
	"C17": "Round-5 additions: every increment of a drawn tower height is dominated by level < maxLevel (SKIP.RANDLEVEL).",
}

// Additions for the rules written after reading the silent survivors of the mutation sweep (mutation/SURVIVORS.md).
var round6Additions = map[string]string{
	"C01": "Additions after the survivor triage: every non-empty list enters the k-way merge (KWAY.FEED); table files are loaded in (level, index) order (RECOVER.ORDER); a length prefix is the length of the bytes written right after it (CODEC.LENOF); a successor's key is read only behind the nil test of that successor (SKIP.NILGUARD).",
	"C02": "Additions after the survivor triage: RECOVER.ORDER, CODEC.LENOF.",
	"C09": "Additions after the survivor triage: KWAY.FEED.",
	"C11": "Additions after the survivor triage: CODEC.LENOF.",
	"C17": "Additions after the survivor triage: SKIP.NILGUARD; the drawn tower height starts at 1 (SKIP.RANDLEVEL).",
}

func init() {
	for _, pr := range properties {
		if add, ok := round6Additions[pr.ID]; ok {
			defer func(pr *Property, add string) { pr.Explanation += " " + add }(pr, add)
		}
	}
	for _, pr := range properties {
		if add, ok := round5Additions[pr.ID]; ok {
			defer func(pr *Property, add string) { pr.Explanation += " " + add }(pr, add)
		}
	}
	for _, pr := range properties {
		if add, ok := explanationAdditions[pr.ID]; ok {
			pr.Explanation += " " + add
		}
		if add, ok := sweepAdditions[pr.ID]; ok {
			pr.Explanation += " " + add
		}
	}
}
