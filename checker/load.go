package main

// Loading of /repo's current working tree: type-checked syntax + SSA for the module's packages.

import (
	"fmt"
	"go/ast"
	"go/token"
	"go/types"
	"os"
	"sort"
	"strings"

	"golang.org/x/tools/go/packages"
	"golang.org/x/tools/go/ssa"
	"golang.org/x/tools/go/ssa/ssautil"
)

type Prog struct {
	Dir     string
	ModPath string
	Fset    *token.FileSet
	Pkgs    []*packages.Package // packages of the main module, sorted by path
	ByPath  map[string]*packages.Package
	SSA     *ssa.Program
	SSAPkg  map[string]*ssa.Package
	Funcs   []*ssa.Function // every source function of the module (methods, closures included)
	fnSet   map[*ssa.Function]bool
	Decls   map[*types.Func]*ast.FuncDecl
	DeclPkg map[*types.Func]*packages.Package
	GOARCH  string
	Tags    string

	nInstr int

	// caches
	calleeCache     map[ssa.CallInstruction][]*ssa.Function
	noRetCache      map[*ssa.Function]int // 0 unknown, 1 returns, 2 no-return, 3 in progress
	reachCache      map[*ssa.Function]map[*ssa.Function]bool
	callersOf       map[*ssa.Function][]ssa.CallInstruction
	wparams         map[*ssa.Function][]int
	pathClassMemo   map[ssa.Value]string
	roleNames       map[*types.Var]string
	rolesResolved   bool
	fieldOwnerCache map[*types.Var]string
}

type LoadOpts struct {
	Dir     string
	GOARCH  string
	Tags    string
	Overlay map[string][]byte
}

func Load(o LoadOpts) (*Prog, error) {
	env := append(os.Environ(), "GOFLAGS=-mod=mod", "GOPROXY=off", "GOWORK=off", "GOTOOLCHAIN=local", "CGO_ENABLED=0")
	if o.GOARCH != "" {
		env = append(env, "GOARCH="+o.GOARCH)
	}
	// go list must be the toolchain this binary was built with (the default go cannot load a go 1.24 module offline)
	if _, err := os.Stat("/opt/veriftools/go1.26.8/bin/go"); err == nil && !strings.HasPrefix(os.Getenv("PATH"), "/opt/veriftools/go1.26.8/bin") {
		// go/packages looks the go command up in this process' PATH
		os.Setenv("PATH", "/opt/veriftools/go1.26.8/bin:"+os.Getenv("PATH"))
		env = append(env, "PATH="+os.Getenv("PATH"))
	}
	cfg := &packages.Config{
		Mode: packages.NeedName | packages.NeedFiles | packages.NeedCompiledGoFiles | packages.NeedImports |
			packages.NeedDeps | packages.NeedTypes | packages.NeedSyntax | packages.NeedTypesInfo |
			packages.NeedTypesSizes | packages.NeedModule,
		Dir:     o.Dir,
		Env:     env,
		Tests:   false,
		Overlay: o.Overlay,
	}
	if o.Tags != "" {
		cfg.BuildFlags = []string{"-tags=" + o.Tags}
	}
	pkgs, err := packages.Load(cfg, "./...")
	if err != nil {
		return nil, fmt.Errorf("load: %w", err)
	}
	p := &Prog{Dir: o.Dir, GOARCH: o.GOARCH, Tags: o.Tags, ByPath: map[string]*packages.Package{}, SSAPkg: map[string]*ssa.Package{},
		fnSet: map[*ssa.Function]bool{}, Decls: map[*types.Func]*ast.FuncDecl{}, DeclPkg: map[*types.Func]*packages.Package{},
		calleeCache: map[ssa.CallInstruction][]*ssa.Function{}, noRetCache: map[*ssa.Function]int{},
		reachCache: map[*ssa.Function]map[*ssa.Function]bool{}, pathClassMemo: map[ssa.Value]string{}}
	var errs []string
	packages.Visit(pkgs, nil, func(pk *packages.Package) {
		for _, e := range pk.Errors {
			errs = append(errs, e.Error())
		}
	})
	if len(errs) > 0 {
		return nil, fmt.Errorf("type/load errors: %s", strings.Join(errs, "; "))
	}
	for _, pk := range pkgs {
		if pk.Module == nil || !pk.Module.Main {
			continue
		}
		p.ModPath = pk.Module.Path
		p.Pkgs = append(p.Pkgs, pk)
		p.ByPath[pk.PkgPath] = pk
		p.Fset = pk.Fset
	}
	sort.Slice(p.Pkgs, func(i, j int) bool { return p.Pkgs[i].PkgPath < p.Pkgs[j].PkgPath })
	if len(p.Pkgs) < 11 {
		return nil, fmt.Errorf("only %d packages of the main module were loaded (expected >= 11)", len(p.Pkgs))
	}
	prog, _ := ssautil.AllPackages(pkgs, ssa.InstantiateGenerics)
	p.SSA = prog
	for _, pk := range p.Pkgs {
		sp := prog.Package(pk.Types)
		if sp == nil {
			return nil, fmt.Errorf("no ssa package for %s", pk.PkgPath)
		}
		sp.Build()
		p.SSAPkg[pk.PkgPath] = sp
		for _, f := range pk.Syntax {
			for _, d := range f.Decls {
				if fd, ok := d.(*ast.FuncDecl); ok {
					if obj, ok := pk.TypesInfo.Defs[fd.Name].(*types.Func); ok {
						p.Decls[obj] = fd
						p.DeclPkg[obj] = pk
					}
				}
			}
		}
	}
	// collect functions
	var add func(f *ssa.Function)
	add = func(f *ssa.Function) {
		if f == nil || p.fnSet[f] || f.Blocks == nil {
			return
		}
		p.fnSet[f] = true
		p.Funcs = append(p.Funcs, f)
		for _, b := range f.Blocks {
			p.nInstr += len(b.Instrs)
		}
		for _, a := range f.AnonFuncs {
			add(a)
		}
	}
	for _, pk := range p.Pkgs {
		sp := p.SSAPkg[pk.PkgPath]
		var names []string
		for n := range sp.Members {
			names = append(names, n)
		}
		sort.Strings(names)
		for _, n := range names {
			switch m := sp.Members[n].(type) {
			case *ssa.Function:
				add(m)
			case *ssa.Type:
				if named, ok := m.Type().(*types.Named); ok {
					for i := 0; i < named.NumMethods(); i++ {
						add(prog.FuncValue(named.Method(i)))
					}
				}
			}
		}
	}
	return p, nil
}

func (p *Prog) InModule(f *ssa.Function) bool { return f != nil && p.fnSet[f] }

func (p *Prog) pkgPath(rel string) string {
	if rel == "" {
		return p.ModPath
	}
	return p.ModPath + "/" + rel
}

// Fn looks up a function or method of the module: Fn("wal", "WAL", "Write"), Fn("", "", "Open").
func (p *Prog) Fn(rel, recv, name string) *ssa.Function {
	pk := p.ByPath[p.pkgPath(rel)]
	if pk == nil {
		return nil
	}
	if recv == "" {
		if obj, ok := pk.Types.Scope().Lookup(name).(*types.Func); ok {
			return p.SSA.FuncValue(obj)
		}
		return nil
	}
	tn, ok := pk.Types.Scope().Lookup(recv).(*types.TypeName)
	if !ok {
		return nil
	}
	named, ok := tn.Type().(*types.Named)
	if !ok {
		return nil
	}
	for i := 0; i < named.NumMethods(); i++ {
		if named.Method(i).Name() == name {
			return p.SSA.FuncValue(named.Method(i))
		}
	}
	return nil
}

// Named looks up a named type of the module.
func (p *Prog) Named(rel, name string) *types.Named {
	pk := p.ByPath[p.pkgPath(rel)]
	if pk == nil {
		return nil
	}
	tn, ok := pk.Types.Scope().Lookup(name).(*types.TypeName)
	if !ok {
		return nil
	}
	n, _ := tn.Type().(*types.Named)
	return n
}

// Field looks up a struct field object of a module type.
func (p *Prog) Field(rel, typ, field string) *types.Var {
	n := p.Named(rel, typ)
	if n == nil {
		return nil
	}
	st, ok := n.Underlying().(*types.Struct)
	if !ok {
		return nil
	}
	for i := 0; i < st.NumFields(); i++ {
		if st.Field(i).Name() == field {
			return st.Field(i)
		}
	}
	if rel == "" && typ == "DB" {
		return p.dbChanByRole(st, field)
	}
	return nil
}

// dbChanByRole: the channels of DB found by what they do when a refactoring renamed them - flushC carries memtables;
// closeC is the chan struct{} an exported method (Close) sends on or closes; closed is the chan struct{} an unexported function
// (the flusher) closes.
func (p *Prog) dbChanByRole(st *types.Struct, field string) *types.Var {
	var cands []*types.Var
	for i := 0; i < st.NumFields(); i++ {
		f := st.Field(i)
		ch, ok := f.Type().Underlying().(*types.Chan)
		if !ok {
			continue
		}
		_, isStruct := ch.Elem().Underlying().(*types.Struct)
		_, isPtr := ch.Elem().Underlying().(*types.Pointer)
		switch field {
		case "flushC":
			if isPtr {
				cands = append(cands, f)
			}
		case "closeC", "closed":
			if !isStruct {
				continue
			}
			byExported, byOther := false, false
			for _, g := range p.Funcs {
				for _, b := range g.Blocks {
					for _, ins := range b.Instrs {
						if snd, ok := ins.(*ssa.Send); ok {
							if fv, _ := loadedField(snd.Chan); fv == f && g.Object() != nil && g.Object().Exported() {
								byExported = true
							}
							continue
						}
						ci, ok := ins.(ssa.CallInstruction)
						if !ok {
							continue
						}
						bi, ok := ci.Common().Value.(*ssa.Builtin)
						if !ok || bi.Name() != "close" || len(ci.Common().Args) != 1 {
							continue
						}
						if fv, _ := loadedField(ci.Common().Args[0]); fv != f {
							continue
						}
						if g.Object() != nil && g.Object().Exported() {
							byExported = true
						} else {
							byOther = true
						}
					}
				}
			}
			if (field == "closeC" && byExported && !byOther) || (field == "closed" && byOther && !byExported) {
				cands = append(cands, f)
			}
		}
	}
	if len(cands) == 1 {
		if p.roleNames == nil {
			p.roleNames = map[*types.Var]string{}
		}
		p.roleNames[cands[0]] = field
		return cands[0]
	}
	return nil
}

// Global looks up a package-level variable.
func (p *Prog) Global(rel, name string) *types.Var {
	pk := p.ByPath[p.pkgPath(rel)]
	if pk == nil {
		return nil
	}
	v, _ := pk.Types.Scope().Lookup(name).(*types.Var)
	return v
}

func (p *Prog) Pos(pos token.Pos) string {
	if !pos.IsValid() {
		return "?"
	}
	ps := p.Fset.Position(pos)
	f := ps.Filename
	if strings.HasPrefix(f, p.Dir+"/") {
		f = f[len(p.Dir)+1:]
	}
	return fmt.Sprintf("%s:%d", f, ps.Line)
}

// FnName gives a short stable name: "(*DB).rawset", "wal.(*WAL).Write", "Open", closures as "parent$1".
func (p *Prog) FnName(f *ssa.Function) string {
	if f == nil {
		return "<nil>"
	}
	s := f.RelString(nil)
	s = strings.ReplaceAll(s, p.ModPath+"/", "")
	s = strings.ReplaceAll(s, p.ModPath+".", "")
	s = strings.ReplaceAll(s, p.ModPath, "")
	return s
}

// isModuleType reports whether t (after pointer deref) is a named type declared in the module.
func (p *Prog) isModuleNamed(t types.Type) *types.Named {
	if pt, ok := t.Underlying().(*types.Pointer); ok {
		t = pt.Elem()
	}
	if n, ok := types.Unalias(t).(*types.Named); ok {
		if n.Obj().Pkg() != nil && (n.Obj().Pkg().Path() == p.ModPath || strings.HasPrefix(n.Obj().Pkg().Path(), p.ModPath+"/")) {
			return n
		}
	}
	return nil
}

// fieldOwner: "DB.memtable" style name for a field var; owner found by scanning module types.
func (p *Prog) fieldName(v *types.Var) string {
	if v == nil {
		return "<nil>"
	}
	if !v.IsField() {
		return v.Name()
	}
	if !p.rolesResolved {
		// anchors renamed by a refactoring keep the name they are known by in labels
		p.rolesResolved = true
		for _, n := range []string{"flushC", "closeC", "closed"} {
			p.Field("", "DB", n)
		}
	}
	name := v.Name()
	if rn, ok := p.roleNames[v]; ok {
		name = rn
	}
	if o := p.fieldOwner(v); o != "" {
		return o + "." + name
	}
	return name
}

func (p *Prog) fieldOwner(v *types.Var) string {
	if p.fieldOwnerCache == nil {
		p.fieldOwnerCache = map[*types.Var]string{}
		for _, pk := range p.Pkgs {
			sc := pk.Types.Scope()
			for _, n := range sc.Names() {
				tn, ok := sc.Lookup(n).(*types.TypeName)
				if !ok {
					continue
				}
				st, ok := tn.Type().Underlying().(*types.Struct)
				if !ok {
					continue
				}
				for i := 0; i < st.NumFields(); i++ {
					p.fieldOwnerCache[st.Field(i)] = tn.Name()
				}
			}
		}
	}
	return p.fieldOwnerCache[v]
}
