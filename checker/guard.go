package main

// E-GUARD and E-DEP helpers: dominating branch conditions in canonical form, backward data dependence.

import (
	"go/token"
	"go/types"

	"golang.org/x/tools/go/ssa"
)

// CondEdge: the If at the end of block B was taken in direction Truth, and that edge dominates the instruction.
type CondEdge struct {
	If    *ssa.If
	Truth bool
}

// dominatingConds lists every branch decision that holds whenever ins executes.
func dominatingConds(ins ssa.Instruction) []CondEdge {
	var out []CondEdge
	b := ins.Block()
	for cur := b; cur != nil; cur = cur.Idom() {
		d := cur.Idom()
		if d == nil || len(d.Instrs) == 0 {
			continue
		}
		iff, ok := d.Instrs[len(d.Instrs)-1].(*ssa.If)
		if !ok {
			continue
		}
		// which successor of d leads (exclusively) to cur?
		for si, s := range d.Succs {
			other := d.Succs[1-si]
			if s == other {
				continue
			}
			if (s == cur || s.Dominates(cur)) && edgeOnly(d, s) {
				out = append(out, CondEdge{iff, si == 0})
			}
		}
	}
	return out
}

// edgeOnly: every path into s comes through the edge d→s (s has d as its only predecessor apart from back edges from
// blocks that s dominates).
func edgeOnly(d, s *ssa.BasicBlock) bool {
	for _, p := range s.Preds {
		if p == d {
			continue
		}
		if s.Dominates(p) {
			continue // back edge
		}
		return false
	}
	return true
}

// Cmp is a comparison in canonical form: X Op Y with Op in < <= == != > >=, or a boolean value test (Op "true"/"false").
type Cmp struct {
	Op   string
	X, Y ssa.Value
}

func negateOp(op string) string {
	switch op {
	case "<":
		return ">="
	case "<=":
		return ">"
	case ">":
		return "<="
	case ">=":
		return "<"
	case "==":
		return "!="
	case "!=":
		return "=="
	case "true":
		return "false"
	case "false":
		return "true"
	}
	return op
}

// canonCond: the fact established by cond evaluating to truth.
func canonCond(cond ssa.Value, truth bool) Cmp {
	switch x := cond.(type) {
	case *ssa.UnOp:
		if x.Op == token.NOT {
			return canonCond(x.X, !truth)
		}
	case *ssa.BinOp:
		op := x.Op.String()
		switch op {
		case "<", "<=", ">", ">=", "==", "!=":
			if !truth {
				op = negateOp(op)
			}
			return Cmp{op, x.X, x.Y}
		}
	}
	if truth {
		return Cmp{"true", cond, nil}
	}
	return Cmp{"false", cond, nil}
}

// Flip exchanges the operands.
func (c Cmp) Flip() Cmp { return Cmp{flipCmp(c.Op), c.Y, c.X} }

// factsAt: all canonical facts that hold when ins executes.
func factsAt(ins ssa.Instruction) []Cmp {
	var out []Cmp
	for _, ce := range dominatingConds(ins) {
		out = append(out, canonCond(ce.If.Cond, ce.Truth))
	}
	return out
}

// ---- value classification helpers ----

// isLoadOfField: v is a load of field fv (through any base).
func isLoadOfField(v ssa.Value, fv *types.Var) bool {
	f, _ := loadedField(v)
	return f != nil && f == fv
}

// callTo: v is a call whose static callee is f.
func callTo(p *Prog, v ssa.Value, f *ssa.Function) *ssa.Call {
	c, ok := v.(*ssa.Call)
	if !ok || f == nil {
		return nil
	}
	for _, g := range p.Callees(c) {
		if g == f {
			return c
		}
	}
	return nil
}

// callToExt: v is a call to the named non-module function.
func callToExt(p *Prog, v ssa.Value, pkg, recv, name string) *ssa.Call {
	c, ok := v.(*ssa.Call)
	if !ok {
		return nil
	}
	if obj := p.CalleeObj(c); obj != nil && funcIs(obj, pkg, recv, name) {
		return c
	}
	return nil
}

// ---- backward dependence ----

// dependsOn: does v depend (through arithmetic, phis, conversions, tuple/field extraction, builtin max/min, loads of
// local cells, and results of module functions with parameters mapped to arguments) on a value satisfying src?
func (p *Prog) dependsOn(v ssa.Value, src func(ssa.Value) bool) bool {
	return p.dependsOnD(v, src, 0, map[ssa.Value]bool{})
}

func (p *Prog) dependsOnD(v ssa.Value, src func(ssa.Value) bool, depth int, seen map[ssa.Value]bool) bool {
	if v == nil || depth > 10 || seen[v] {
		return false
	}
	seen[v] = true
	if src(v) {
		return true
	}
	rec := func(x ssa.Value) bool { return p.dependsOnD(x, src, depth+1, seen) }
	switch x := v.(type) {
	case *ssa.BinOp:
		return rec(x.X) || rec(x.Y)
	case *ssa.UnOp:
		if x.Op == token.MUL {
			if al, ok := x.X.(*ssa.Alloc); ok {
				for _, ref := range *al.Referrers() {
					if st, ok := ref.(*ssa.Store); ok && st.Addr == al && rec(st.Val) {
						return true
					}
				}
				// a local aggregate filled field by field (a composite literal): what was stored into its fields/elements
				return rec(al)
			}
			if fa, ok := x.X.(*ssa.FieldAddr); ok {
				// field of a local struct cell: the stores into that field
				if al, ok := fa.X.(*ssa.Alloc); ok {
					for _, ref := range *al.Referrers() {
						if fa2, ok := ref.(*ssa.FieldAddr); ok && fa2.Field == fa.Field {
							for _, r2 := range *fa2.Referrers() {
								if st, ok := r2.(*ssa.Store); ok && rec(st.Val) {
									return true
								}
							}
						}
						if st, ok := ref.(*ssa.Store); ok && st.Addr == al && rec(st.Val) {
							return true
						}
					}
				}
				return rec(fa.X)
			}
			if ia, ok := x.X.(*ssa.IndexAddr); ok {
				return rec(ia.X) || rec(ia.Index)
			}
			return rec(x.X)
		}
		return rec(x.X)
	case *ssa.Phi:
		for _, e := range x.Edges {
			if rec(e) {
				return true
			}
		}
	case *ssa.Alloc:
		for _, ref := range *x.Referrers() {
			switch y := ref.(type) {
			case *ssa.Store:
				if y.Addr == x && rec(y.Val) {
					return true
				}
			case *ssa.IndexAddr:
				for _, r2 := range *y.Referrers() {
					if st, ok := r2.(*ssa.Store); ok && rec(st.Val) {
						return true
					}
				}
			case *ssa.FieldAddr:
				for _, r2 := range *y.Referrers() {
					if st, ok := r2.(*ssa.Store); ok && rec(st.Val) {
						return true
					}
				}
			}
		}
	case *ssa.Convert:
		return rec(x.X)
	case *ssa.ChangeType:
		return rec(x.X)
	case *ssa.MakeInterface:
		return rec(x.X)
	case *ssa.TypeAssert:
		return rec(x.X)
	case *ssa.Extract:
		return rec(x.Tuple)
	case *ssa.Field:
		return rec(x.X)
	case *ssa.FieldAddr:
		return rec(x.X)
	case *ssa.Index:
		return rec(x.X) || rec(x.Index)
	case *ssa.IndexAddr:
		return rec(x.X) || rec(x.Index)
	case *ssa.Lookup:
		return rec(x.X) || rec(x.Index)
	case *ssa.Slice:
		return rec(x.X)
	case *ssa.Next:
		return rec(x.Iter)
	case *ssa.Range:
		return rec(x.X)
	case *ssa.Call:
		cs := p.Callees(x)
		if len(cs) == 0 {
			for _, a := range x.Call.Args {
				if rec(a) {
					return true
				}
			}
			if x.Call.IsInvoke() && rec(x.Call.Value) {
				return true
			}
			return false
		}
		for _, g := range cs {
			for _, b := range g.Blocks {
				for _, ins := range b.Instrs {
					if ret, ok := ins.(*ssa.Return); ok {
						for i := range ret.Results {
							if rec(retOperand(ret, i)) {
								return true
							}
						}
					}
				}
			}
		}
		// parameters of the callee are reached through the return slice above (Parameter case maps back to all callers);
		// to stay context-sensitive enough, also look at this call's arguments directly
		for _, a := range x.Call.Args {
			if rec(a) {
				return true
			}
		}
	case *ssa.Parameter:
		// do not leave the function: callers are handled by the Call case
		return false
	}
	return false
}

// ---- lower bounds ----

// edgeFacts: what is known on the edge pred -> succ: the facts at the end of pred plus the branch taken.
func edgeFacts(pred, succ *ssa.BasicBlock) []Cmp {
	if len(pred.Instrs) == 0 {
		return nil
	}
	last := pred.Instrs[len(pred.Instrs)-1]
	out := factsAt(last)
	if iff, ok := last.(*ssa.If); ok && len(pred.Succs) == 2 && pred.Succs[0] != pred.Succs[1] {
		out = append(out, canonCond(iff.Cond, pred.Succs[0] == succ))
	}
	return out
}

// geq: the value v is, under the given facts, at least the value identified by src - because it is that value, the
// builtin max over it, it plus a non-negative constant, a value a dominating comparison showed to be at least it, a phi
// all of whose edges are, the result of a module function all of whose returns are, or a parameter for which every call
// site passes such a value. Conversions between integer types are looked through (versions and timestamps are
// non-negative). A may-dependence is not enough: min(a, b) depends on both and is at least neither.
func (p *Prog) geq(v ssa.Value, facts []Cmp, src func(ssa.Value) bool, depth int) bool {
	if v == nil || depth > 8 {
		return false
	}
	u := unconv(v)
	if src(u) || src(v) {
		return true
	}
	for _, f0 := range facts {
		for _, f := range []Cmp{f0, f0.Flip()} {
			if (f.Op == ">" || f.Op == ">=") && f.Y != nil && unconv(f.X) == u {
				if src(unconv(f.Y)) || src(f.Y) {
					return true
				}
				// transitively: at least a value that is itself at least the source (a parameter fed from it)
				if _, isParam := unconv(f.Y).(*ssa.Parameter); isParam && p.geq(f.Y, nil, src, depth+2) {
					return true
				}
			}
		}
	}
	switch x := u.(type) {
	case *ssa.BinOp:
		if k, ok := constInt(x.Y); ok && x.Op == token.ADD && k >= 0 {
			return p.geq(x.X, facts, src, depth+1)
		}
	case *ssa.Phi:
		if len(x.Edges) == 0 {
			return false
		}
		for i, e := range x.Edges {
			if !p.geq(e, edgeFacts(x.Block().Preds[i], x.Block()), src, depth+1) {
				return false
			}
		}
		return true
	case *ssa.Call:
		if bi, ok := x.Call.Value.(*ssa.Builtin); ok {
			if bi.Name() != "max" {
				return false
			}
			for _, a := range x.Call.Args {
				if p.geq(a, facts, src, depth+1) {
					return true
				}
			}
			return false
		}
		cs := p.Callees(x)
		if len(cs) == 0 || x.Call.IsInvoke() {
			return false
		}
		for _, g := range cs {
			if !p.InModule(g) || g.Signature.Results().Len() != 1 || len(g.Blocks) == 0 {
				return false
			}
			n := 0
			okAll := true
			eachInstr(g, func(ins ssa.Instruction) {
				if ret, ok := ins.(*ssa.Return); ok {
					n++
					if !p.geq(retOperand(ret, 0), factsAt(ret), src, depth+1) {
						okAll = false
					}
				}
			})
			if n == 0 || !okAll {
				return false
			}
		}
		return true
	case *ssa.Field:
		if call, ok := x.X.(*ssa.Call); ok {
			return p.geqFieldOfResult(call, x.Field, src, depth)
		}
		return false
	case *ssa.UnOp:
		// the same through a local copy of the returned struct: found := recoverDir(db); … found.maxTs
		if fa, ok := x.X.(*ssa.FieldAddr); ok && x.Op == token.MUL {
			if call, ok := singleStore(fa.X).(*ssa.Call); ok {
				return p.geqFieldOfResult(call, fa.Field, src, depth)
			}
		}
		return false
	case *ssa.Parameter:
		if p.isExported(x.Parent()) {
			return false
		}
		sites := p.CallersOf(x.Parent())
		args := p.callerArgs(x)
		if len(args) == 0 || len(args) != len(sites) {
			return false
		}
		for i, a := range args {
			if !p.geq(a, factsAt(sites[i]), src, depth+1) {
				return false
			}
		}
		return true
	}
	return false
}

// geqFieldOfResult: a field of a struct a module function returned (values that travel together): every store into
// that field of the local the function returns must be at least the value identified by src.
func (p *Prog) geqFieldOfResult(call *ssa.Call, field int, src func(ssa.Value) bool, depth int) bool {
	cs := p.Callees(call)
	if len(cs) == 0 || call.Call.IsInvoke() {
		return false
	}
	for _, g := range cs {
		if !p.InModule(g) || len(g.Blocks) == 0 || g.Signature.Results().Len() != 1 {
			return false
		}
		n, okAll := 0, true
		eachInstr(g, func(ins ssa.Instruction) {
			ret, isRet := ins.(*ssa.Return)
			if !isRet {
				return
			}
			ld, isLd := retOperand(ret, 0).(*ssa.UnOp)
			if !isLd {
				okAll = false
				return
			}
			al, isAl := ld.X.(*ssa.Alloc)
			if !isAl {
				okAll = false
				return
			}
			for _, ref := range *al.Referrers() {
				switch y := ref.(type) {
				case *ssa.Store:
					if y.Addr == ssa.Value(al) {
						okAll = false // the whole struct is overwritten somewhere
					}
				case *ssa.FieldAddr:
					if y.Field != field {
						continue
					}
					for _, r2 := range *y.Referrers() {
						if st, isSt := r2.(*ssa.Store); isSt && st.Addr == ssa.Value(y) {
							n++
							if !p.geq(st.Val, factsAt(st), src, depth+1) {
								okAll = false
							}
						}
					}
				}
			}
		})
		if n == 0 || !okAll {
			return false
		}
	}
	return true
}
