package main

// E-LOCK: interprocedural lockset analysis (must and may), roles, lock acquisitions, blocking operations.

import (
	"fmt"
	"go/token"
	"go/types"
	"sort"
	"strings"

	"golang.org/x/tools/go/ssa"
)

const (
	modeR int8 = 1
	modeW int8 = 2
)

type LockSet map[string]int8

func (l LockSet) String() string {
	var ks []string
	for k, m := range l {
		if m == modeR {
			ks = append(ks, k+"(R)")
		} else if m == modeW {
			ks = append(ks, k)
		} else if m < 0 {
			ks = append(ks, "-"+k)
		}
	}
	sort.Strings(ks)
	return "{" + strings.Join(ks, ", ") + "}"
}

func (l LockSet) Names() []string {
	var ks []string
	for k, m := range l {
		if m > 0 {
			ks = append(ks, k)
		}
	}
	sort.Strings(ks)
	return ks
}

type lstate struct {
	locks  LockSet
	defers []*ssa.Defer
	top    bool // unanalysed (no caller seen yet)
}

func (s lstate) copy() lstate {
	c := lstate{locks: LockSet{}, top: s.top}
	for k, v := range s.locks {
		c.locks[k] = v
	}
	c.defers = append([]*ssa.Defer(nil), s.defers...)
	return c
}

type LockOp struct {
	Ins    ssa.Instruction
	Fn     *ssa.Function
	Lock   string
	Mode   int8 // modeR/modeW
	Unlock bool
}

type BlockingOp struct {
	Ins  ssa.Instruction
	Fn   *ssa.Function
	Kind string // send, recv, select, wait
	Chan string // channel class or waited object
	// for select: all channel classes of its blocking states
	Chans []string
	Dirs  []types.ChanDir
}

type LockAnalysis struct {
	p         *Prog
	Must      map[ssa.Instruction]LockSet
	May       map[ssa.Instruction]LockSet
	EntryMu   map[*ssa.Function]LockSet // must entry lockset
	EntryMa   map[*ssa.Function]LockSet
	Ops       []LockOp
	opAt      map[ssa.Instruction]*LockOp
	Roles     map[*ssa.Function]map[string]bool
	RoleRoots map[string][]*ssa.Function
	Reached   map[*ssa.Function]bool
	summ      map[*ssa.Function]LockSet // net effect (must mode) with entry ∅
	summMay   map[*ssa.Function]LockSet
	inSumm    map[*ssa.Function]bool
	GoSites   []*ssa.Go
	pkgRoots  string
}

// lockOpOf classifies a call instruction as a lock operation.
func (p *Prog) lockOpOf(ins ssa.Instruction) *LockOp {
	ci, ok := ins.(ssa.CallInstruction)
	if !ok {
		return nil
	}
	c := ci.Common()
	if c.IsInvoke() {
		return nil
	}
	f := c.StaticCallee()
	if f == nil {
		return nil
	}
	obj, _ := f.Object().(*types.Func)
	if obj == nil || obj.Pkg() == nil || obj.Pkg().Path() != "sync" {
		return nil
	}
	var mode int8
	unlock := false
	switch {
	case funcIs(obj, "sync", "Mutex", "Lock"), funcIs(obj, "sync", "RWMutex", "Lock"):
		mode = modeW
	case funcIs(obj, "sync", "RWMutex", "RLock"):
		mode = modeR
	case funcIs(obj, "sync", "Mutex", "Unlock"), funcIs(obj, "sync", "RWMutex", "Unlock"):
		mode, unlock = modeW, true
	case funcIs(obj, "sync", "RWMutex", "RUnlock"):
		mode, unlock = modeR, true
	default:
		return nil
	}
	if len(c.Args) == 0 {
		return nil
	}
	name := p.lockName(c.Args[0])
	return &LockOp{Ins: ins, Fn: ins.Parent(), Lock: name, Mode: mode, Unlock: unlock}
}

// lockName: the class of a mutex, by the field or global that holds it.
func (p *Prog) lockName(addr ssa.Value) string {
	switch x := addr.(type) {
	case *ssa.FieldAddr:
		fv, _ := fieldOfAddr(x)
		return p.fieldName(fv)
	case *ssa.Global:
		return x.Name()
	case *ssa.Alloc:
		return "local:" + x.Comment
	case *ssa.UnOp: // *ptr to mutex
		if fv, _ := loadedField(x); fv != nil {
			return p.fieldName(fv)
		}
	}
	return "unknown-lock:" + addr.Name()
}

func (c *Ctx) Locks() *LockAnalysis {
	if c.locks == nil {
		c.locks = newLockAnalysis(c.P)
	}
	return c.locks
}

func newLockAnalysis(p *Prog) *LockAnalysis { return newLockAnalysisFor(p, "") }

// newLockAnalysisFor: with pkgRel != "" the roots are the exported functions and methods of that package, all of which
// may be called concurrently (the package used on its own, as C11 quantifies over).
func newLockAnalysisFor(p *Prog, pkgRel string) *LockAnalysis {
	la := &LockAnalysis{p: p, pkgRoots: pkgRel, Must: map[ssa.Instruction]LockSet{}, May: map[ssa.Instruction]LockSet{}, EntryMu: map[*ssa.Function]LockSet{},
		EntryMa: map[*ssa.Function]LockSet{}, opAt: map[ssa.Instruction]*LockOp{}, Roles: map[*ssa.Function]map[string]bool{},
		RoleRoots: map[string][]*ssa.Function{}, Reached: map[*ssa.Function]bool{}, summ: map[*ssa.Function]LockSet{}, summMay: map[*ssa.Function]LockSet{}, inSumm: map[*ssa.Function]bool{}}
	for _, f := range p.Funcs {
		for _, b := range f.Blocks {
			for _, ins := range b.Instrs {
				if op := p.lockOpOf(ins); op != nil {
					la.Ops = append(la.Ops, *op)
					cp := *op
					la.opAt[ins] = &cp
				}
				if g, ok := ins.(*ssa.Go); ok {
					la.GoSites = append(la.GoSites, g)
				}
			}
		}
	}
	la.computeRoles()
	la.solve(true)
	la.solve(false)
	return la
}

// ---- roles ----

// roleReach: functions reachable from roots without following go statements.
func (la *LockAnalysis) roleReach(roots []*ssa.Function) map[*ssa.Function]bool {
	p := la.p
	r := map[*ssa.Function]bool{}
	var visit func(g *ssa.Function)
	visit = func(g *ssa.Function) {
		if g == nil || r[g] || !p.InModule(g) {
			return
		}
		r[g] = true
		for _, b := range g.Blocks {
			for _, ins := range b.Instrs {
				switch x := ins.(type) {
				case *ssa.Go:
					continue
				case ssa.CallInstruction:
					for _, h := range p.Callees(x) {
						visit(h)
					}
				case *ssa.MakeClosure:
					// closure bodies run in the creating goroutine unless handed to a go statement
					usedByGoOnly := true
					for _, ref := range *x.Referrers() {
						if _, isGo := ref.(*ssa.Go); !isGo {
							usedByGoOnly = false
						}
					}
					if !usedByGoOnly {
						visit(x.Fn.(*ssa.Function))
					}
				}
			}
		}
	}
	for _, f := range roots {
		visit(f)
	}
	return r
}

func (la *LockAnalysis) computeRoles() {
	p := la.p
	if la.pkgRoots != "" {
		pk := p.SSAPkg[p.pkgPath(la.pkgRoots)]
		var U []*ssa.Function
		for _, f := range p.Funcs {
			if f.Pkg != pk || f.Parent() != nil {
				continue
			}
			obj, _ := f.Object().(*types.Func)
			if obj == nil || !obj.Exported() {
				continue
			}
			if strings.HasSuffix(p.Fset.Position(f.Pos()).Filename, "_test.go") {
				continue
			}
			U = append(U, f)
		}
		la.RoleRoots["U"] = U
		for f := range la.roleReach(U) {
			la.Roles[f] = map[string]bool{"U": true}
			la.Reached[f] = true
		}
		return
	}
	root := p.SSAPkg[p.ModPath]
	open := p.Fn("", "", "Open")
	closeFn := p.Fn("", "DB", "Close")
	var U, C, I []*ssa.Function
	if open != nil {
		I = append(I, open)
	}
	if closeFn != nil {
		C = append(C, closeFn)
	}
	// U: exported functions and methods of exported types of the root package, except Open and Close
	for _, f := range p.Funcs {
		if f.Pkg != root || f.Parent() != nil || f == open || f == closeFn {
			continue
		}
		obj, _ := f.Object().(*types.Func)
		if obj == nil || !obj.Exported() {
			continue
		}
		if recv := f.Signature.Recv(); recv != nil {
			n := p.isModuleNamed(recv.Type())
			if n == nil || !n.Obj().Exported() {
				continue
			}
		}
		U = append(U, f)
	}
	la.RoleRoots["I"], la.RoleRoots["U"], la.RoleRoots["C"] = I, U, C
	// goroutines
	gi := 0
	for _, g := range la.GoSites {
		cs := p.Callees(g)
		role := ""
		switch {
		case g.Parent() == open:
			role = "F"
		case g.Parent() == p.Fn("pkg/watermark", "", "New"):
			role = "W"
		default:
			gi++
			role = fmt.Sprintf("G%d", gi)
		}
		la.RoleRoots[role] = append(la.RoleRoots[role], cs...)
	}
	for role, roots := range la.RoleRoots {
		for f := range la.roleReach(roots) {
			if la.Roles[f] == nil {
				la.Roles[f] = map[string]bool{}
			}
			la.Roles[f][role] = true
			la.Reached[f] = true
		}
	}
}

func (la *LockAnalysis) RoleNames(f *ssa.Function) []string {
	var out []string
	for r := range la.Roles[f] {
		out = append(out, r)
	}
	sort.Strings(out)
	return out
}

// Concurrent: may code of role a run at the same time as code of role b (on shared objects)?
func rolesConcurrent(a, b string) bool {
	if a == "I" || b == "I" {
		return false
	}
	if a > b {
		a, b = b, a
	}
	switch a + b {
	case "CC", "FF", "CU":
		return false
	}
	return true
}

// ---- lockset dataflow ----

func joinLocks(a, b LockSet, must bool) LockSet {
	out := LockSet{}
	if must {
		for k, ma := range a {
			if mb, ok := b[k]; ok {
				if ma < 0 || mb < 0 {
					if ma < 0 && mb < 0 {
						out[k] = ma
					}
					continue
				}
				if mb < ma {
					out[k] = mb
				} else {
					out[k] = ma
				}
			}
		}
		// a lock released on one path is not held on the join
		return out
	}
	for k, m := range a {
		out[k] = m
	}
	for k, m := range b {
		if cur, ok := out[k]; !ok || m > cur {
			out[k] = m
		}
	}
	return out
}

func equalLocks(a, b LockSet) bool {
	if len(a) != len(b) {
		return false
	}
	for k, v := range a {
		if b[k] != v {
			return false
		}
	}
	return true
}

func (la *LockAnalysis) applyOp(s LockSet, op *LockOp) {
	if op.Unlock {
		if _, held := s[op.Lock]; held && s[op.Lock] > 0 {
			delete(s, op.Lock)
		} else {
			s[op.Lock] = -1 // released below the entry
		}
		return
	}
	if s[op.Lock] < 0 {
		delete(s, op.Lock)
	}
	if cur := s[op.Lock]; op.Mode > cur {
		s[op.Lock] = op.Mode
	}
}

func (la *LockAnalysis) applySummary(s LockSet, d LockSet) {
	for k, m := range d {
		if m < 0 {
			if s[k] > 0 {
				delete(s, k)
			} else {
				s[k] = -1
			}
		} else {
			if s[k] < 0 {
				delete(s, k)
			}
			if m > s[k] {
				s[k] = m
			}
		}
	}
}

// summary: net effect of calling f (locks held at every/some return that were not held at entry; locks released).
func (la *LockAnalysis) summary(f *ssa.Function, must bool) LockSet {
	cache := la.summ
	if !must {
		cache = la.summMay
	}
	if s, ok := cache[f]; ok {
		return s
	}
	if la.inSumm[f] {
		return LockSet{}
	}
	la.inSumm[f] = true
	defer delete(la.inSumm, f)
	res := la.flow(f, lstate{locks: LockSet{}}, must, nil)
	var out LockSet
	first := true
	for _, b := range f.Blocks {
		if !res.Reach[b] || len(b.Instrs) == 0 {
			continue
		}
		last := b.Instrs[len(b.Instrs)-1]
		if _, ok := last.(*ssa.Return); ok && res.Reached[last] {
			st := res.Before[last].locks
			if first {
				out = LockSet{}
				for k, v := range st {
					out[k] = v
				}
				first = false
			} else {
				out = joinLocks(out, st, must)
			}
		}
	}
	if out == nil {
		out = LockSet{}
	}
	cache[f] = out
	return out
}

// flow runs the lockset dataflow over f. onCall is invoked with the state before every call/go/defer-run site.
func (la *LockAnalysis) flow(f *ssa.Function, entry lstate, must bool, onCall func(site ssa.CallInstruction, s LockSet)) *FlowResult[lstate] {
	p := la.p
	spec := FlowSpec[lstate]{
		Entry: entry,
		Copy:  func(s lstate) lstate { return s.copy() },
		Join: func(a, b lstate) lstate {
			out := lstate{locks: joinLocks(a.locks, b.locks, must)}
			// defers: keep the longer list (conditional defers are rare; union is conservative for must-locksets)
			if len(a.defers) >= len(b.defers) {
				out.defers = append([]*ssa.Defer(nil), a.defers...)
			} else {
				out.defers = append([]*ssa.Defer(nil), b.defers...)
			}
			return out
		},
		Equal: func(a, b lstate) bool { return equalLocks(a.locks, b.locks) && len(a.defers) == len(b.defers) },
		Transfer: func(ins ssa.Instruction, s lstate) (lstate, bool) {
			switch x := ins.(type) {
			case *ssa.Defer:
				s.defers = append(s.defers, x)
				return s, true
			case *ssa.RunDefers:
				for i := len(s.defers) - 1; i >= 0; i-- {
					d := s.defers[i]
					if onCall != nil {
						onCall(d, s.locks)
					}
					if op := la.opAt[d]; op != nil {
						// a deferred unlock registered only on some paths (lock and defer inside a branch) does not run on the
						// paths that did not take the lock
						if op.Unlock && s.locks[op.Lock] <= 0 {
							continue
						}
						la.applyOp(s.locks, op)
						continue
					}
					for _, g := range p.Callees(d) {
						la.applySummary(s.locks, la.summary(g, must))
					}
				}
				s.defers = nil
				return s, true
			case *ssa.Go:
				if onCall != nil {
					onCall(x, LockSet{})
				}
				return s, true
			case *ssa.Call:
				if onCall != nil {
					onCall(x, s.locks)
				}
				if op := la.opAt[ins]; op != nil {
					la.applyOp(s.locks, op)
					return s, true
				}
				for _, g := range p.Callees(x) {
					la.applySummary(s.locks, la.summary(g, must))
				}
				return s, true
			}
			return s, true
		},
	}
	return RunFlow(p, f, spec)
}

func (la *LockAnalysis) solve(must bool) {
	p := la.p
	entry := map[*ssa.Function]LockSet{}
	have := map[*ssa.Function]bool{}
	var roots []*ssa.Function
	for _, rs := range la.RoleRoots {
		roots = append(roots, rs...)
	}
	for _, f := range roots {
		entry[f] = LockSet{}
		have[f] = true
	}
	results := map[*ssa.Function]*FlowResult[lstate]{}
	changed := true
	for iter := 0; changed && iter < 50; iter++ {
		changed = false
		for _, f := range p.Funcs {
			if !have[f] {
				continue
			}
			res := la.flow(f, lstate{locks: copyLocks(entry[f])}, must, func(site ssa.CallInstruction, s LockSet) {
				if _, isGo := site.(*ssa.Go); isGo {
					s = LockSet{}
				}
				for _, g := range p.Callees(site) {
					clean := LockSet{}
					for k, v := range s {
						if v > 0 {
							clean[k] = v
						}
					}
					if !have[g] {
						have[g] = true
						entry[g] = clean
						changed = true
					} else {
						j := joinLocks(entry[g], clean, must)
						if !equalLocks(j, entry[g]) {
							entry[g] = j
							changed = true
						}
					}
				}
			})
			results[f] = res
			// closures created here and not called directly (e.g. passed to slices.SortFunc) run with the creator's locks
			for _, b := range f.Blocks {
				for _, ins := range b.Instrs {
					mc, ok := ins.(*ssa.MakeClosure)
					if !ok || !res.Reached[ins] {
						continue
					}
					direct := false
					for _, ref := range *mc.Referrers() {
						if ci, ok := ref.(ssa.CallInstruction); ok && ci.Common().Value == mc {
							direct = true
						}
					}
					if direct {
						continue
					}
					g := mc.Fn.(*ssa.Function)
					clean := LockSet{}
					for k, v := range res.Before[ins].locks {
						if v > 0 {
							clean[k] = v
						}
					}
					if !have[g] {
						have[g] = true
						entry[g] = clean
						changed = true
					} else {
						j := joinLocks(entry[g], clean, must)
						if !equalLocks(j, entry[g]) {
							entry[g] = j
							changed = true
						}
					}
				}
			}
		}
	}
	dst := la.Must
	if !must {
		dst = la.May
	}
	for f, res := range results {
		for ins, st := range res.Before {
			clean := LockSet{}
			for k, v := range st.locks {
				if v > 0 {
					clean[k] = v
				}
			}
			dst[ins] = clean
		}
		_ = f
	}
	if must {
		la.EntryMu = entry
	} else {
		la.EntryMa = entry
	}
}

func copyLocks(l LockSet) LockSet {
	c := LockSet{}
	for k, v := range l {
		c[k] = v
	}
	return c
}

// ---- channel classes and blocking operations ----

// chanClass names a channel value by the field/global/local it comes from.
func (p *Prog) chanClass(v ssa.Value) string {
	v = stripValue(v)
	switch x := v.(type) {
	case *ssa.UnOp:
		if x.Op == token.MUL {
			if fv, _ := fieldOfAddr(x.X); fv != nil {
				return p.fieldName(fv)
			}
			if g, ok := x.X.(*ssa.Global); ok {
				return g.Name()
			}
		}
	case *ssa.Field:
		st := x.X.Type().Underlying().(*types.Struct)
		return p.fieldName(st.Field(x.Field))
	case *ssa.MakeChan:
		// a local channel: named after the struct field it is stored into, if any
		for _, ref := range *x.Referrers() {
			if st, ok := ref.(*ssa.Store); ok {
				if fv, _ := fieldOfAddr(st.Addr); fv != nil {
					return p.fieldName(fv)
				}
			}
		}
		return "local-chan"
	case *ssa.Call:
		if obj := p.CalleeObj(x); obj != nil {
			return "result:" + obj.FullName()
		}
	case *ssa.Phi:
		for _, e := range x.Edges {
			if c := p.chanClass(e); c != "" && c != "?" {
				return c
			}
		}
	case *ssa.Lookup, *ssa.Index, *ssa.IndexAddr, *ssa.Extract, *ssa.Next:
		// element of a container (e.g. waiters[t][i]): name by element type
	}
	return "?"
}

func (la *LockAnalysis) BlockingOps() []BlockingOp {
	p := la.p
	var out []BlockingOp
	for _, f := range p.Funcs {
		for _, b := range f.Blocks {
			for _, ins := range b.Instrs {
				switch x := ins.(type) {
				case *ssa.Send:
					out = append(out, BlockingOp{Ins: ins, Fn: f, Kind: "send", Chan: p.chanClass(x.Chan)})
				case *ssa.UnOp:
					if x.Op == token.ARROW {
						out = append(out, BlockingOp{Ins: ins, Fn: f, Kind: "recv", Chan: p.chanClass(x.X)})
					}
				case *ssa.Select:
					if !x.Blocking {
						continue
					}
					op := BlockingOp{Ins: ins, Fn: f, Kind: "select"}
					for _, st := range x.States {
						op.Chans = append(op.Chans, p.chanClass(st.Chan))
						op.Dirs = append(op.Dirs, st.Dir)
					}
					op.Chan = strings.Join(op.Chans, "|")
					out = append(out, op)
				case *ssa.Call:
					obj := p.CalleeObj(x)
					if obj != nil && (funcIs(obj, "sync", "WaitGroup", "Wait") || funcIs(obj, "sync", "Cond", "Wait")) {
						out = append(out, BlockingOp{Ins: ins, Fn: f, Kind: "wait", Chan: obj.FullName()})
					}
				}
			}
		}
	}
	return out
}

// LocksAcquiredIn: lock classes that may be acquired by any function in the set.
func (la *LockAnalysis) LocksAcquiredIn(fns map[*ssa.Function]bool) map[string]bool {
	out := map[string]bool{}
	for _, op := range la.Ops {
		if !op.Unlock && fns[op.Fn] {
			out[op.Lock] = true
		}
	}
	return out
}
