package main

// Generic forward dataflow over go/ssa basic blocks. No-return calls end a path.

import (
	"golang.org/x/tools/go/ssa"
)

type FlowSpec[S any] struct {
	Entry S
	Join  func(a, b S) S
	Equal func(a, b S) bool
	Copy  func(S) S
	// Transfer returns the state after ins. ok=false: no path continues past ins.
	Transfer func(ins ssa.Instruction, s S) (S, bool)
	// Edge refines the state flowing from the end of block b to b.Succs[i]. ok=false: edge infeasible. May be nil.
	Edge func(b *ssa.BasicBlock, i int, s S) (S, bool)
}

type FlowResult[S any] struct {
	In     map[*ssa.BasicBlock]S
	Before map[ssa.Instruction]S
	Reach  map[*ssa.BasicBlock]bool
	// Dead: instructions after which no path continues (no-return calls), and instructions never reached
	Reached map[ssa.Instruction]bool
}

func RunFlow[S any](p *Prog, f *ssa.Function, spec FlowSpec[S]) *FlowResult[S] {
	res := &FlowResult[S]{In: map[*ssa.BasicBlock]S{}, Before: map[ssa.Instruction]S{}, Reach: map[*ssa.BasicBlock]bool{}, Reached: map[ssa.Instruction]bool{}}
	if len(f.Blocks) == 0 {
		return res
	}
	entry := f.Blocks[0]
	res.In[entry] = spec.Copy(spec.Entry)
	res.Reach[entry] = true
	work := []*ssa.BasicBlock{entry}
	inWork := map[*ssa.BasicBlock]bool{entry: true}
	iter := 0
	for len(work) > 0 {
		iter++
		if iter > 100000 {
			panic("dataflow did not converge in " + f.String())
		}
		b := work[0]
		work = work[1:]
		inWork[b] = false
		s := spec.Copy(res.In[b])
		alive := true
		for _, ins := range b.Instrs {
			var ok bool
			if ci, isCall := ins.(*ssa.Call); isCall && p.CallNoReturn(ci) {
				// effects of the call itself still apply before the path ends
				_, _ = spec.Transfer(ins, s)
				alive = false
				break
			}
			s, ok = spec.Transfer(ins, s)
			if !ok {
				alive = false
				break
			}
		}
		if !alive {
			continue
		}
		for i, succ := range b.Succs {
			out := spec.Copy(s)
			if spec.Edge != nil {
				var ok bool
				out, ok = spec.Edge(b, i, out)
				if !ok {
					continue
				}
			}
			if !res.Reach[succ] {
				res.Reach[succ] = true
				res.In[succ] = out
			} else {
				j := spec.Join(res.In[succ], out)
				if spec.Equal(j, res.In[succ]) {
					continue
				}
				res.In[succ] = j
			}
			if !inWork[succ] {
				inWork[succ] = true
				work = append(work, succ)
			}
		}
	}
	// final pass: record the state before every reached instruction
	for _, b := range f.Blocks {
		if !res.Reach[b] {
			continue
		}
		s := spec.Copy(res.In[b])
		for _, ins := range b.Instrs {
			res.Before[ins] = spec.Copy(s)
			res.Reached[ins] = true
			if ci, isCall := ins.(*ssa.Call); isCall && p.CallNoReturn(ci) {
				break
			}
			var ok bool
			s, ok = spec.Transfer(ins, s)
			if !ok {
				break
			}
		}
	}
	return res
}

// ---- a small string-set state used by most must-analyses ----

type FactSet map[string]bool

func (s FactSet) Copy() FactSet {
	c := make(FactSet, len(s))
	for k, v := range s {
		if v {
			c[k] = true
		}
	}
	return c
}

func FactIntersect(a, b FactSet) FactSet {
	c := FactSet{}
	for k := range a {
		if a[k] && b[k] {
			c[k] = true
		}
	}
	return c
}

func FactUnion(a, b FactSet) FactSet {
	c := a.Copy()
	for k := range b {
		if b[k] {
			c[k] = true
		}
	}
	return c
}

func FactEqual(a, b FactSet) bool {
	if len(a) != len(b) {
		return false
	}
	for k := range a {
		if !b[k] {
			return false
		}
	}
	return true
}

// errEdge: if block b ends in `if v != nil` / `if v == nil` on an error (or any nil-comparable) value, returns
// that value and the successor index on which v == nil holds.
func nilTestEdge(b *ssa.BasicBlock) (v ssa.Value, nilSucc int, ok bool) {
	if len(b.Instrs) == 0 {
		return nil, 0, false
	}
	iff, isIf := b.Instrs[len(b.Instrs)-1].(*ssa.If)
	if !isIf {
		return nil, 0, false
	}
	return nilTestCond(iff.Cond)
}

func nilTestCond(c ssa.Value) (v ssa.Value, nilSucc int, ok bool) {
	switch x := c.(type) {
	case *ssa.BinOp:
		var other ssa.Value
		if isNilConst(x.Y) {
			other = x.X
		} else if isNilConst(x.X) {
			other = x.Y
		} else {
			return nil, 0, false
		}
		switch x.Op.String() {
		case "!=":
			return other, 1, true
		case "==":
			return other, 0, true
		}
	case *ssa.UnOp:
		if x.Op.String() == "!" {
			v, s, ok := nilTestCond(x.X)
			if ok {
				return v, 1 - s, true
			}
		}
	}
	return nil, 0, false
}
