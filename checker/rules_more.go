package main

// Rules added after the first rounds of seeded changes (see DESIGN.md §9), and scoped variants of shared rules.

import (
	"fmt"
	"go/token"
	"go/types"
	"strings"

	"golang.org/x/tools/go/ssa"
)

func init() {
	register(&Rule{ID: "CLOSE.STATE", Engine: "E-PATH", Min: 2,
		Desc: "Close stores StateClosed on every path and after its work, so that View/Update answer ErrDBClosed afterwards",
		Run:  runCloseState})
	register(&Rule{ID: "FLUSH.DRAIN", Engine: "E-GUARD", Min: 1,
		Desc: "the flusher leaves its loop only when the flush queue is empty: every exit edge is dominated by len(flushC) == 0, so no rotated memtable is left unflushed when Close returns",
		Run:  runFlushDrain})
	register(&Rule{ID: "ORACLE.ACCUM", Engine: "E-DEP", Min: 2,
		Desc: "the maximum version returned by each recovery is accumulated over all files and entries: every loop-carried value on the way to the result is updated from itself (max(acc, x)), never overwritten",
		Run:  runOracleAccum})
	register(&Rule{ID: "WM.HEAP", Engine: "E-PATH", Min: 2,
		Desc: "heap membership and the pending map stay in step: an index is pushed exactly when it has no pending entry, and when it is popped its pending entry is deleted before the next mark is handled",
		Run:  runWmHeap})
	register(&Rule{ID: "RACE.READPATH", Engine: "E-LOCK+E-RACE", Min: 8,
		Desc: "RACE.FIELDS restricted to the state a lookup reads (DB, memtable, skiplist, level lists, table handles, bloom filters): a race there makes a read return a wrong answer",
		Run: func(c *Ctx, r *RuleRun) {
			runRace(c, r)
			keep := r.out[:0]
			for _, in := range r.out {
				switch in.Func {
				case "DB", "memtable", "SkipList", "Element", "Entry", "levelManager", "tableHandle", "Filter":
					if in.Construct == "DB.state" {
						continue
					}
					keep = append(keep, in)
				}
			}
			r.out = keep
		}})
	scoped := func(id, desc string, min int, owners ...string) {
		register(&Rule{ID: id, Engine: "E-LOCK+E-RACE", Min: min, Desc: desc,
			Run: func(c *Ctx, r *RuleRun) {
				runRace(c, r)
				keep := r.out[:0]
				for _, in := range r.out {
					for _, o := range owners {
						if in.Func == o {
							keep = append(keep, in)
						}
					}
				}
				r.out = keep
			}})
	}
	register(&Rule{ID: "RACE.WAL", Engine: "E-LOCK+E-RACE", Min: 1,
		Desc: "package wal used on its own from several goroutines (C11's quantifier): every exported function may run concurrently with every other; the file handle, its offset and the other fields of a WAL are accessed under WAL.mu, writers and users of the shared offset exclusively",
		Run: func(c *Ctx, r *RuleRun) {
			var la *LockAnalysis
			if v, ok := c.memo["locks:wal"]; ok {
				la = v.(*LockAnalysis)
			} else {
				la = newLockAnalysisFor(c.P, "wal")
				c.memo["locks:wal"] = la
			}
			runRaceWith(c, r, la, c.racesFor(la, "races:wal"))
			keep := r.out[:0]
			for _, in := range r.out {
				if in.Func == "WAL" {
					keep = append(keep, in)
				}
			}
			r.out = keep
		}})
	scoped("RACE.FILTER", "RACE.FIELDS restricted to the bloom filter: its hash functions are stateful, lookups and builds of a shared filter are serialised exclusively", 1, "Filter")
	register(&Rule{ID: "DUR.REMOVE.TABLE", Engine: "E-PATH", Min: 4,
		Desc: "DUR.REMOVE restricted to table files: compaction inputs are deleted only after the output table was fsynced and renamed into place",
		Run: func(c *Ctx, r *RuleRun) {
			runDurRemove(c, r)
			keep := r.out[:0]
			for _, in := range r.out {
				if strings.Contains(in.Construct, "remove(table)") || in.Verdict == Undecided {
					keep = append(keep, in)
				}
			}
			r.out = keep
		}})
}

func runFlushDrain(c *Ctx, r *RuleRun) {
	p := c.P
	la := c.Locks()
	flushC := p.Field("", "DB", "flushC")
	closed := p.Field("", "DB", "closed")
	if flushC == nil || closed == nil || len(la.RoleRoots["F"]) == 0 {
		r.Undecided("-", "flusher", "", "DB.flushC / DB.closed / the goroutine started by Open not found")
		return
	}
	for _, f := range la.RoleRoots["F"] {
		fn := p.FnName(f)
		// the exit: the block that closes DB.closed; walk back over straight-line predecessors to the loop exits
		var exitBlock *ssa.BasicBlock
		eachInstr(f, func(ins ssa.Instruction) {
			call, ok := ins.(*ssa.Call)
			if !ok {
				return
			}
			if bi, ok := call.Call.Value.(*ssa.Builtin); ok && bi.Name() == "close" {
				if fv, _ := loadedField(call.Call.Args[0]); fv == closed {
					exitBlock = call.Block()
				}
			}
		})
		if exitBlock == nil {
			r.Undecided(fn, "exit", p.Pos(f.Pos()), "no close(db.closed) in the flusher")
			continue
		}
		emptyQueue := func(cm Cmp) bool {
			if cm.Y == nil {
				return false
			}
			k, ok := constInt(cm.Y)
			if !ok || k != 0 || !(cm.Op == "==" || cm.Op == "<=") {
				return false
			}
			lc, ok := cm.X.(*ssa.Call)
			if !ok {
				return false
			}
			bi, ok := lc.Call.Value.(*ssa.Builtin)
			if !ok || bi.Name() != "len" {
				return false
			}
			fv, _ := loadedField(lc.Call.Args[0])
			return fv == flushC
		}
		n := 0
		for _, pred := range exitBlock.Preds {
			if !inLoop(pred) {
				continue
			}
			n++
			last := pred.Instrs[len(pred.Instrs)-1]
			ok := false
			// the fact may be established by the branch at the end of pred itself
			if iff, isIf := last.(*ssa.If); isIf {
				for si, s := range pred.Succs {
					if s == exitBlock {
						cm := canonCond(iff.Cond, si == 0)
						if emptyQueue(cm) || emptyQueue(cm.Flip()) {
							ok = true
						}
					}
				}
			}
			if !ok && hasFact(last, emptyQueue) {
				ok = true
			}
			r.Check(ok, fn, "exit only with an empty queue", p.Pos(instrPos(last)), "this way out of the loop is taken only when len(flushC) == 0",
				"the flusher can stop while rotated memtables are still queued: Close returns with their wal files left behind, and the next Open replays them over newer data")
		}
		if n == 0 {
			r.Undecided(fn, "loop exits", p.Pos(f.Pos()), "the flusher's loop exits were not found")
		}
	}
}

func runOracleAccum(c *Ctx, r *RuleRun) {
	p := c.P
	ver := p.Field("types", "Entry", "Version")
	for _, name := range []string{"memtable", "levelManager"} {
		f := p.Fn("", name, "recover")
		if f == nil {
			r.Undecided("-", name+".recover", "", "anchor not found")
			continue
		}
		fn := p.FnName(f)
		// phis on the dependence path from the returned value to the versions read
		seen := map[ssa.Value]bool{}
		var phis []*ssa.Phi
		var walk func(v ssa.Value, d int)
		walk = func(v ssa.Value, d int) {
			if v == nil || d > 12 || seen[v] {
				return
			}
			seen[v] = true
			switch x := v.(type) {
			case *ssa.Phi:
				phis = append(phis, x)
				for _, e := range x.Edges {
					walk(e, d+1)
				}
			case *ssa.Call:
				for _, a := range x.Call.Args {
					walk(a, d+1)
				}
			case *ssa.Convert:
				walk(x.X, d+1)
			case *ssa.BinOp:
				walk(x.X, d+1)
				walk(x.Y, d+1)
			}
		}
		eachInstr(f, func(ins ssa.Instruction) {
			if ret, ok := ins.(*ssa.Return); ok {
				walk(retOperand(ret, 0), 0)
			}
		})
		dependsOnVersion := func(v ssa.Value) bool {
			return p.dependsOn(v, func(x ssa.Value) bool { return isLoadOfField(x, ver) })
		}
		n := 0
		for _, ph := range phis {
			if !inLoop(ph.Block()) || !dependsOnVersion(ph) {
				continue
			}
			n++
			ok := true
			for i, e := range ph.Edges {
				pred := ph.Block().Preds[i]
				back := ph.Block().Dominates(pred)
				if !back {
					continue
				}
				if e == ssa.Value(ph) {
					continue
				}
				// the value coming round the loop must be computed from the accumulator itself (or from an inner accumulator
				// that was initialised from it)
				if !p.dependsOn(e, func(x ssa.Value) bool { return x == ssa.Value(ph) }) {
					ok = false
				}
			}
			r.Check(ok, fn, "max accumulator", p.Pos(instrPos(ph)), "carried round the loop as max(acc, …)",
				"the maximum version is overwritten instead of accumulated in this loop: the result is the maximum of the last file/entry only, nextTs restarts below stored versions and new commits are shadowed by older ones")
		}
		if n == 0 {
			r.Undecided(fn, "max accumulator", p.Pos(f.Pos()), "no loop-carried maximum on the way to the result")
		}
	}
}

func runWmHeap(c *Ctx, r *RuleRun) {
	a := wmGet(c, r)
	if a == nil {
		return
	}
	p := c.P
	f := a.process
	fn := p.FnName(f)
	isHeapCall := func(ins ssa.Instruction, name string) *ssa.Call {
		call, ok := ins.(*ssa.Call)
		if !ok {
			return nil
		}
		if obj := p.CalleeObj(call); obj != nil && funcIs(obj, "container/heap", "", name) {
			return call
		}
		return nil
	}
	isDelete := func(ins ssa.Instruction) bool {
		call, ok := ins.(*ssa.Call)
		if !ok {
			return false
		}
		bi, ok := call.Call.Value.(*ssa.Builtin)
		if !ok || bi.Name() != "delete" {
			return false
		}
		// the pending map: map[uint64]int
		mt, ok := call.Call.Args[0].Type().Underlying().(*types.Map)
		if !ok {
			return false
		}
		bt, ok := mt.Elem().Underlying().(*types.Basic)
		return ok && bt.Info()&types.IsInteger != 0
	}
	var sel ssa.Instruction
	eachInstr(f, func(ins ssa.Instruction) {
		if s, ok := ins.(*ssa.Select); ok {
			sel = s
		}
	})
	nPop, nPush := 0, 0
	eachInstr(f, func(ins ssa.Instruction) {
		if pop := isHeapCall(ins, "Pop"); pop != nil {
			nPop++
			// after the pop, the pending entry is deleted before the loop tests the heap again or the next mark is received
			q := PathQuery{P: p, Fn: f, Starts: []ssa.Instruction{pop}, Avoid: isDelete, Target: func(i ssa.Instruction) bool {
				if i == sel || isReturn(i) {
					return true
				}
				return isHeapCall(i, "Pop") != nil
			}}
			r.Check(q.FindPath() == nil, fn, "pop deletes the pending entry", p.Pos(instrPos(pop)), "delete(pending, ts) follows heap.Pop on every path",
				"an index is popped from the heap but its pending entry stays: a later Begin of the same index (read timestamps repeat) finds the stale entry, is not pushed again and is never tracked - the watermark passes an open transaction")
		}
		if push := isHeapCall(ins, "Push"); push != nil {
			nPush++
			ok := boolFactIs(push, isLookupOK, false)
			r.Check(ok, fn, "push iff no pending entry", p.Pos(instrPos(push)), "pushed only when the index has no pending entry", "an index is pushed although it already has a pending entry (or regardless of it): the heap holds duplicates or misses indices")
		}
	})
	if nPop == 0 || nPush == 0 {
		r.Undecided(fn, "heap use", p.Pos(f.Pos()), fmt.Sprintf("%d heap.Pop and %d heap.Push calls found", nPop, nPush))
	}
	_ = token.NoPos
}

func init() {
	register(&Rule{ID: "CMP.L0ALL", Engine: "E-CG", Min: 1,
		Desc: "the L0 inputs of a compaction are chosen without looking at keys (L0 tables are ordered by age only and may all overlap): the function that selects them reaches no key comparison",
		Run:  runCmpL0All})
	register(&Rule{ID: "CODEC.BYTES", Engine: "E-SIB", Min: 1,
		Desc: "keys are byte strings: the shared-prefix computation steps by byte (no range over a string / rune conversion), so that encoder and decoder agree on prefix lengths for every byte sequence",
		Run:  runCodecBytes})
	register(&Rule{ID: "BLOOM.ALL", Engine: "E-GUARD", Min: 1,
		Desc: "filter.Build adds every entry it is given: the Add call in its loop is not under a data-dependent condition",
		Run:  runBloomAll})
	register(&Rule{ID: "SKIP.LEVEL", Engine: "E-GUARD", Min: 1,
		Desc: "the skiplist's current height only grows in Set (stored only when the new tower is taller), because Delete unlinks levels below the current height only",
		Run:  runSkipLevel})
	register(&Rule{ID: "LIVE.CLOSEREQ", Engine: "E-PATH", Min: 1,
		Desc: "the flusher remembers a close request: on every way back from the closeC arm of its select to the next select, the loop-carried closed flag is true",
		Run:  runLiveCloseReq})
}

func runCmpL0All(c *Ctx, r *RuleRun) {
	p := c.P
	la := c.Locks()
	fetch := p.Fn("", "levelManager", "fetch")
	cmpKeys := p.Fn("types", "", "CompareKeys")
	parseKey := p.Fn("types", "", "ParseKey")
	if fetch == nil || cmpKeys == nil {
		r.Undecided("-", "levelManager.fetch", "", "anchor not found")
		return
	}
	n := 0
	for _, cf := range compactors(c) {
		for _, fc := range callsTo(p, cf, fetch) {
			if k, ok := constInt(fc.Call.Args[1]); !ok || k != 0 {
				continue
			}
			// the selection function: the module call the fetched element set comes from
			var sel *ssa.Call
			p.dependsOn(fc.Call.Args[2], func(x ssa.Value) bool {
				if call, ok := x.(*ssa.Call); ok {
					if g := call.Call.StaticCallee(); g != nil && p.InModule(g) && g.Signature.Recv() != nil && call.Parent() == cf {
						sel = call
						return true
					}
				}
				return false
			})
			if sel == nil {
				r.Undecided(p.FnName(cf), "L0 selection", p.Pos(instrPos(fc)), "cannot find the call that selects the L0 tables")
				continue
			}
			n++
			bad := ""
			for g := range la.roleReach(p.Callees(sel)) {
				if g == cmpKeys || g == parseKey {
					bad = p.FnName(g)
				}
				eachInstr(g, func(ins ssa.Instruction) {
					if bo, ok := ins.(*ssa.BinOp); ok {
						switch bo.Op {
						case token.LSS, token.LEQ, token.GTR, token.GEQ:
							if bt, ok := bo.X.Type().Underlying().(*types.Basic); ok && bt.Info()&types.IsString != 0 {
								bad = "a string comparison in " + p.FnName(g)
							}
						}
					}
				})
			}
			r.Check(bad == "", p.FnName(cf), "L0 selection ignores keys", p.Pos(instrPos(sel)), "every L0 table is taken, no key range is consulted",
				"the L0 tables to compact are selected by key range (reaches "+bad+"): an older L0 table that does not overlap the oldest one stays in L0 while newer data moves to L1, and answers lookups with its older versions")
		}
	}
	if n == 0 {
		r.Undecided("-", "L0 compaction", "", "no compaction fetches level 0")
	}
}

func runCodecBytes(c *Ctx, r *RuleRun) {
	p := c.P
	lcp := p.Fn("utils", "", "LCP")
	if lcp == nil {
		r.Undecided("-", "utils.LCP", "", "anchor not found")
		return
	}
	var fns []*ssa.Function
	for g := range p.Reach(lcp) {
		fns = append(fns, g)
	}
	for _, n := range []string{"Encode", "Decode"} {
		if f := p.Fn("table", "Data", n); f != nil {
			fns = append(fns, f)
		}
	}
	for _, f := range fns {
		bad := ""
		var pos token.Pos = f.Pos()
		eachInstr(f, func(ins ssa.Instruction) {
			switch x := ins.(type) {
			case *ssa.Range:
				if bt, ok := x.X.Type().Underlying().(*types.Basic); ok && bt.Info()&types.IsString != 0 {
					bad = "ranges over a string (steps by rune)"
					pos = instrPos(x)
				}
			case *ssa.Convert:
				if sl, ok := x.Type().Underlying().(*types.Slice); ok {
					if bt, ok := sl.Elem().Underlying().(*types.Basic); ok && bt.Kind() == types.Rune {
						if st, ok := x.X.Type().Underlying().(*types.Basic); ok && st.Info()&types.IsString != 0 {
							bad = "converts a key to []rune"
							pos = instrPos(x)
						}
					}
				}
			}
		})
		r.Check(bad == "", p.FnName(f), "bytewise", p.Pos(pos), "keys are handled byte by byte",
			p.FnName(f)+" "+bad+": the shared prefix of two keys that differ inside a multi-byte UTF-8 sequence is over-estimated and the decoder rebuilds a different key")
	}
}

func runBloomAll(c *Ctx, r *RuleRun) {
	p := c.P
	build := p.Fn("pkg/filter", "", "Build")
	add := p.Fn("pkg/filter", "Filter", "Add")
	if build == nil || add == nil {
		r.Undecided("-", "filter.Build", "", "anchor not found")
		return
	}
	calls := callsTo(p, build, add)
	if len(calls) == 0 {
		r.Viol(p.FnName(build), "adds every entry", p.Pos(build.Pos()), "filter.Build never calls Add")
		return
	}
	isAdd := func(i ssa.Instruction) bool {
		for _, cl := range calls {
			if i == ssa.Instruction(cl) {
				return true
			}
		}
		return false
	}
	// every iteration over the entries passes an Add: from the element access no way leads to the next element access or
	// to the return without one
	var elems []ssa.Instruction
	if len(build.Params) > 0 {
		for _, ref := range *build.Params[0].Referrers() {
			switch x := ref.(type) {
			case *ssa.IndexAddr:
				if inLoop(x.Block()) {
					elems = append(elems, x)
				}
			case *ssa.Index:
				if inLoop(x.Block()) {
					elems = append(elems, x)
				}
			}
		}
	}
	if len(elems) == 0 {
		r.Undecided(p.FnName(build), "adds every entry", p.Pos(build.Pos()), "no loop over the entries found")
		return
	}
	for _, el := range elems {
		q := PathQuery{P: p, Fn: build, Starts: []ssa.Instruction{el}, Avoid: isAdd, Target: func(i ssa.Instruction) bool { return i == el || isReturn(i) }}
		w := q.FindPath()
		if w != nil {
			r.Viol(p.FnName(build), "adds every entry", p.Pos(instrPos(el)), "filter.Build can skip an entry (an iteration of its loop passes no Add): a key of the table is missing from its filter and lookups of it are denied", p.describePath(w)...)
		} else {
			r.Hold(p.FnName(build), "adds every entry", p.Pos(instrPos(el)), "every iteration calls Add")
		}
	}
}

func runSkipLevel(c *Ctx, r *RuleRun) {
	p := c.P
	set := p.Fn("pkg/skiplist", "SkipList", "Set")
	lvl := p.Field("pkg/skiplist", "SkipList", "level")
	if set == nil || lvl == nil {
		r.Undecided("-", "SkipList.Set", "", "anchor not found")
		return
	}
	for _, st := range storesToField(set, lvl) {
		ok := hasFact(st, func(cm Cmp) bool {
			return cm.Op == ">" && cm.X == st.Val && cm.Y != nil && isLoadOfField(cm.Y, lvl)
		})
		r.Check(ok, p.FnName(set), "height only grows", p.Pos(instrPos(st)), "stored only when the new tower is taller than the current height",
			"the list height follows the last inserted tower and can shrink below existing towers: Delete then unlinks a tall node only on the lower levels, the node stays linked above and later insertions behind it are unreachable on level 0")
	}
}

func runLiveCloseReq(c *Ctx, r *RuleRun) {
	p := c.P
	la := c.Locks()
	closeC := p.Field("", "DB", "closeC")
	if closeC == nil || len(la.RoleRoots["F"]) == 0 {
		r.Undecided("-", "flusher", "", "DB.closeC / the goroutine started by Open not found")
		return
	}
	for _, f := range la.RoleRoots["F"] {
		fn := p.FnName(f)
		var sel *ssa.Select
		arm := -1
		eachInstr(f, func(ins ssa.Instruction) {
			if s, ok := ins.(*ssa.Select); ok {
				for i, st := range s.States {
					if fv, _ := loadedField(st.Chan); fv == closeC {
						sel, arm = s, i
					}
				}
			}
		})
		if sel == nil {
			r.Undecided(fn, "closeC arm", p.Pos(f.Pos()), "the flusher does not receive from DB.closeC in a select")
			continue
		}
		hdr := sel.Block()
		inArm := func(b *ssa.BasicBlock) bool {
			if len(b.Instrs) == 0 {
				return false
			}
			return hasFact(b.Instrs[len(b.Instrs)-1], func(cm Cmp) bool {
				ex, ok := cm.X.(*ssa.Extract)
				if !ok || ex.Tuple != ssa.Value(sel) || ex.Index != 0 || cm.Op != "==" || cm.Y == nil {
					return false
				}
				k, ok := constInt(cm.Y)
				return ok && int(k) == arm
			})
		}
		n := 0
		for i, pred := range hdr.Preds {
			if !inArm(pred) {
				continue
			}
			n++
			ok := false
			eachInstr(f, func(ins ssa.Instruction) {
				ph, isPhi := ins.(*ssa.Phi)
				if !isPhi || ph.Block() != hdr {
					return
				}
				if bt, isB := ph.Type().Underlying().(*types.Basic); isB && bt.Kind() == types.Bool && isConstBool(ph.Edges[i], true) {
					ok = true
				}
			})
			last := pred.Instrs[len(pred.Instrs)-1]
			r.Check(ok, fn, "close request remembered", p.Pos(instrPos(last)), "going back to the select after a close request carries closed = true",
				"the flusher can go back to waiting after it received the close request without remembering it: once the queue is drained it parks forever and Close never returns")
		}
		if n == 0 {
			r.Hold(fn, "close request remembered", p.Pos(instrPos(sel)), "the closeC arm always leaves the loop")
		}
	}
}
