package main

// Rules added after the first rounds of seeded changes (see DESIGN.md §9), and scoped variants of shared rules.

import (
	"fmt"
	"go/token"
	"go/types"
	"sort"
	"strings"

	"golang.org/x/tools/go/ssa"
)

func init() {
	register(&Rule{ID: "CLOSE.STATE", Engine: "E-PATH", Min: 2,
		Desc: "Close stores StateClosed on every path and after its work, so that View/Update answer ErrDBClosed afterwards",
		Run:  runCloseState})
	register(&Rule{ID: "FLUSH.DRAIN", Engine: "E-GUARD", Min: 1,
		Desc: "the flusher leaves its loop only when the flush queue is empty: every exit edge is dominated by len(flushC) == 0, so no rotated memtable is left unflushed when Close returns",
		Run:  runFlushDrain})
	register(&Rule{ID: "ORACLE.ACCUM", Engine: "E-DEP", Min: 2,
		Desc: "the maximum version returned by each recovery is accumulated over all files and entries: every loop-carried value on the way to the result is updated from itself (max(acc, x)), never overwritten",
		Run:  runOracleAccum})
	register(&Rule{ID: "WM.HEAP", Engine: "E-PATH", Min: 2,
		Desc: "heap membership and the pending map stay in step: an index is pushed exactly when it has no pending entry, and when it is popped its pending entry is deleted before the next mark is handled",
		Run:  runWmHeap})
	register(&Rule{ID: "RACE.READPATH", Engine: "E-LOCK+E-RACE", Min: 8,
		Desc: "RACE.FIELDS restricted to the state a lookup reads (DB, memtable, skiplist, level lists, table handles, bloom filters): a race there makes a read return a wrong answer",
		Run: func(c *Ctx, r *RuleRun) {
			runRace(c, r)
			keep := r.out[:0]
			for _, in := range r.out {
				switch in.Func {
				case "DB", "memtable", "SkipList", "Element", "Entry", "levelManager", "tableHandle", "Filter":
					if in.Construct == "DB.state" {
						continue
					}
					keep = append(keep, in)
				}
			}
			r.out = keep
		}})
	scoped := func(id, desc string, min int, owners ...string) {
		register(&Rule{ID: id, Engine: "E-LOCK+E-RACE", Min: min, Desc: desc,
			Run: func(c *Ctx, r *RuleRun) {
				runRace(c, r)
				keep := r.out[:0]
				for _, in := range r.out {
					for _, o := range owners {
						if in.Func == o {
							keep = append(keep, in)
						}
					}
				}
				r.out = keep
			}})
	}
	register(&Rule{ID: "RACE.WAL", Engine: "E-LOCK+E-RACE", Min: 1,
		Desc: "package wal used on its own from several goroutines (C11's quantifier): every exported function may run concurrently with every other; the file handle, its offset and the other fields of a WAL are accessed under WAL.mu, writers and users of the shared offset exclusively",
		Run: func(c *Ctx, r *RuleRun) {
			var la *LockAnalysis
			if v, ok := c.memo["locks:wal"]; ok {
				la = v.(*LockAnalysis)
			} else {
				la = newLockAnalysisFor(c.P, "wal")
				c.memo["locks:wal"] = la
			}
			runRaceWith(c, r, la, c.racesFor(la, "races:wal"))
			keep := r.out[:0]
			for _, in := range r.out {
				if in.Func == "WAL" {
					keep = append(keep, in)
				}
			}
			r.out = keep
		}})
	register(&Rule{ID: "RACE.GLOBALS", Engine: "E-LOCK+E-RACE", Min: 0,
		Desc: "library packages used on their own from several goroutines (each exported function of the package may run concurrently with every other, no caller's lock assumed): package-level variables, and objects reachable only through them, are not written or used statefully without a lock of the package itself",
		Run: func(c *Ctx, r *RuleRun) {
			n := 0
			for _, rel := range []string{"table", "utils", "types", "pkg/filter", "pkg/kway", "pkg/bufferpool", "pkg/skiplist", "wal"} {
				if c.P.SSAPkg[c.P.pkgPath(rel)] == nil {
					continue
				}
				key := "locks:" + rel
				var la *LockAnalysis
				if v, ok := c.memo[key]; ok {
					la = v.(*LockAnalysis)
				} else {
					la = newLockAnalysisFor(c.P, rel)
					c.memo[key] = la
				}
				sub := &RuleRun{c: r.c, rule: r.rule}
				runRaceWith(c, sub, la, c.racesFor(la, "races:"+rel))
				for _, in := range sub.out {
					// package-level state only: struct fields of objects are the caller's business in this model
					if in.Func != "" {
						continue
					}
					n++
					in.Construct = rel + ": " + in.Construct
					r.out = append(r.out, in)
				}
			}
			if n == 0 {
				r.Hold("library packages", "no mutable package-level state", "", "no package-level variable of table, utils, types, filter, kway, bufferpool, skiplist, wal is written after initialisation or used statefully")
			}
		}})
	scoped("RACE.FILTER", "RACE.FIELDS restricted to the bloom filter: its hash functions are stateful, lookups and builds of a shared filter are serialised exclusively", 1, "Filter")
	register(&Rule{ID: "DUR.REMOVE.TABLE", Engine: "E-PATH", Min: 4,
		Desc: "DUR.REMOVE restricted to table files: compaction inputs are deleted only after the output table was fsynced and renamed into place",
		Run: func(c *Ctx, r *RuleRun) {
			runDurRemove(c, r)
			keep := r.out[:0]
			for _, in := range r.out {
				if strings.Contains(in.Construct, "remove(table)") || in.Verdict == Undecided {
					keep = append(keep, in)
				}
			}
			r.out = keep
		}})
}

func runFlushDrain(c *Ctx, r *RuleRun) {
	p := c.P
	la := c.Locks()
	flushC := p.Field("", "DB", "flushC")
	closed := p.Field("", "DB", "closed")
	if flushC == nil || closed == nil || len(la.RoleRoots["F"]) == 0 {
		r.Undecided("-", "flusher", "", "DB.flushC / DB.closed / the goroutine started by Open not found")
		return
	}
	loops := flusherLoops(c)
	for fi, root := range la.RoleRoots["F"] {
		f := loops[fi]
		fn := p.FnName(f)
		// the exit: the block that closes DB.closed; walk back over straight-line predecessors to the loop exits
		var exitBlock *ssa.BasicBlock
		eachInstr(root, func(ins ssa.Instruction) {
			call, ok := ins.(*ssa.Call)
			if !ok {
				return
			}
			if bi, ok := call.Call.Value.(*ssa.Builtin); ok && bi.Name() == "close" {
				if fv, _ := loadedField(call.Call.Args[0]); fv == closed {
					exitBlock = call.Block()
				}
			}
		})
		if exitBlock == nil {
			r.Undecided(fn, "exit", p.Pos(f.Pos()), "no close(db.closed) in the flusher")
			continue
		}
		// the loop lives in a helper: leaving the helper is the exit (the goroutine closes db.closed after the call)
		reachesExit := func(b *ssa.BasicBlock) bool { return b == exitBlock || reaches(b, exitBlock) }
		if f != root {
			reachesExit = func(b *ssa.BasicBlock) bool {
				for _, x := range f.Blocks {
					if len(x.Instrs) == 0 {
						continue
					}
					if _, isRet := x.Instrs[len(x.Instrs)-1].(*ssa.Return); isRet && (x == b || reaches(b, x)) {
						return true
					}
				}
				return false
			}
		}
		var emptyQueue func(cm Cmp) bool
		emptyQueue = func(cm Cmp) bool {
			if cm.Y == nil {
				// `drained()`: a parameterless helper or closure whose answer is that very test
				if call, isCall := cm.X.(*ssa.Call); isCall && (cm.Op == "true" || cm.Op == "false") {
					h := call.Call.StaticCallee()
					if h == nil || len(h.Blocks) == 0 || !p.InModule(h) || len(call.Call.Args) > 1 {
						return false
					}
					all, n := true, 0
					for _, rc := range returnCases(h) {
						if len(rc.Vals) != 1 {
							return false
						}
						n++
						bo, isBo := rc.Vals[0].(*ssa.BinOp)
						if !isBo {
							all = false
							continue
						}
						c2 := canonCond(bo, cm.Op == "true")
						if !(emptyQueue(c2) || emptyQueue(c2.Flip())) {
							all = false
						}
					}
					return all && n > 0
				}
				return false
			}
			k, ok := constInt(cm.Y)
			if !ok || k != 0 || !(cm.Op == "==" || cm.Op == "<=") {
				return false
			}
			lc, ok := cm.X.(*ssa.Call)
			if !ok {
				return false
			}
			bi, ok := lc.Call.Value.(*ssa.Builtin)
			if !ok || bi.Name() != "len" {
				return false
			}
			fv, _ := loadedField(lc.Call.Args[0])
			return fv == flushC
		}
		// the loop: blocks on a cycle through the select; exit edges lead from it to the block that closes db.closed
		var sel *ssa.BasicBlock
		eachInstr(f, func(ins ssa.Instruction) {
			if s2, ok := ins.(*ssa.Select); ok {
				sel = s2.Block()
			}
		})
		if sel == nil {
			r.Undecided(fn, "loop", p.Pos(f.Pos()), "the flusher has no select loop")
			continue
		}
		inL := map[*ssa.BasicBlock]bool{}
		for _, b := range f.Blocks {
			if reaches(b, sel) && reaches(sel, b) {
				inL[b] = true
			}
		}
		n := 0
		for _, b := range f.Blocks {
			if !inL[b] {
				continue
			}
			for si, sb := range b.Succs {
				if inL[sb] || !reachesExit(sb) {
					continue
				}
				n++
				last := b.Instrs[len(b.Instrs)-1]
				ok := false
				if iff, isIf := last.(*ssa.If); isIf {
					cm := canonCond(iff.Cond, si == 0)
					if emptyQueue(cm) || emptyQueue(cm.Flip()) {
						ok = true
					}
				}
				if !ok && hasFact(last, emptyQueue) {
					ok = true
				}
				// the way out is taken on a flag (`for !done`) that becomes true only as the value of len(flushC) == 0,
				// computed in the iteration that ends here (nothing is received between the test and the exit)
				if iff, isIf := last.(*ssa.If); isIf && !ok {
					cm := canonCond(iff.Cond, si == 0)
					if cm.Y == nil && cm.Op == "true" {
						var onlyEmpty func(v ssa.Value, d int) bool
						seenPhi := map[*ssa.Phi]bool{}
						onlyEmpty = func(v ssa.Value, d int) bool {
							if d > 6 {
								return false
							}
							switch x := v.(type) {
							case *ssa.Const:
								return isConstBool(x, false)
							case *ssa.BinOp:
								c2 := canonCond(x, true)
								return emptyQueue(c2) || emptyQueue(c2.Flip())
							case *ssa.Phi:
								if seenPhi[x] {
									return true
								}
								seenPhi[x] = true
								for _, e := range x.Edges {
									if !onlyEmpty(e, d+1) {
										return false
									}
								}
								return true
							}
							return false
						}
						ok = onlyEmpty(cm.X, 0)
					}
				}
				r.Check(ok, fn, "exit only with an empty queue", p.Pos(instrPos(last)), "this way out of the loop is taken only when len(flushC) == 0",
					"the flusher can stop while rotated memtables are still queued: Close returns with their wal files left behind, and the next Open replays them over newer data")
			}
		}
		if n == 0 {
			r.Undecided(fn, "loop exits", p.Pos(f.Pos()), "the flusher's loop exits were not found")
		}
	}
}

// flusherLoops: for every goroutine Open starts, the function that holds its select loop - the goroutine's function
// itself, or the one helper it hands the loop to (`run() { flushLoop(); close(closed) }`).
func flusherLoops(c *Ctx) []*ssa.Function {
	p := c.P
	var out []*ssa.Function
	for _, f := range c.Locks().RoleRoots["F"] {
		if h := p.directHolder(f, func(ins ssa.Instruction) bool { _, ok := ins.(*ssa.Select); return ok }); h != nil {
			out = append(out, h)
		} else {
			out = append(out, f)
		}
	}
	return out
}

func runOracleAccum(c *Ctx, r *RuleRun) {
	p := c.P
	ver := p.Field("types", "Entry", "Version")
	for _, name := range []string{"memtable", "levelManager"} {
		f := p.FnOr("", name, "recover")
		if f == nil {
			r.Undecided("-", name+".recover", "", "anchor not found")
			continue
		}
		fn := p.FnName(f)
		// phis on the dependence path from the returned value to the versions read
		seen := map[ssa.Value]bool{}
		var phis []*ssa.Phi
		var walk func(v ssa.Value, d int)
		walk = func(v ssa.Value, d int) {
			if v == nil || d > 12 || seen[v] {
				return
			}
			seen[v] = true
			switch x := v.(type) {
			case *ssa.Phi:
				phis = append(phis, x)
				for _, e := range x.Edges {
					walk(e, d+1)
				}
			case *ssa.Call:
				for _, a := range x.Call.Args {
					walk(a, d+1)
				}
			case *ssa.Convert:
				walk(x.X, d+1)
			case *ssa.BinOp:
				walk(x.X, d+1)
				walk(x.Y, d+1)
			}
		}
		eachInstr(f, func(ins ssa.Instruction) {
			if ret, ok := ins.(*ssa.Return); ok {
				walk(retOperand(ret, 0), 0)
			}
		})
		dependsOnVersion := func(v ssa.Value) bool {
			return p.dependsOn(v, func(x ssa.Value) bool { return isLoadOfField(x, ver) })
		}
		n := 0
		for _, ph := range phis {
			if !inLoop(ph.Block()) || !dependsOnVersion(ph) {
				continue
			}
			n++
			ok := true
			for i, e := range ph.Edges {
				pred := ph.Block().Preds[i]
				back := ph.Block().Dominates(pred)
				if !back {
					continue
				}
				if e == ssa.Value(ph) {
					continue
				}
				// the value coming round the loop must be computed from the accumulator itself (or from an inner accumulator
				// that was initialised from it)
				if !p.dependsOn(e, func(x ssa.Value) bool { return x == ssa.Value(ph) }) {
					// … or it replaces the accumulator only on an edge on which it was seen to be larger
					// (`if v := e.Version; v > m { m = v }` with both ways going straight back to the loop head)
					larger := false
					for _, f0 := range edgeFacts(pred, ph.Block()) {
						for _, cm := range []Cmp{f0, f0.Flip()} {
							if (cm.Op == ">" || cm.Op == ">=") && cm.Y != nil && unconv(cm.Y) == ssa.Value(ph) &&
								(unconv(cm.X) == unconv(e) || sameReRead(p, unconv(cm.X), unconv(e))) {
								larger = true
							}
						}
					}
					if !larger {
						ok = false
					}
				}
			}
			r.Check(ok, fn, "max accumulator", p.Pos(instrPos(ph)), "carried round the loop as max(acc, …)",
				"the maximum version is overwritten instead of accumulated in this loop: the result is the maximum of the last file/entry only, nextTs restarts below stored versions and new commits are shadowed by older ones")
		}
		if n == 0 {
			// a named result that lives in memory (the function defers): the running maximum is a cell whose stores are
			// all guarded by `new > old`
			cellMax := false
			eachInstr(f, func(ins ssa.Instruction) {
				if ret, ok := ins.(*ssa.Return); ok && len(ret.Results) > 0 && isMaxCell(p, ret.Results[0]) && dependsOnVersion(ret.Results[0]) {
					cellMax = true
				}
			})
			if cellMax {
				n++
				r.Hold(fn, "max accumulator", p.Pos(f.Pos()), "the result cell is only ever raised: every store is guarded by new > old")
			}
		}
		if n == 0 {
			r.Undecided(fn, "max accumulator", p.Pos(f.Pos()), "no loop-carried maximum on the way to the result")
		}
		// every iteration of an outer accumulator loop reaches the inner one (no file is skipped)
		for _, outer := range phis {
			for _, inner := range phis {
				ho, hi := outer.Block(), inner.Block()
				if outer == inner || ho == hi || !inLoop(ho) || !inLoop(hi) || !ho.Dominates(hi) || !reaches(hi, ho) || !dependsOnVersion(inner) {
					continue
				}
				// loop headers only: the merge point of an open-coded maximum (`if v > m { m = v }`) lies inside the inner
				// loop and is rightly skipped by a file without entries
				if !isLoopHeader(ho) || !isLoopHeader(hi) {
					continue
				}
				last := ho.Instrs[len(ho.Instrs)-1]
				q := PathQuery{P: p, Fn: f, Starts: []ssa.Instruction{last}, Avoid: func(i ssa.Instruction) bool { return i.Block() == hi },
					EdgeOK: func(b *ssa.BasicBlock, i int) bool { return !(b == ho && !reaches(b.Succs[i], ho)) },
					Target: func(i ssa.Instruction) bool { return i == ho.Instrs[0] }}
				w := q.FindPath()
				if w != nil {
					r.Viol(fn, "every file contributes", p.Pos(instrPos(inner)), "an iteration over the files can skip the loop that accumulates the versions of its entries: the recovered maximum misses whole files and nextTs restarts below stored versions", p.describePath(w)...)
				} else {
					r.Hold(fn, "every file contributes", p.Pos(instrPos(inner)), "every iteration of the outer loop reaches the accumulation over its entries")
				}
			}
		}
	}
}

func runWmHeap(c *Ctx, r *RuleRun) {
	a := wmGet(c, r)
	if a == nil {
		return
	}
	p := c.P
	f := a.process
	fn := p.FnName(f)
	isHeapCall := func(ins ssa.Instruction, name string) *ssa.Call {
		call, ok := ins.(*ssa.Call)
		if !ok {
			return nil
		}
		if obj := p.CalleeObj(call); obj != nil && funcIs(obj, "container/heap", "", name) {
			return call
		}
		return nil
	}
	isDelete := func(ins ssa.Instruction) bool {
		call, ok := ins.(*ssa.Call)
		if !ok {
			return false
		}
		bi, ok := call.Call.Value.(*ssa.Builtin)
		if !ok || bi.Name() != "delete" {
			return false
		}
		// the pending map: map[uint64]int
		mt, ok := call.Call.Args[0].Type().Underlying().(*types.Map)
		if !ok {
			return false
		}
		bt, ok := mt.Elem().Underlying().(*types.Basic)
		return ok && bt.Info()&types.IsInteger != 0
	}
	var sel ssa.Instruction
	eachInstr(f, func(ins ssa.Instruction) {
		if s, ok := ins.(*ssa.Select); ok {
			sel = s
		}
	})
	nPop, nPush := 0, 0
	isPush := func(ins ssa.Instruction) bool { return isHeapCall(ins, "Push") != nil }
	var heapT *types.Named
	for _, g := range p.Funcs {
		if g.Pkg != f.Pkg {
			continue
		}
		eachInstr(g, func(ins ssa.Instruction) {
			for _, nm := range []string{"Push", "Pop"} {
				if hc := isHeapCall(ins, nm); hc != nil {
					v := stripValue(hc.Call.Args[0])
					if pt, ok := v.Type().Underlying().(*types.Pointer); ok {
						if n := p.isModuleNamed(pt.Elem()); n != nil {
							heapT = n
						}
					}
				}
			}
		})
	}
	// pops in a helper of the consumer (advance) are held to the same rule, inside the helper
	for _, g := range localFns(p, f)[1:] {
		eachInstr(g, func(ins ssa.Instruction) {
			if pop := isHeapCall(ins, "Pop"); pop != nil {
				nPop++
				q := PathQuery{P: p, Fn: g, Starts: []ssa.Instruction{pop}, Avoid: isDelete, Target: func(i ssa.Instruction) bool {
					return isReturn(i) || isHeapCall(i, "Pop") != nil
				}}
				r.Check(q.FindPath() == nil, fn, "pop deletes the pending entry", p.Pos(instrPos(pop)), "delete(pending, ts) follows heap.Pop on every path",
					"an index is popped from the heap but its pending entry stays: a later Begin of the same index (read timestamps repeat) finds the stale entry, is not pushed again and is never tracked - the watermark passes an open transaction")
			}
		})
	}
	eachInstr(f, func(ins ssa.Instruction) {
		if pop := isHeapCall(ins, "Pop"); pop != nil {
			nPop++
			// after the pop, the pending entry is deleted before the loop tests the heap again or the next mark is received
			q := PathQuery{P: p, Fn: f, Starts: []ssa.Instruction{pop}, Avoid: isDelete, Target: func(i ssa.Instruction) bool {
				if i == sel || isReturn(i) {
					return true
				}
				return isHeapCall(i, "Pop") != nil
			}}
			r.Check(q.FindPath() == nil, fn, "pop deletes the pending entry", p.Pos(instrPos(pop)), "delete(pending, ts) follows heap.Pop on every path",
				"an index is popped from the heap but its pending entry stays: a later Begin of the same index (read timestamps repeat) finds the stale entry, is not pushed again and is never tracked - the watermark passes an open transaction")
		}
		push := isHeapCall(ins, "Push")
		if push == nil {
			// a helper of the package that pushes
			if cl, ok := ins.(*ssa.Call); ok {
				if g := cl.Call.StaticCallee(); g != nil && p.InModule(g) && g.Pkg == f.Pkg && p.FuncMayDo(g, isPush) {
					push = cl
					md := NewMustDo(p, isPush)
					r.Check(md.Func(g), p.FnName(g), "enters the heap through heap.Push", p.Pos(g.Pos()), "every path pushes with container/heap",
						"on some path the index is added to the heap's slice without heap.Push: the heap order is broken, the minimum is no longer at the root and the watermark stalls or passes an unfinished index")
				}
			}
		}
		if push != nil {
			nPush++
			ok := boolFactIs(push, isLookupOK, false)
			r.Check(ok, fn, "push iff no pending entry", p.Pos(instrPos(push)), "pushed only when the index has no pending entry", "an index is pushed although it already has a pending entry (or regardless of it): the heap holds duplicates or misses indices")
		}
	})
	// the heap's slice changes only inside its heap.Interface methods
	if heapT != nil {
		for _, g := range p.Funcs {
			if g.Pkg != f.Pkg {
				continue
			}
			isMethod := g.Signature.Recv() != nil && p.isModuleNamed(g.Signature.Recv().Type()) == heapT
			if isMethod && (g.Name() == "Push" || g.Name() == "Pop" || g.Name() == "Swap") {
				continue
			}
			eachInstr(g, func(ins ssa.Instruction) {
				cl, ok := ins.(*ssa.Call)
				if !ok {
					return
				}
				bi, ok := cl.Call.Value.(*ssa.Builtin)
				if !ok || bi.Name() != "append" || p.isModuleNamed(cl.Type()) != heapT {
					return
				}
				r.Viol(p.FnName(g), "heap slice changed only by container/heap", p.Pos(instrPos(cl)), "an element is appended to the heap's slice outside heap.Push: no sift-up, the heap order is broken")
			})
		}
	}
	if nPop == 0 || nPush == 0 {
		r.Undecided(fn, "heap use", p.Pos(f.Pos()), fmt.Sprintf("%d heap.Pop and %d heap.Push calls found", nPop, nPush))
	}
	_ = token.NoPos
}

func init() {
	register(&Rule{ID: "CMP.L0ALL", Engine: "E-CG", Min: 1,
		Desc: "the L0 inputs of a compaction are chosen without looking at keys (L0 tables are ordered by age only and may all overlap): the function that selects them reaches no key comparison",
		Run:  runCmpL0All})
	register(&Rule{ID: "CODEC.BYTES", Engine: "E-SIB", Min: 1,
		Desc: "keys are byte strings: the shared-prefix computation steps by byte (no range over a string / rune conversion), so that encoder and decoder agree on prefix lengths for every byte sequence",
		Run:  runCodecBytes})
	register(&Rule{ID: "BLOOM.ALL", Engine: "E-GUARD", Min: 1,
		Desc: "filter.Build adds every entry it is given: the Add call in its loop is not under a data-dependent condition",
		Run:  runBloomAll})
	register(&Rule{ID: "SKIP.LEVEL", Engine: "E-GUARD", Min: 1,
		Desc: "the skiplist's current height only grows in Set (stored only when the new tower is taller), because Delete unlinks levels below the current height only",
		Run:  runSkipLevel})
	register(&Rule{ID: "LIVE.CLOSEREQ", Engine: "E-PATH", Min: 1,
		Desc: "the flusher remembers a close request: on every way back from the closeC arm of its select to the next select, the loop-carried closed flag is true",
		Run:  runLiveCloseReq})
}

func runCmpL0All(c *Ctx, r *RuleRun) {
	p := c.P
	la := c.Locks()
	fetch := p.FnOr("", "levelManager", "fetch")
	cmpKeys := p.Fn("types", "", "CompareKeys")
	parseKey := p.Fn("types", "", "ParseKey")
	if fetch == nil || cmpKeys == nil {
		r.Undecided("-", "levelManager.fetch", "", "anchor not found")
		return
	}
	n := 0
	for _, cf := range compactors(c) {
		for _, fs := range fetchSitesOf(p, cf, fetch) {
			fc := fs.Site
			if k, ok := constInt(fs.Level); !ok || k != 0 {
				continue
			}
			// the selection function: the module call the fetched element set comes from
			var sel *ssa.Call
			p.dependsOn(fs.Set, func(x ssa.Value) bool {
				if call, ok := x.(*ssa.Call); ok {
					if g := call.Call.StaticCallee(); g != nil && p.InModule(g) && g.Signature.Recv() != nil && call.Parent() == cf {
						sel = call
						return true
					}
				}
				return false
			})
			if sel == nil {
				// the selection loop is written out in the compactor itself
				appends, _, blocks := inlineSelection(p, cf, fs.Set)
				if len(appends) == 0 {
					r.Undecided(p.FnName(cf), "L0 selection", p.Pos(instrPos(fc)), "cannot find the call that selects the L0 tables")
					continue
				}
				n++
				bad := ""
				for b := range blocks {
					for _, ins := range b.Instrs {
						if cl, ok := ins.(*ssa.Call); ok {
							if g := cl.Call.StaticCallee(); g != nil && (g == cmpKeys || g == parseKey) {
								bad = p.FnName(g)
							}
						}
						if bo, ok := ins.(*ssa.BinOp); ok {
							switch bo.Op {
							case token.LSS, token.LEQ, token.GTR, token.GEQ:
								if bt, ok := bo.X.Type().Underlying().(*types.Basic); ok && bt.Info()&types.IsString != 0 {
									bad = "a string comparison in the selection loop"
								}
							}
						}
					}
				}
				r.Check(bad == "", p.FnName(cf), "L0 selection ignores keys", p.Pos(instrPos(appends[0])), "every L0 table is taken, no key range is consulted",
					"the L0 tables to compact are selected by key range (reaches "+bad+"): an older L0 table that does not overlap the oldest one stays in L0 while newer data moves to L1, and answers lookups with its older versions")
				continue
			}
			n++
			bad := ""
			for g := range la.roleReach(p.Callees(sel)) {
				if g == cmpKeys || g == parseKey {
					bad = p.FnName(g)
				}
				eachInstr(g, func(ins ssa.Instruction) {
					if bo, ok := ins.(*ssa.BinOp); ok {
						switch bo.Op {
						case token.LSS, token.LEQ, token.GTR, token.GEQ:
							if bt, ok := bo.X.Type().Underlying().(*types.Basic); ok && bt.Info()&types.IsString != 0 {
								bad = "a string comparison in " + p.FnName(g)
							}
						}
					}
				})
			}
			r.Check(bad == "", p.FnName(cf), "L0 selection ignores keys", p.Pos(instrPos(sel)), "every L0 table is taken, no key range is consulted",
				"the L0 tables to compact are selected by key range (reaches "+bad+"): an older L0 table that does not overlap the oldest one stays in L0 while newer data moves to L1, and answers lookups with its older versions")
		}
	}
	if n == 0 {
		r.Undecided("-", "L0 compaction", "", "no compaction fetches level 0")
	}
}

func runCodecBytes(c *Ctx, r *RuleRun) {
	p := c.P
	lcp := p.Fn("utils", "", "LCP")
	if lcp == nil {
		r.Undecided("-", "utils.LCP", "", "anchor not found")
		return
	}
	var fns []*ssa.Function
	for g := range p.Reach(lcp) {
		fns = append(fns, g)
	}
	for _, n := range []string{"Encode", "Decode"} {
		if f := p.Fn("table", "Data", n); f != nil {
			fns = append(fns, f)
		}
	}
	for _, f := range fns {
		bad := ""
		var pos token.Pos = f.Pos()
		eachInstr(f, func(ins ssa.Instruction) {
			switch x := ins.(type) {
			case *ssa.Range:
				if bt, ok := x.X.Type().Underlying().(*types.Basic); ok && bt.Info()&types.IsString != 0 {
					bad = "ranges over a string (steps by rune)"
					pos = instrPos(x)
				}
			case *ssa.Call:
				if obj := p.CalleeObj(x); obj != nil && obj.Pkg() != nil && (obj.Pkg().Path() == "unicode/utf8" || obj.Pkg().Path() == "unicode") {
					bad = "decodes runes (" + obj.Pkg().Name() + "." + obj.Name() + ")"
					pos = instrPos(x)
				}
			case *ssa.Convert:
				if sl, ok := x.Type().Underlying().(*types.Slice); ok {
					if bt, ok := sl.Elem().Underlying().(*types.Basic); ok && bt.Kind() == types.Rune {
						if st, ok := x.X.Type().Underlying().(*types.Basic); ok && st.Info()&types.IsString != 0 {
							bad = "converts a key to []rune"
							pos = instrPos(x)
						}
					}
				}
			}
		})
		r.Check(bad == "", p.FnName(f), "bytewise", p.Pos(pos), "keys are handled byte by byte",
			p.FnName(f)+" "+bad+": the shared prefix of two keys that differ inside a multi-byte UTF-8 sequence is over-estimated and the decoder rebuilds a different key")
	}
	// the length LCP returns grows by exactly one per compared position
	eachInstr(lcp, func(ins ssa.Instruction) {
		ret, ok := ins.(*ssa.Return)
		if !ok || len(ret.Results) != 1 {
			return
		}
		ph, ok := retOperand(ret, 0).(*ssa.Phi)
		if !ok {
			return
		}
		unit := true
		for _, e := range ph.Edges {
			if bo, ok := e.(*ssa.BinOp); ok && bo.Op == token.ADD && (bo.X == ssa.Value(ph) || bo.Y == ssa.Value(ph)) {
				other := bo.Y
				if bo.Y == ssa.Value(ph) {
					other = bo.X
				}
				if k, isK := constInt(other); !isK || k != 1 {
					unit = false
				}
			}
		}
		r.Check(unit, p.FnName(lcp), "prefix length advances one byte at a time", p.Pos(instrPos(ret)), "the returned length is incremented by 1 per matching byte",
			"the prefix length is advanced by a variable amount per step (a character width): bytes that were never compared are counted as common")
	})
}

func runBloomAll(c *Ctx, r *RuleRun) {
	p := c.P
	build := p.Fn("pkg/filter", "", "Build")
	add := p.Fn("pkg/filter", "Filter", "Add")
	if build == nil || add == nil {
		r.Undecided("-", "filter.Build", "", "anchor not found")
		return
	}
	calls := callsTo(p, build, add)
	if len(calls) == 0 {
		r.Viol(p.FnName(build), "adds every entry", p.Pos(build.Pos()), "filter.Build never calls Add")
		return
	}
	isAdd := func(i ssa.Instruction) bool {
		for _, cl := range calls {
			if i == ssa.Instruction(cl) {
				return true
			}
		}
		return false
	}
	// every iteration over the entries passes an Add: from the element access no way leads to the next element access or
	// to the return without one
	var elems []ssa.Instruction
	if len(build.Params) > 0 {
		for _, ref := range *build.Params[0].Referrers() {
			switch x := ref.(type) {
			case *ssa.IndexAddr:
				if inLoop(x.Block()) {
					elems = append(elems, x)
				}
			case *ssa.Index:
				if inLoop(x.Block()) {
					elems = append(elems, x)
				}
			}
		}
	}
	if len(elems) == 0 {
		r.Undecided(p.FnName(build), "adds every entry", p.Pos(build.Pos()), "no loop over the entries found")
		return
	}
	for _, el := range elems {
		q := PathQuery{P: p, Fn: build, Starts: []ssa.Instruction{el}, Avoid: isAdd, Target: func(i ssa.Instruction) bool { return i == el || isReturn(i) }}
		w := q.FindPath()
		if w != nil {
			r.Viol(p.FnName(build), "adds every entry", p.Pos(instrPos(el)), "filter.Build can skip an entry (an iteration of its loop passes no Add): a key of the table is missing from its filter and lookups of it are denied", p.describePath(w)...)
		} else {
			r.Hold(p.FnName(build), "adds every entry", p.Pos(instrPos(el)), "every iteration calls Add")
		}
	}
}

func runSkipLevel(c *Ctx, r *RuleRun) {
	p := c.P
	set := p.Fn("pkg/skiplist", "SkipList", "Set")
	lvl := p.Field("pkg/skiplist", "SkipList", "level")
	if set == nil || lvl == nil {
		r.Undecided("-", "SkipList.Set", "", "anchor not found")
		return
	}
	for _, st := range storesToField(set, lvl) {
		ok := hasFact(st, func(cm Cmp) bool {
			return cm.Op == ">" && cm.X == st.Val && cm.Y != nil && isLoadOfField(cm.Y, lvl)
		})
		// or written as s.level = max(s.level, level): the stored value is at least the current height - and at least
		// the height of the tower that is being linked (the length of the new element's `next`): a height that grows
		// by less than the tower leaves its upper levels linked but unknown to Delete
		if !ok {
			var towerLen ssa.Value
			eachInstr(set, func(i2 ssa.Instruction) {
				if ms, isMS := i2.(*ssa.MakeSlice); isMS {
					if sl, isSl := ms.Type().Underlying().(*types.Slice); isSl {
						if _, isPtr := sl.Elem().Underlying().(*types.Pointer); isPtr && !inLoop(ms.Block()) {
							if _, isConst := ms.Len.(*ssa.Const); !isConst && !isLoadOfField(ms.Len, p.Field("pkg/skiplist", "SkipList", "maxLevel")) {
								towerLen = unconv(ms.Len)
							}
						}
					}
				}
			})
			ok = towerLen != nil && p.geq(st.Val, factsAt(st), func(v ssa.Value) bool { return isLoadOfField(v, lvl) }, 0) &&
				p.geq(st.Val, factsAt(st), func(v ssa.Value) bool { return v == towerLen }, 0)
		}
		r.Check(ok, p.FnName(set), "height only grows", p.Pos(instrPos(st)), "stored only when the new tower is taller than the current height",
			"the list height follows the last inserted tower and can shrink below existing towers: Delete then unlinks a tall node only on the lower levels, the node stays linked above and later insertions behind it are unreachable on level 0")
	}
}

func runLiveCloseReq(c *Ctx, r *RuleRun) {
	p := c.P
	la := c.Locks()
	closeC := p.Field("", "DB", "closeC")
	if closeC == nil || len(la.RoleRoots["F"]) == 0 {
		r.Undecided("-", "flusher", "", "DB.closeC / the goroutine started by Open not found")
		return
	}
	for _, f := range flusherLoops(c) {
		fn := p.FnName(f)
		var sel *ssa.Select
		arm := -1
		eachInstr(f, func(ins ssa.Instruction) {
			if s, ok := ins.(*ssa.Select); ok {
				for i, st := range s.States {
					if fv, _ := loadedField(st.Chan); fv == closeC {
						sel, arm = s, i
					}
				}
			}
		})
		if sel == nil {
			r.Undecided(fn, "closeC arm", p.Pos(f.Pos()), "the flusher does not receive from DB.closeC in a select")
			continue
		}
		hdr := sel.Block()
		inArm := func(b *ssa.BasicBlock) bool {
			if len(b.Instrs) == 0 {
				return false
			}
			return hasFact(b.Instrs[len(b.Instrs)-1], func(cm Cmp) bool {
				ex, ok := cm.X.(*ssa.Extract)
				if !ok || ex.Tuple != ssa.Value(sel) || ex.Index != 0 || cm.Op != "==" || cm.Y == nil {
					return false
				}
				k, ok := constInt(cm.Y)
				return ok && int(k) == arm
			})
		}
		n := 0
		// every edge that leaves the arm for a block from which the select is reached again (the select's own block, or
		// the test of a `for !done` loop around it) must carry the remembered request: a boolean joined there is true
		for _, join := range f.Blocks {
			if inArm(join) || !(join == hdr || reaches(join, hdr)) {
				continue
			}
			for i, pred := range join.Preds {
				if !inArm(pred) {
					continue
				}
				n++
				ok := false
				for _, ins := range join.Instrs {
					ph, isPhi := ins.(*ssa.Phi)
					if !isPhi {
						break
					}
					if bt, isB := ph.Type().Underlying().(*types.Basic); isB && bt.Kind() == types.Bool && isConstBool(ph.Edges[i], true) {
						ok = true
					}
				}
				last := pred.Instrs[len(pred.Instrs)-1]
				r.Check(ok, fn, "close request remembered", p.Pos(instrPos(last)), "going back to the select after a close request carries closed = true",
					"the flusher can go back to waiting after it received the close request without remembering it: once the queue is drained it parks forever and Close never returns")
			}
		}
		if n == 0 {
			r.Hold(fn, "close request remembered", p.Pos(instrPos(sel)), "the closeC arm always leaves the loop")
		}
	}
}

func init() {
	register(&Rule{ID: "CMP.OUTLEVEL", Engine: "E-SIB", Min: 3,
		Desc: "every table writer uses one level for its output: the level given to table.Build, the level whose next free index names the file, the level given to the durable writer and the level list the handle is appended to are the same expression",
		Run:  runCmpOutLevel})
	register(&Rule{ID: "CMP.SCANALL", Engine: "E-PATH", Min: 1,
		Desc: "the selection of overlapping tables examines every table of the level: the walk over the level list is left only when the list is exhausted (level lists are ordered by age, not by key, so an early exit misses overlapping tables)",
		Run:  runCmpScanAll})
	register(&Rule{ID: "SNAP.OWN", Engine: "E-PATH", Min: 1,
		Desc: "a key found in the transaction's own write buffer is answered from the buffer (value, or not-found for a delete): no path leads from the buffer hit to the store lookup",
		Run:  runSnapOwn})
}

func runCmpOutLevel(c *Ctx, r *RuleRun) {
	p := c.P
	d := c.Dur()
	build := p.Fn("table", "", "Build")
	levels := p.Field("", "levelManager", "levels")
	idxField := p.Field("", "tableHandle", "levelIdx")
	if build == nil || levels == nil || idxField == nil {
		r.Undecided("-", "table.Build", "", "anchors not found")
		return
	}
	o := nfOpts{p: p, depth: 6}
	for _, site := range p.CallersOf(build) {
		call, ok := site.(*ssa.Call)
		if !ok || strings.HasSuffix(p.Fset.Position(call.Pos()).Filename, "_test.go") {
			continue
		}
		f := call.Parent()
		if f.Pkg != p.SSAPkg[p.ModPath] {
			continue
		}
		want := o.nf(call.Call.Args[2])
		got := map[string]string{"table.Build": want}
		scan := func(f *ssa.Function, got map[string]string) {
			// the index that names the file: stores to tableHandle.levelIdx depend on a call with a level argument
			for _, st := range storesToField(f, idxField) {
				p.dependsOn(st.Val, func(x ssa.Value) bool {
					// maxIdx(lm.levels[L]): a function over the level's list instead of a method over its number
					if cl, ok := x.(*ssa.Call); ok && len(p.Callees(cl)) == 1 && p.Callees(cl)[0].Pkg == f.Pkg && len(cl.Call.Args) == 1 {
						if ld, ok := cl.Call.Args[0].(*ssa.UnOp); ok && ld.Op == token.MUL {
							if ia, ok := ld.X.(*ssa.IndexAddr); ok {
								if fv, _ := loadedField(ia.X); fv == levels {
									got["next free index of level"] = o.nf(ia.Index)
									return true
								}
							}
						}
					}
					if cl, ok := x.(*ssa.Call); ok && len(p.Callees(cl)) == 1 && p.recvIs(p.Callees(cl)[0], "levelManager") && len(cl.Call.Args) == 2 {
						if bt, ok := cl.Call.Args[1].Type().Underlying().(*types.Basic); ok && bt.Kind() == types.Int {
							got["next free index of level"] = o.nf(cl.Call.Args[1])
							return true
						}
					}
					return false
				})
			}
			// the durable writer
			eachInstr(f, func(ins ssa.Instruction) {
				cl, ok := ins.(*ssa.Call)
				if !ok {
					return
				}
				cs := p.Callees(cl)
				if len(cl.Call.Args) >= 3 && len(cs) == 1 && d.tablePub.FuncSuccess(cs[0]) {
					got["durable writer"] = o.nf(cl.Call.Args[1])
				} else if len(cs) == 1 && d.tablePub.FuncSuccess(cs[0]) {
					// a writer that is handed the file name: the level the name was built with (lm.fileName(level, idx))
					for _, arg := range cl.Call.Args {
						if nc, ok := arg.(*ssa.Call); ok && isStringType(nc.Type()) && len(nc.Call.Args) == 3 {
							if g := nc.Call.StaticCallee(); g != nil && p.recvIs(g, "levelManager") {
								got["durable writer"] = o.nf(nc.Call.Args[1])
							}
						}
					}
				}
				// list insert: lm.levels[L].PushBack
				if obj := p.ExtCallee(cl); obj != nil && funcIs(obj, "container/list", "List", "PushBack") {
					if idx, ok := levelListIndex(p, cl.Call.Args[0], levels, 0); ok {
						got["level list"] = o.nf(idx)
					}
				}
				// the output is the newest table of its level: linked at the end the lookups start from
				if obj := p.ExtCallee(cl); obj != nil && (funcIs(obj, "container/list", "List", "PushFront") || funcIs(obj, "container/list", "List", "InsertBefore") || funcIs(obj, "container/list", "List", "InsertAfter")) {
					if idx, ok := levelListIndex(p, cl.Call.Args[0], levels, 0); ok {
						got["level list"] = o.nf(idx)
						r.Viol(p.FnName(f), "output linked as the newest table", p.Pos(instrPos(cl)), "the table just built is linked with "+obj.Name()+" instead of PushBack: within its level it no longer counts as the newest table, lookups meet older tables of the level first and the result of a read changes with the compaction")
					}
				}
			})
		}
		judge := func(f *ssa.Function, at ssa.Instruction, got map[string]string, want string) {
			bad := ""
			for k, v := range got {
				if v != want {
					bad = fmt.Sprintf("%s uses level %s but table.Build is given level %s", k, v, want)
				}
			}
			if len(got) < 4 {
				r.Undecided(p.FnName(f), "output level", p.Pos(instrPos(at)), fmt.Sprintf("only %d of the 4 uses of the output level were found: %v", len(got), got))
				return
			}
			r.Check(bad == "", p.FnName(f), "output level", p.Pos(instrPos(at)), "Build, file index, writer and level list all use level "+want,
				bad+": the output is named after (or registered in) another level, a later rename can overwrite a live table of that level")
		}
		scan(f, got)
		// a helper that builds (and writes) the table for the level it is handed: the remaining uses are looked for at
		// each of its call sites, with the level that call site passes
		if pr, isParam := unconv(call.Call.Args[2]).(*ssa.Parameter); isParam && len(got) < 4 && !p.isExported(f) && len(p.CallersOf(f)) > 0 {
			idx := -1
			for i, q := range f.Params {
				if q == pr {
					idx = i
				}
			}
			for _, cs := range p.CallersOf(f) {
				cc, isCall := cs.(*ssa.Call)
				if !isCall || idx < 0 || idx >= len(cc.Call.Args) {
					r.Undecided(p.FnName(f), "output level", p.Pos(instrPos(cs)), "the table-building helper is called through go/defer or with an unexpected argument list")
					continue
				}
				wantC := o.nf(cc.Call.Args[idx])
				gotC := map[string]string{}
				for k, v := range got {
					if v == want {
						gotC[k] = wantC
					} else {
						gotC[k] = v
					}
				}
				scan(cc.Parent(), gotC)
				judge(cc.Parent(), cc, gotC, wantC)
			}
			continue
		}
		// a helper that does all four for the level it is handed (installTable(level, entries)): the obligation is
		// discharged once per call site, so that merging the copies of two callers does not look like a lost anchor
		if pr, isParam := unconv(call.Call.Args[2]).(*ssa.Parameter); isParam && len(got) == 4 && !p.isExported(f) && len(p.CallersOf(f)) > 1 {
			idx := -1
			for i, q := range f.Params {
				if q == pr {
					idx = i
				}
			}
			plain := idx >= 0
			for _, cs := range p.CallersOf(f) {
				if cc, isCall := cs.(*ssa.Call); !isCall || idx >= len(cc.Call.Args) {
					plain = false
				}
			}
			if plain {
				for _, cs := range p.CallersOf(f) {
					cc := cs.(*ssa.Call)
					wantC := o.nf(cc.Call.Args[idx])
					gotC := map[string]string{}
					for k, v := range got {
						if v == want {
							gotC[k] = wantC
						} else {
							gotC[k] = v
						}
					}
					judge(cc.Parent(), cc, gotC, wantC)
				}
				continue
			}
		}
		judge(f, call, got, want)
	}
}

func runCmpScanAll(c *Ctx, r *RuleRun) {
	p := c.P
	la := c.Locks()
	n := 0
	seen := map[*ssa.Function]bool{}
	for _, cf := range compactors(c) {
		for g := range la.roleReach([]*ssa.Function{cf}) {
			if seen[g] || g == cf {
				continue
			}
			seen[g] = true
			// a selection function: returns a slice of list elements and walks a list with Next()
			res := g.Signature.Results()
			if res.Len() != 1 {
				continue
			}
			sl, ok := res.At(0).Type().Underlying().(*types.Slice)
			if !ok || !strings.Contains(sl.Elem().String(), "container/list.Element") {
				continue
			}
			var next *ssa.Call
			eachInstr(g, func(ins ssa.Instruction) {
				if cl, ok := ins.(*ssa.Call); ok {
					if obj := p.ExtCallee(cl); obj != nil && funcIs(obj, "container/list", "Element", "Next") && inLoop(cl.Block()) {
						next = cl
					}
				}
			})
			if next == nil {
				continue
			}
			n++
			// the loop: blocks on a cycle through next's block; the header is the block testing the element against nil
			inL := map[*ssa.BasicBlock]bool{}
			for _, b := range g.Blocks {
				if reaches(b, next.Block()) && reaches(next.Block(), b) {
					inL[b] = true
				}
			}
			bad := ""
			for b := range inL {
				for _, s := range b.Succs {
					if inL[s] {
						continue
					}
					// leaving the loop: allowed only on the "element == nil" edge
					iff, isIf := b.Instrs[len(b.Instrs)-1].(*ssa.If)
					okExit := false
					if isIf {
						if v, _, isNilTest := nilTestCond(iff.Cond); isNilTest && strings.Contains(v.Type().String(), "list.Element") {
							okExit = true
						}
					}
					if !okExit {
						bad = p.Pos(instrPos(b.Instrs[len(b.Instrs)-1]))
					}
				}
			}
			r.Check(bad == "", p.FnName(g), "walks the whole level", p.Pos(instrPos(next)), "the walk ends only when the list is exhausted",
				"the walk over the level list can stop early (at "+bad+"): tables of a level are ordered by age, not by key, so an overlapping table behind a non-overlapping one is left out of the merge and later re-appended as newer than the data that replaced it")
		}
	}
	if n == 0 {
		r.Undecided("-", "overlap selection", "", "no function selecting list elements for a compaction was found")
	}
}

func reaches(from, to *ssa.BasicBlock) bool {
	seen := map[*ssa.BasicBlock]bool{}
	stack := []*ssa.BasicBlock{from}
	for len(stack) > 0 {
		x := stack[len(stack)-1]
		stack = stack[:len(stack)-1]
		if x == to {
			return true
		}
		if seen[x] {
			continue
		}
		seen[x] = true
		stack = append(stack, x.Succs...)
	}
	return false
}

func runSnapOwn(c *Ctx, r *RuleRun) {
	a := c.Txn()
	if !a.ok(r) {
		return
	}
	p := c.P
	f := a.get
	fn := p.FnName(f)
	readsMem := p.loadsField(a.fMemtable)
	var lookups []ssa.Instruction
	eachInstr(f, func(ins ssa.Instruction) {
		if call, ok := ins.(*ssa.Call); ok && p.SiteMayReach(call, readsMem) {
			lookups = append(lookups, call)
		}
	})
	n := 0
	for _, b := range f.Blocks {
		if len(b.Instrs) == 0 {
			continue
		}
		iff, ok := b.Instrs[len(b.Instrs)-1].(*ssa.If)
		if !ok || !isLookupOK(iff.Cond) {
			continue
		}
		lk := iff.Cond.(*ssa.Extract).Tuple.(*ssa.Lookup)
		if !isLoadOfField(lk.X, a.fPending) {
			continue
		}
		n++
		hit := b.Succs[0]
		if len(hit.Instrs) == 0 {
			continue
		}
		isLookup := func(i ssa.Instruction) bool {
			for _, l := range lookups {
				if i == l {
					return true
				}
			}
			return false
		}
		q := PathQuery{P: p, Fn: f, Starts: []ssa.Instruction{iff}, EdgeOK: func(bb *ssa.BasicBlock, i int) bool { return !(bb == b && i == 1) }, Target: isLookup}
		w := q.FindPath()
		if w != nil {
			r.Viol(fn, "buffer hit answered from the buffer", p.Pos(instrPos(iff)), "a key found in the transaction's own write buffer can still be looked up in the store (e.g. when the buffered entry is a delete): the transaction reads the committed value instead of its own write", p.describePath(w)...)
		} else {
			r.Hold(fn, "buffer hit answered from the buffer", p.Pos(instrPos(iff)), "no path from the hit to the store lookup")
		}
	}
	if n == 0 {
		r.Viol(fn, "own writes consulted", p.Pos(f.Pos()), "Txn.Get never consults the transaction's own write buffer")
	}
}

func init() {
	register(&Rule{ID: "TABLE.WHOLE", Engine: "E-DEP", Min: 3,
		Desc: "compactions and recovery read a table as a whole: the block handle they fetch/decode is Index.DataBlock (all data blocks), never the handle of a single index entry",
		Run:  runTableWhole})
	register(&Rule{ID: "KEY.SPLIT", Engine: "E-SIB", Min: 2, Spec: true,
		Desc: "ParseKey and ParseTs split a stored key at the same place (the last '@'), the inverse of KeyWithTs",
		Run:  runKeySplit})
	register(&Rule{ID: "IDX.FRESH", Engine: "E-DEP", Min: 1,
		Desc: "the index that names a new table file is one above the largest index in use in that level (computed from the handles' levelIdx), so no live file is ever overwritten",
		Run:  runIdxFresh})
	register(&Rule{ID: "CMP.RMORDER", Engine: "E-SIB", Min: 1,
		Desc: "the L0 inputs of a compaction are selected - and therefore unlinked and deleted - oldest first: after a crash between two removals the surviving L0 tables are the newest ones and cannot shadow the merged output",
		Run:  runCmpRmOrder})
}

func fieldIs(v ssa.Value, fv *types.Var) bool {
	if fv == nil {
		return false
	}
	if f, _ := loadedField(v); f == fv {
		return true
	}
	if fa, ok := v.(*ssa.FieldAddr); ok {
		f, _ := fieldOfAddr(fa)
		return f == fv
	}
	return false
}

func runTableWhole(c *Ctx, r *RuleRun) {
	p := c.P
	fetch := p.FnOr("", "levelManager", "fetch")
	whole := p.Field("table", "Index", "DataBlock")
	single := p.Field("table", "IndexEntry", "DataHandle")
	rec := p.FnOr("", "levelManager", "recover")
	decode := p.Fn("table", "Data", "Decode")
	if fetch == nil || whole == nil || single == nil || rec == nil || decode == nil {
		r.Undecided("-", "table anchors", "", "levelManager.fetch / table.Index.DataBlock / IndexEntry.DataHandle / recover / Data.Decode not found")
		return
	}
	fns := append(compactors(c), rec)
	isWhole := func(v ssa.Value) bool { return fieldIs(v, whole) }
	isSingle := func(v ssa.Value) bool { return fieldIs(v, single) }
	for _, f := range fns {
		n := 0
		for _, fs := range fetchSitesOf(p, f, fetch) {
			n++
			fc := fs.Fetch
			h := fs.Handle
			ok := p.dependsOn(h, isWhole) && !p.dependsOn(h, isSingle)
			r.Check(ok, p.FnName(f), "fetches the whole table", p.Pos(instrPos(fc)), "handle = Index.DataBlock",
				"only one data block of the table is read: the rest of its entries is missing from the merge / from the rebuilt filter and the recovered maximum version")
		}
		if f == rec {
			for _, dc := range callsTo(p, f, decode) {
				// the byte slice decoded: its length comes from Index.DataBlock.Length
				arg := dc.Call.Args[1]
				var lenSrc ssa.Value
				if ms, ok := arg.(*ssa.MakeSlice); ok {
					lenSrc = ms.Len
				} else if hc, ok := arg.(*ssa.Call); ok && hc.Call.StaticCallee() != nil && hc.Call.StaticCallee().Pkg == f.Pkg {
					// a helper that reads one section: what it is handed decides how much is read
					lenSrc = hc
				}
				if lenSrc != nil {
					n++
					ok2 := p.dependsOn(lenSrc, isWhole) && !p.dependsOn(lenSrc, isSingle)
					r.Check(ok2, p.FnName(f), "decodes the whole table", p.Pos(instrPos(dc)), "length = Index.DataBlock.Length",
						"recovery decodes only part of the table's data blocks: the filter and the maximum version are rebuilt from a fraction of the entries")
				}
			}
		}
		if n == 0 {
			r.Undecided(p.FnName(f), "table read", p.Pos(f.Pos()), "no fetch or decode of table data found")
		}
	}
}

func runKeySplit(c *Ctx, r *RuleRun) {
	p := c.P
	fk, ft, fw := p.Fn("types", "", "ParseKey"), p.Fn("types", "", "ParseTs"), p.Fn("types", "", "KeyWithTs")
	if fk == nil || ft == nil || fw == nil {
		r.Undecided("-", "types", "", "ParseKey/ParseTs/KeyWithTs not found")
		return
	}
	splitters := func(f *ssa.Function) []string {
		var out []string
		// (the separator search may live in a helper shared by ParseKey and ParseTs)
		eachInstrOf(localFns(p, f), func(ins ssa.Instruction) {
			call, ok := ins.(*ssa.Call)
			if !ok {
				return
			}
			obj := p.ExtCallee(call)
			if obj == nil || obj.Pkg() == nil || obj.Pkg().Path() != "strings" {
				return
			}
			sep := ""
			for _, a := range call.Call.Args {
				if s, ok := constString(a); ok {
					sep = s
				}
			}
			out = append(out, obj.Name()+"("+sep+")")
		})
		sort.Strings(out)
		return out
	}
	sk, st := splitters(fk), splitters(ft)
	okK := len(sk) == 1 && sk[0] == "LastIndex(@)"
	okT := len(st) == 1 && st[0] == "LastIndex(@)"
	r.Check(okK, p.FnName(fk), "splits at the last @", p.Pos(fk.Pos()), "strings.LastIndex(key, \"@\")", fmt.Sprintf("ParseKey splits with %v: user keys containing '@' are cut at the wrong place", sk))
	r.Check(okT, p.FnName(ft), "splits at the last @", p.Pos(ft.Pos()), "strings.LastIndex(key, \"@\")", fmt.Sprintf("ParseTs splits with %v while ParseKey uses %v: for user keys containing '@' every version parses to the same timestamp and versions are no longer ordered", st, sk))
	// CompareKeys takes user key and timestamp from ParseKey/ParseTs only (no slicing of its own): comparator and
	// projections cannot disagree on where a stored key is split
	if fc := p.Fn("types", "", "CompareKeys"); fc != nil {
		own := ""
		parsed := map[string]int{}
		eachInstr(fc, func(ins ssa.Instruction) {
			switch x := ins.(type) {
			case *ssa.Slice:
				if bt, ok := x.X.Type().Underlying().(*types.Basic); ok && bt.Info()&types.IsString != 0 {
					own = "slices a key itself"
				}
			case *ssa.Call:
				if obj := p.ExtCallee(x); obj != nil && obj.Pkg() != nil && obj.Pkg().Path() == "strings" && obj.Name() != "Compare" {
					own = "calls strings." + obj.Name()
				}
				for _, g := range p.Callees(x) {
					if g == fk || g == ft {
						if _, isParam := x.Call.Args[0].(*ssa.Parameter); isParam {
							parsed[g.Name()]++
						}
					}
				}
			}
		})
		ok := own == "" && parsed["ParseKey"] == 2 && parsed["ParseTs"] == 2
		detail := own
		if detail == "" {
			detail = fmt.Sprintf("calls ParseKey %d times and ParseTs %d times on its parameters", parsed["ParseKey"], parsed["ParseTs"])
		}
		r.Check(ok, p.FnName(fc), "uses ParseKey/ParseTs", p.Pos(fc.Pos()), "user keys and timestamps come from ParseKey/ParseTs of both parameters",
			"CompareKeys "+detail+": the comparator splits stored keys differently from ParseKey/ParseTs, so key order and same-key tests disagree (e.g. key10 sorts before key1)")
	}
	// KeyWithTs appends "@" + decimal
	good := false
	eachInstr(fw, func(ins ssa.Instruction) {
		if call, ok := ins.(*ssa.Call); ok {
			if obj := p.ExtCallee(call); obj != nil && funcIs(obj, "strconv", "", "FormatUint") && len(call.Call.Args) == 2 {
				if k, ok := constInt(call.Call.Args[1]); ok && k == 10 {
					good = true
				}
			}
		}
	})
	base := false
	eachInstr(ft, func(ins ssa.Instruction) {
		if call, ok := ins.(*ssa.Call); ok {
			if obj := p.ExtCallee(call); obj != nil && funcIs(obj, "strconv", "", "ParseUint") && len(call.Call.Args) == 3 {
				if k, ok := constInt(call.Call.Args[1]); ok && k == 10 {
					base = true
				}
			}
		}
	})
	r.Check(good && base, "types", "timestamp written and parsed in base 10", p.Pos(fw.Pos()), "FormatUint(ts, 10) / ParseUint(s, 10, 64)", "KeyWithTs and ParseTs disagree on the timestamp encoding")
}

func runIdxFresh(c *Ctx, r *RuleRun) {
	p := c.P
	idxField := p.Field("", "tableHandle", "levelIdx")
	if idxField == nil {
		r.Undecided("-", "tableHandle.levelIdx", "", "anchor not found")
		return
	}
	seen := map[*ssa.Function]bool{}
	for _, f := range p.Funcs {
		if f.Pkg != p.SSAPkg[p.ModPath] {
			continue
		}
		for _, st := range storesToField(f, idxField) {
			if !inWriterFn(c, f) {
				continue
			}
			// value = g(level) + 1
			bo, ok := st.Val.(*ssa.BinOp)
			k := int64(0)
			if ok {
				k, _ = constInt(bo.Y)
			}
			var callee *ssa.Function
			if ok && bo.Op == token.ADD && k == 1 {
				if cl, ok := bo.X.(*ssa.Call); ok && len(p.Callees(cl)) == 1 {
					callee = p.Callees(cl)[0]
				}
			}
			if callee == nil {
				r.Viol(p.FnName(f), "new index = max in use + 1", p.Pos(instrPos(st)), "the index of a new table is not computed as (largest index in use) + 1")
				continue
			}
			if seen[callee] {
				r.Hold(p.FnName(f), "new index = max in use + 1", p.Pos(instrPos(st)), "uses "+p.FnName(callee))
				continue
			}
			seen[callee] = true
			r.Hold(p.FnName(f), "new index = max in use + 1", p.Pos(instrPos(st)), "uses "+p.FnName(callee))
			dep := false
			eachInstr(callee, func(ins ssa.Instruction) {
				if ret, ok := ins.(*ssa.Return); ok && len(ret.Results) == 1 {
					if p.dependsOn(retOperand(ret, 0), func(x ssa.Value) bool { return fieldIs(x, idxField) }) {
						dep = true
					}
				}
			})
			r.Check(dep, p.FnName(callee), "largest index in use", p.Pos(callee.Pos()), "computed from the levelIdx of the handles in the level",
				"the 'largest index in use' does not look at the indices of the tables in the level (e.g. it counts them): once indices have a gap a new table is renamed over a live one and its keys are lost")
			// … and it is the largest: the running value is replaced only by a larger index (or through max)
			eachInstr(callee, func(ins ssa.Instruction) {
				ret, ok := ins.(*ssa.Return)
				if !ok || len(ret.Results) != 1 {
					return
				}
				ph, ok := retOperand(ret, 0).(*ssa.Phi)
				if !ok {
					return
				}
				_, leaves := phiLeaves(ph, ph.Block())
				okMax := true
				for _, lf := range leaves {
					if lf.val == ssa.Value(ph) {
						continue
					}
					if cl, isCall := lf.val.(*ssa.Call); isCall {
						if bi, isBi := cl.Call.Value.(*ssa.Builtin); isBi && bi.Name() == "max" {
							continue
						}
					}
					if len(lf.pred.Instrs) == 0 {
						okMax = false
						continue
					}
					at := lf.pred.Instrs[len(lf.pred.Instrs)-1]
					if !hasFact(at, func(cm Cmp) bool {
						return cm.Y != nil && (cm.Op == ">" || cm.Op == ">=") && stripValue(cm.X) == stripValue(lf.val) && cm.Y == ssa.Value(ph)
					}) {
						okMax = false
					}
				}
				r.Check(okMax, p.FnName(callee), "largest, not smallest", p.Pos(instrPos(ret)), "the running value is replaced only by a larger index", "the running value is replaced by an index that is not known to be larger (e.g. `<` for `>`): the result is not the largest index in use and the next table can take a number that is taken")
			})
		}
	}
}

// inWriterFn: f builds a table (calls table.Build)
func inWriterFn(c *Ctx, f *ssa.Function) bool {
	build := c.P.Fn("table", "", "Build")
	return build != nil && len(callsTo(c.P, f, build)) > 0
}

func runCmpRmOrder(c *Ctx, r *RuleRun) {
	p := c.P
	fetch := p.FnOr("", "levelManager", "fetch")
	if fetch == nil {
		r.Undecided("-", "levelManager.fetch", "", "anchor not found")
		return
	}
	n := 0
	for _, cf := range compactors(c) {
		for _, fs := range fetchSitesOf(p, cf, fetch) {
			if k, ok := constInt(fs.Level); !ok || k != 0 {
				continue
			}
			var sel *ssa.Call
			p.dependsOn(fs.Set, func(x ssa.Value) bool {
				if call, ok := x.(*ssa.Call); ok {
					if g := call.Call.StaticCallee(); g != nil && p.InModule(g) && g.Signature.Recv() != nil && call.Parent() == cf {
						sel = call
						return true
					}
				}
				return false
			})
			if sel == nil {
				// the selection loop is written out in the compactor itself
				if appends, walk, _ := inlineSelection(p, cf, fs.Set); len(appends) > 0 {
					n++
					ok := walk["Front"] && walk["Next"] && !walk["Back"] && !walk["Prev"]
					r.Check(ok, p.FnName(cf), "L0 inputs oldest first", p.Pos(instrPos(appends[0])), "selected with Front()/Next(): removal follows age order",
						fmt.Sprintf("the L0 inputs are selected with %v, so they are unlinked and deleted newest first: after a crash between two removals an older L0 table survives above the merged output and answers lookups with stale values", keys(walk)))
				}
				continue
			}
			for _, g := range p.Callees(sel) {
				walk := map[string]bool{}
				for h := range c.Locks().roleReach([]*ssa.Function{g}) {
					eachInstr(h, func(ins ssa.Instruction) {
						if cl, ok := ins.(*ssa.Call); ok {
							if obj := p.ExtCallee(cl); obj != nil && obj.Pkg() != nil && obj.Pkg().Path() == "container/list" {
								switch obj.Name() {
								case "Front", "Back", "Next", "Prev":
									walk[obj.Name()] = true
								}
							}
						}
					})
				}
				n++
				ok := walk["Front"] && walk["Next"] && !walk["Back"] && !walk["Prev"]
				r.Check(ok, p.FnName(g), "L0 inputs oldest first", p.Pos(g.Pos()), "selected with Front()/Next(): removal follows age order",
					fmt.Sprintf("the L0 inputs are selected with %v, so they are unlinked and deleted newest first: after a crash between two removals an older L0 table survives above the merged output and answers lookups with stale values", keys(walk)))
			}
		}
	}
	if n == 0 {
		r.Undecided("-", "L0 selection", "", "no L0 compaction found")
	}
}

func init() {
	register(&Rule{ID: "TRACE.FRESHBUF", Engine: "E-DEP", Min: 2,
		Desc: "the private buffers of a transaction (pendingWrites, writesFp) are created fresh for it (make), never taken from a pool or shared object: nothing an abandoned transaction wrote can reappear in another one",
		Run:  runTraceFreshBuf})
	register(&Rule{ID: "WM.COUNT", Engine: "E-PATH", Min: 1,
		Desc: "every Begin/Done mark the consumer receives is counted: from the non-waiter branch no path leads back to the select without the update of the pending count",
		Run:  runWmCount})
	register(&Rule{ID: "WM.PUBLISH", Engine: "E-PATH", Min: 1,
		Desc: "waiters released because the mark advanced are closed only after the new value of doneUntil was stored: WaitForMark never returns nil while DoneUntil() is still below its index",
		Run:  runWmPublish})
}

func runTraceFreshBuf(c *Ctx, r *RuleRun) {
	a := c.Txn()
	if !a.ok(r) {
		return
	}
	p := c.P
	for _, fv := range []*types.Var{a.fPending, a.fWritesFp} {
		n := 0
		for _, f := range p.Funcs {
			for _, st := range storesToField(f, fv) {
				n++
				v := st.Val
				_, isMake := v.(*ssa.MakeMap)
				ok := isMake || isNilConst(v)
				r.Check(ok, p.FnName(f), "fresh "+fv.Name(), p.Pos(instrPos(st)), "make(map…) for this transaction",
					"the transaction's "+fv.Name()+" is not a freshly made map (it comes from a pool or another object): entries an abandoned transaction left in it are seen, and committed, by the next transaction")
			}
		}
		if n == 0 {
			r.Undecided("Txn", "fresh "+fv.Name(), "", "no store to Txn."+fv.Name())
		}
	}
}

func runWmCount(c *Ctx, r *RuleRun) {
	a := wmGet(c, r)
	if a == nil {
		return
	}
	p := c.P
	f := a.process
	fn := p.FnName(f)
	var sel ssa.Instruction
	eachInstr(f, func(ins ssa.Instruction) {
		if s, ok := ins.(*ssa.Select); ok {
			sel = s
		}
	})
	isCount := func(i ssa.Instruction) bool {
		mu, ok := i.(*ssa.MapUpdate)
		if !ok {
			return false
		}
		mt, ok := mu.Map.Type().Underlying().(*types.Map)
		if !ok {
			return false
		}
		bt, ok := mt.Elem().Underlying().(*types.Basic)
		return ok && bt.Info()&types.IsInteger != 0
	}
	n := 0
	for _, b := range f.Blocks {
		if len(b.Instrs) == 0 {
			continue
		}
		iff, ok := b.Instrs[len(b.Instrs)-1].(*ssa.If)
		if !ok {
			continue
		}
		v, nilSucc, isNil := nilTestCond(iff.Cond)
		if !isNil || !isLoadOfField(v, a.fWaiter) {
			continue
		}
		n++
		// (a later test of the same mark's waiter - a flat switch repeats it - can only go the nil way again)
		q := PathQuery{P: p, Fn: f, Starts: []ssa.Instruction{iff}, EdgeOK: func(bb *ssa.BasicBlock, i int) bool {
			if bb == b {
				return i == nilSucc
			}
			if i2, ok := bb.Instrs[len(bb.Instrs)-1].(*ssa.If); ok {
				if v2, ns2, isNil2 := nilTestCond(i2.Cond); isNil2 && isLoadOfField(v2, a.fWaiter) && (v2 == v || (nfOpts{p: p, depth: 6}).nf(v) == (nfOpts{p: p, depth: 6}).nf(v2)) {
					return i == ns2
				}
			}
			return true
		},
			Avoid: func(i ssa.Instruction) bool { return isCount(i) || i == ssa.Instruction(iff) }, Target: func(i ssa.Instruction) bool { return i == sel || isReturn(i) }}
		w := q.FindPath()
		if w != nil {
			r.Viol(fn, "every mark is counted", p.Pos(instrPos(iff)), "a Begin/Done mark can be dropped without updating its pending count (e.g. marks at or below the current watermark): a second Begin of an index that is already passed is never tracked and the mark moves beyond unfinished work", p.describePath(w)...)
		} else {
			r.Hold(fn, "every mark is counted", p.Pos(instrPos(iff)), "pending[ts] is updated on every path of the begin/done branch")
		}
	}
	if n == 0 {
		r.Undecided(fn, "begin/done branch", p.Pos(f.Pos()), "the branch on mark.waiter was not found")
	}
}

func runWmPublish(c *Ctx, r *RuleRun) {
	a := wmGet(c, r)
	if a == nil {
		return
	}
	p := c.P
	f := a.process
	fn := p.FnName(f)
	stores := a.stores(p, f)
	n := 0
	eachInstr(f, func(ins ssa.Instruction) {
		call, ok := ins.(*ssa.Call)
		if !ok {
			return
		}
		bi, ok := call.Call.Value.(*ssa.Builtin)
		if src, _, isClose := chanCloseOf(p, call); isClose && !ok {
			// a closure/helper that closes the channels it is handed (wake(cs...)): judged like the close itself
			if fv, _ := loadedField(src); fv == a.fMarkC {
				return
			}
			for _, st := range stores {
				x := st.Call.Args[1]
				if hasFact(call, func(cm Cmp) bool { return cm.Op == "<=" && cm.Y == x }) {
					n++
					r.Check(dominatesInstr(st, call), fn, "store before releasing waiters", p.Pos(instrPos(call)), "doneUntil.Store precedes the close of the waiter",
						"a waiter is released before the new value of doneUntil is stored: WaitForMark returns nil although DoneUntil() still reads below its index")
				}
			}
			return
		}
		if !ok {
			// a helper of the package that releases waiters and is handed the new value
			g := call.Call.StaticCallee()
			if g == nil || !p.InModule(g) || g.Pkg != f.Pkg {
				return
			}
			closes := p.FuncMayDo(g, func(i ssa.Instruction) bool {
				cc, ok := i.(*ssa.Call)
				if !ok {
					return false
				}
				b2, ok := cc.Call.Value.(*ssa.Builtin)
				if !ok || b2.Name() != "close" {
					return false
				}
				fv, _ := loadedField(cc.Call.Args[0])
				return fv != a.fMarkC
			})
			if !closes {
				return
			}
			for _, st := range stores {
				for _, arg := range call.Call.Args {
					if arg == st.Call.Args[1] {
						n++
						r.Check(dominatesInstr(st, call), fn, "store before releasing waiters", p.Pos(instrPos(call)), "doneUntil.Store precedes the call that releases the waiters",
							"waiters are released before the new value of doneUntil is stored: WaitForMark returns nil although DoneUntil() still reads below its index")
					}
				}
			}
			return
		}
		if bi.Name() != "close" {
			return
		}
		if fv, _ := loadedField(call.Call.Args[0]); fv == a.fMarkC {
			return
		}
		// guarded by the freshly computed value (not by a read of doneUntil)?
		byNew := false
		for _, st := range stores {
			x := st.Call.Args[1]
			if hasFact(call, func(cm Cmp) bool { return cm.Op == "<=" && cm.Y == x }) {
				byNew = true
				n++
				r.Check(dominatesInstr(st, call), fn, "store before releasing waiters", p.Pos(instrPos(call)), "doneUntil.Store precedes the close of the waiter",
					"a waiter is released before the new value of doneUntil is stored: WaitForMark returns nil although DoneUntil() still reads below its index")
			}
		}
		_ = byNew
	})
	if n == 0 {
		r.Undecided(fn, "waiters released on advance", p.Pos(f.Pos()), "no waiter close guarded by the newly computed mark")
	}
}

func init() {
	register(&Rule{ID: "RECOVER.FILTER", Engine: "E-GUARD", Min: 1,
		Desc: "recovery loads as tables only directory entries whose extension is exactly .db: the temporary files of the table writer (and anything else) are ignored",
		Run:  runRecoverFilter})
	register(&Rule{ID: "LIVE.NOSPAWN", Engine: "E-CG", Min: 2,
		Desc: "background work is confined to the two goroutines Close and Stop know about (the flusher started by Open, the consumer started by watermark.New): no other go statement starts work that touches files or locks and outlives Close",
		Run:  runLiveNoSpawn})
}

func runRecoverFilter(c *Ctx, r *RuleRun) {
	p := c.P
	rec := p.FnOr("", "levelManager", "recover")
	if rec == nil {
		r.Undecided("-", "levelManager.recover", "", "anchor not found")
		return
	}
	isDbExt := func(cm Cmp) bool {
		// path.Ext(x) == ".db"   or   strings.HasSuffix(x, ".db") == true
		if cm.Y != nil && cm.Op == "==" {
			if s, ok := constString(cm.Y); ok && s == ".db" {
				if call, ok := cm.X.(*ssa.Call); ok {
					if obj := p.ExtCallee(call); obj != nil && (funcIs(obj, "path", "", "Ext") || funcIs(obj, "path/filepath", "", "Ext")) {
						return true
					}
				}
			}
		}
		if cm.Y == nil && cm.Op == "true" {
			if call, ok := cm.X.(*ssa.Call); ok {
				if obj := p.ExtCallee(call); obj != nil && funcIs(obj, "strings", "", "HasSuffix") && len(call.Call.Args) == 2 {
					if s, ok := constString(call.Call.Args[1]); ok && s == ".db" {
						return true
					}
				}
			}
		}
		return false
	}
	n := 0
	eachInstrOf(localFns(p, rec), func(ins ssa.Instruction) {
		call, ok := ins.(*ssa.Call)
		if !ok {
			return
		}
		bi, ok := call.Call.Value.(*ssa.Builtin)
		if !ok || bi.Name() != "append" || len(call.Call.Args) < 2 {
			return
		}
		// appends of directory entry names
		fromDir := p.dependsOn(call.Call.Args[1], func(x ssa.Value) bool {
			cl, ok := x.(*ssa.Call)
			return ok && cl.Call.IsInvoke() && cl.Call.Method.Name() == "Name"
		})
		if !fromDir {
			return
		}
		n++
		r.Check(hasFact(call, isDbExt), p.FnName(rec), "only *.db entries are tables", p.Pos(instrPos(call)), "selected under the test Ext(name) == \".db\"",
			"recovery accepts directory entries that do not end in .db as tables (a parse of the name ignores trailing text): the temporary file N-M.db.tmp left by a crash in the middle of a table write is loaded, and Open panics on its missing footer")
	})
	if n == 0 {
		r.Undecided(p.FnName(rec), "directory scan", p.Pos(rec.Pos()), "no collection of directory entry names found")
	}
}

func runLiveNoSpawn(c *Ctx, r *RuleRun) {
	p := c.P
	la := c.Locks()
	d := c.Dur()
	open := p.Fn("", "", "Open")
	wmNew := p.Fn("pkg/watermark", "", "New")
	for _, g := range la.GoSites {
		f := g.Parent()
		if strings.HasSuffix(p.Fset.Position(g.Pos()).Filename, "_test.go") {
			continue
		}
		fn, pos := p.FnName(f), p.Pos(instrPos(g))
		if f == open || f == wmNew {
			r.Hold(fn, "go statement", pos, "one of the two background goroutines that Close / Stop wait for")
			continue
		}
		// anything else: harmless only if it neither takes locks nor touches files
		heavy := ""
		for h := range la.roleReach(p.Callees(g)) {
			if len(d.byFn[h]) > 0 {
				heavy = "performs file operations in " + p.FnName(h)
			}
			for _, op := range la.Ops {
				if op.Fn == h && !op.Unlock {
					heavy = "acquires " + op.Lock + " in " + p.FnName(h)
				}
			}
		}
		r.Check(heavy == "", fn, "go statement", pos, "started goroutine neither locks nor touches files",
			"a goroutine is started outside Open/watermark.New and "+heavy+": Close does not wait for it, so background work (e.g. a compaction) can still be rewriting the directory after Close returned and while it is reopened")
	}
}

func init() {
	register(&Rule{ID: "CODEC.S2", Engine: "E-SIB", Min: 1,
		Desc: "Compress and Decompress agree on the block size: a reader limited with ReaderMaxBlockSize needs a writer limited with WriterBlockSize; otherwise what was encoded cannot be decoded once a block exceeds the limit",
		Run:  runCodecS2})
	register(&Rule{ID: "CODEC.BLOCKS", Engine: "E-ESC", Min: 1,
		Desc: "table.Build starts every data block with a fresh entry slice: the accumulator is reset by value, never re-sliced to length 0 (the blocks already collected would share, and be overwritten through, its backing array)",
		Run:  runCodecBlocks})
}

func runCodecS2(c *Ctx, r *RuleRun) {
	p := c.P
	cf, df := p.Fn("utils", "", "Compress"), p.Fn("utils", "", "Decompress")
	if cf == nil || df == nil {
		r.Undecided("-", "utils.Compress/Decompress", "", "anchors not found")
		return
	}
	opts := func(f *ssa.Function) map[string]bool {
		out := map[string]bool{}
		for g := range p.Reach(f) {
			eachInstr(g, func(ins ssa.Instruction) {
				if call, ok := ins.(*ssa.Call); ok {
					if obj := p.ExtCallee(call); obj != nil && obj.Pkg() != nil && strings.HasSuffix(obj.Pkg().Path(), "compress/s2") {
						out[obj.Name()] = true
					}
				}
			})
		}
		return out
	}
	w, rd := opts(cf), opts(df)
	ok := w["NewWriter"] && rd["NewReader"]
	detail := "writer and reader both use the default block limits"
	if rd["ReaderMaxBlockSize"] && !w["WriterBlockSize"] {
		ok = false
	}
	if rd["ReaderMaxBlockSize"] && w["WriterBlockSize"] {
		detail = "writer and reader both limit the block size"
	}
	r.Check(ok, "utils", "Compress/Decompress block size", p.Pos(df.Pos()), detail,
		"Decompress limits the s2 block size but Compress does not: a block or index above the limit is written without error and can never be read back")
}

func runCodecBlocks(c *Ctx, r *RuleRun) {
	p := c.P
	build := p.Fn("table", "", "Build")
	entries := p.Field("table", "Data", "Entries")
	if build == nil || entries == nil {
		r.Undecided("-", "table.Build", "", "anchor not found")
		return
	}
	bad := ""
	var pos token.Pos = build.Pos()
	eachInstr(build, func(ins ssa.Instruction) {
		sl, ok := ins.(*ssa.Slice)
		if !ok {
			return
		}
		if fv, _ := loadedField(sl.X); fv != entries {
			return
		}
		if k, ok := constInt(sl.High); ok && k == 0 {
			bad = "re-slices Data.Entries to length 0"
			pos = instrPos(sl)
		}
	})
	r.Check(bad == "", p.FnName(build), "fresh slice per data block", p.Pos(pos), "the block accumulator is reset by value",
		"table.Build "+bad+" after collecting a block: the following block overwrites the entries of the blocks already collected (they share the backing array), so multi-block tables are written with wrong contents")
}

// inlineSelection: the table set a fetch reads was collected in the compactor itself - the append calls (in loops of
// cf) it derives from, the container/list calls the collected elements come from, and the blocks of those loops.
func inlineSelection(p *Prog, cf *ssa.Function, set ssa.Value) (appends []*ssa.Call, walk map[string]bool, blocks map[*ssa.BasicBlock]bool) {
	walk = map[string]bool{}
	blocks = map[*ssa.BasicBlock]bool{}
	p.dependsOn(set, func(x ssa.Value) bool {
		cl, ok := x.(*ssa.Call)
		if !ok || cl.Parent() != cf {
			return false
		}
		if bi, ok := cl.Call.Value.(*ssa.Builtin); ok && bi.Name() == "append" && isElemSlice(cl.Type()) && inLoop(cl.Block()) {
			appends = append(appends, cl)
		}
		if obj := p.ExtCallee(cl); obj != nil && obj.Pkg() != nil && obj.Pkg().Path() == "container/list" {
			switch obj.Name() {
			case "Front", "Back", "Next", "Prev":
				walk[obj.Name()] = true
			}
		}
		return false
	})
	for _, lp := range naturalLoops(cf) {
		for _, ap := range appends {
			if lp.body[ap.Block()] {
				for b := range lp.body {
					blocks[b] = true
				}
			}
		}
	}
	return
}

// isLoopHeader: some predecessor of b is dominated by b (a back edge enters b).
func isLoopHeader(b *ssa.BasicBlock) bool {
	for _, pr := range b.Preds {
		if b.Dominates(pr) {
			return true
		}
	}
	return false
}

// levelListIndex: v is the list of one level - lm.levels[L] loaded directly, or handed out by a helper of the module
// whose every return is lm.levels[k] for one constant k or for one of its parameters (then L is the caller's argument).
func levelListIndex(p *Prog, v ssa.Value, levels *types.Var, depth int) (ssa.Value, bool) {
	switch x := v.(type) {
	case *ssa.UnOp:
		if ia, ok := x.X.(*ssa.IndexAddr); ok && x.Op == token.MUL {
			if fv, _ := loadedField(ia.X); fv == levels {
				return ia.Index, true
			}
		}
	case *ssa.Call:
		g := x.Call.StaticCallee()
		if g == nil || !p.InModule(g) || len(g.Blocks) == 0 || depth > 1 || g.Signature.Results().Len() != 1 {
			return nil, false
		}
		var idx ssa.Value
		good, n := true, 0
		eachInstr(g, func(ins ssa.Instruction) {
			ret, ok := ins.(*ssa.Return)
			if !ok {
				return
			}
			n++
			i2, ok := levelListIndex(p, retOperand(ret, 0), levels, depth+1)
			if !ok {
				good = false
				return
			}
			if idx == nil {
				idx = i2
				return
			}
			k1, ok1 := constInt(idx)
			k2, ok2 := constInt(i2)
			if !(idx == i2 || (ok1 && ok2 && k1 == k2)) {
				good = false
			}
		})
		if !good || n == 0 || idx == nil {
			return nil, false
		}
		if _, isConst := idx.(*ssa.Const); isConst {
			return idx, true
		}
		if pr, isParam := unconv(idx).(*ssa.Parameter); isParam {
			for i, q := range g.Params {
				if q == pr && i < len(x.Call.Args) {
					return x.Call.Args[i], true
				}
			}
		}
	}
	return nil, false
}
