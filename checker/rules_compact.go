package main

// Rules added after the mutation sweep (DESIGN.md §9): the compaction code is not exercised by the project's tests at
// all, so these restate its wiring obligation by obligation - which level every table set belongs to, how lists are
// walked, the overlap and boundary predicates, what version discarding has to keep.

import (
	"go/token"
	"go/types"
	"strings"

	"golang.org/x/tools/go/ssa"
)

func init() {
	register(&Rule{ID: "CMP.LEVELS", Engine: "E-DEP", Min: 12,
		Desc: "every table set of a compaction is used with the level it was selected from (fetch, unlink, file removal), the output goes to one target level everywhere (Build, writeTable, next index, list insert), the target set was selected from that level, and target = source + 1",
		Run:  runCmpLevels})
	register(&Rule{ID: "LIST.WALK", Engine: "E-SIB", Min: 8,
		Desc: "every walk over a container/list runs while the element is non-nil and advances in the direction it started from (Front…Next, Back…Prev)",
		Run:  runListWalk})
	register(&Rule{ID: "CMP.RANGE", Engine: "E-GUARD", Min: 6, Spec: true,
		Desc: "the compaction range is [smallest first key, largest last key] of the inputs in CompareKeys order, handed to the overlap selector as (start, end); a table is selected exactly when ParseKey(first key) <= ParseKey(end) and ParseKey(last key) >= ParseKey(start)",
		Run:  runCmpRange})
	register(&Rule{ID: "GC.KEEP", Engine: "E-PATH", Min: 5,
		Desc: "version discarding drops nothing it must keep: entries above the threshold are appended to the result, every other entry is recorded as its key's candidate unless a newer candidate exists, all candidates are appended after the loop, the result is sorted with CompareKeys, and the input is passed through untouched only when the threshold is 0",
		Run:  runGcKeep})
	register(&Rule{ID: "ERR.SWALLOW", Engine: "E-GUARD", Min: 0,
		Desc: "a failure is not reported as success: no return with a nil error is dominated by the fact that a call's error was non-nil",
		Run:  runErrSwallow})
}

// derivesFrom: v was obtained from a value satisfying pred by loads, indexing, field selection, type assertion, range
// iteration or copies through local cells.
func derivesFrom(v ssa.Value, pred func(ssa.Value) bool) bool {
	seen := map[ssa.Value]bool{}
	var walk func(x ssa.Value, d int) bool
	walk = func(x ssa.Value, d int) bool {
		if x == nil || d > 16 || seen[x] {
			return false
		}
		seen[x] = true
		if pred(x) {
			return true
		}
		switch y := x.(type) {
		case *ssa.UnOp:
			return walk(y.X, d+1)
		case *ssa.IndexAddr:
			return walk(y.X, d+1)
		case *ssa.Index:
			return walk(y.X, d+1)
		case *ssa.FieldAddr:
			return walk(y.X, d+1)
		case *ssa.Field:
			return walk(y.X, d+1)
		case *ssa.TypeAssert:
			return walk(y.X, d+1)
		case *ssa.ChangeType:
			return walk(y.X, d+1)
		case *ssa.Convert:
			return walk(y.X, d+1)
		case *ssa.Extract:
			return walk(y.Tuple, d+1)
		case *ssa.Next:
			return walk(y.Iter, d+1)
		case *ssa.Range:
			return walk(y.X, d+1)
		case *ssa.Slice:
			return walk(y.X, d+1)
		case *ssa.Phi:
			for _, e := range y.Edges {
				if walk(e, d+1) {
					return true
				}
			}
		case *ssa.Alloc:
			for _, ref := range *y.Referrers() {
				if st, ok := ref.(*ssa.Store); ok && st.Addr == ssa.Value(y) && walk(st.Val, d+1) {
					return true
				}
				// elements / fields of a local aggregate (e.g. the one-element array of a variadic call)
				var sub *[]ssa.Instruction
				switch a := ref.(type) {
				case *ssa.IndexAddr:
					sub = a.Referrers()
				case *ssa.FieldAddr:
					sub = a.Referrers()
				}
				if sub != nil {
					for _, r2 := range *sub {
						if st, ok := r2.(*ssa.Store); ok && walk(st.Val, d+1) {
							return true
						}
					}
				}
			}
		}
		return false
	}
	return walk(v, 0)
}

// isTableSelector: a function of the engine package that hands out tables of a level as []*list.Element - a method of
// levelManager, or a plain function that is given the level's list.
func isTableSelector(p *Prog, f *ssa.Function) bool {
	if f == nil || f.Signature.Results().Len() != 1 || !isElemSlice(f.Signature.Results().At(0).Type()) || len(f.Blocks) == 0 {
		return false
	}
	if p.recvIs(f, "levelManager") {
		return true
	}
	lm := p.FnOr("", "levelManager", "fetch")
	return lm != nil && f.Pkg == lm.Pkg && f.Signature.Recv() == nil && f.Parent() == nil
}

func isElemSlice(t types.Type) bool {
	sl, ok := t.Underlying().(*types.Slice)
	if !ok {
		return false
	}
	return isListElemPtr(sl.Elem())
}

func isListElemPtr(t types.Type) bool {
	pt, ok := t.Underlying().(*types.Pointer)
	if !ok {
		return false
	}
	n, ok := pt.Elem().(*types.Named)
	return ok && n.Obj().Pkg() != nil && n.Obj().Pkg().Path() == "container/list" && n.Obj().Name() == "Element"
}

// ---- CMP.LEVELS ----

type tableSet struct {
	val   ssa.Value // the []*list.Element or *list.Element
	level string    // normal form of the level it was selected from
	what  string
}

func runCmpLevels(c *Ctx, r *RuleRun) {
	p := c.P
	levels := p.Field("", "levelManager", "levels")
	fetch := p.FnOr("", "levelManager", "fetch")
	build := p.Fn("table", "", "Build")
	if levels == nil || fetch == nil || build == nil {
		r.Undecided("-", "levelManager.levels / fetch / table.Build", "", "anchors not found")
		return
	}
	o := nfOpts{p: p, depth: 6}
	// level a callee works on when it takes no level parameter: the constant index it applies to levels
	constLevelOf := func(g *ssa.Function) (string, bool) {
		res, n := "", 0
		eachInstr(g, func(ins ssa.Instruction) {
			if ia, ok := ins.(*ssa.IndexAddr); ok && isLoadOfField(ia.X, levels) {
				if _, isK := constInt(ia.Index); isK {
					res = o.nf(ia.Index)
					n++
				}
			}
		})
		return res, n > 0
	}
	for _, f := range compactors(c) {
		fn := p.FnName(f)
		var sets []tableSet
		eachInstr(f, func(ins ssa.Instruction) {
			cl, ok := ins.(*ssa.Call)
			if !ok {
				return
			}
			g := cl.Call.StaticCallee()
			switch {
			case g != nil && p.InModule(g) && isElemSlice(cl.Type()):
				// a selector: level parameter, or a constant level inside
				lvl := ""
				for i, pr := range g.Params {
					if bt, ok := pr.Type().Underlying().(*types.Basic); ok && bt.Kind() == types.Int && lvl == "" {
						lvl = o.nf(cl.Call.Args[i])
					}
				}
				if lvl == "" {
					// the level's list itself is handed over: overlapping(lm.levels[n+1], start, end)
					for _, a := range cl.Call.Args {
						if idx, ok := levelListIndex(p, a, levels, 0); ok && lvl == "" {
							lvl = o.nf(idx)
						}
					}
				}
				if lvl == "" {
					if k, ok := constLevelOf(g); ok {
						lvl = k
					}
				}
				if lvl != "" {
					sets = append(sets, tableSet{cl, lvl, g.Name()})
				}
			case isListElemPtr(cl.Type()):
				// levels[n].Front()
				if obj := p.CalleeObj(cl); obj != nil && (funcIs(obj, "container/list", "List", "Front") || funcIs(obj, "container/list", "List", "Back")) {
					if u, ok := cl.Call.Args[0].(*ssa.UnOp); ok {
						if ia, ok := u.X.(*ssa.IndexAddr); ok && isLoadOfField(ia.X, levels) {
							sets = append(sets, tableSet{cl, o.nf(ia.Index), "levels[" + o.nf(ia.Index) + "]." + obj.Name() + "()"})
						}
					}
				}
			}
		})
		if len(sets) < 2 {
			r.Undecided(fn, "table sets", p.Pos(f.Pos()), "fewer than two input table sets recognised")
			continue
		}
		setOfDirect := func(v ssa.Value) *tableSet {
			for i := range sets {
				s := &sets[i]
				if derivesFrom(v, func(x ssa.Value) bool { return x == s.val }) {
					return s
				}
			}
			return nil
		}
		// a frame per helper call: values of the helper are traced back through its parameters to the compactor
		type frame struct {
			fn   *ssa.Function
			site *ssa.Call
			up   *frame
		}
		var setOfIn func(v ssa.Value, fr *frame) *tableSet
		setOfIn = func(v ssa.Value, fr *frame) *tableSet {
			if fr == nil || fr.site == nil {
				return setOfDirect(v)
			}
			var res *tableSet
			derivesFrom(v, func(x ssa.Value) bool {
				pr, ok := x.(*ssa.Parameter)
				if !ok || pr.Parent() != fr.fn {
					return false
				}
				for i, q := range fr.fn.Params {
					if q == pr && i < len(fr.site.Call.Args) {
						res = setOfIn(fr.site.Call.Args[i], fr.up)
					}
				}
				return res != nil
			})
			return res
		}
		var levelIn func(v ssa.Value, fr *frame) string
		levelIn = func(v ssa.Value, fr *frame) string {
			if fr != nil && fr.site != nil {
				if pr, ok := stripValue(v).(*ssa.Parameter); ok && pr.Parent() == fr.fn {
					for i, q := range fr.fn.Params {
						if q == pr && i < len(fr.site.Call.Args) {
							return levelIn(fr.site.Call.Args[i], fr.up)
						}
					}
				}
			}
			return o.nf(v)
		}
		// uses of a set with a level
		var outLevels []struct {
			nf   string
			what string
			pos  token.Pos
		}
		var visit func(h *ssa.Function, fr *frame, depth int)
		visit = func(h *ssa.Function, fr *frame, depth int) {
			eachInstr(h, func(ins ssa.Instruction) {
				cl, ok := ins.(*ssa.Call)
				if !ok {
					return
				}
				g := cl.Call.StaticCallee()
				obj := p.CalleeObj(cl)
				setOf := func(v ssa.Value) *tableSet { return setOfIn(v, fr) }
				lvl := func(v ssa.Value) string { return levelIn(v, fr) }
				switch {
				case g == fetch:
					if s := setOf(cl.Call.Args[2]); s != nil {
						r.Check(lvl(cl.Call.Args[1]) == s.level, fn, "fetch from the level of the set", p.Pos(instrPos(cl)), "tables selected from level "+s.level+" are read from level "+s.level,
							"a table selected by "+s.what+" (level "+s.level+") is fetched with level "+lvl(cl.Call.Args[1])+": another table's file (or none) is read")
					}
				case g != nil && p.InModule(g) && g.Name() == "fileName" || (g != nil && p.InModule(g) && g.Signature.Results().Len() == 1 && isStringType(g.Signature.Results().At(0).Type()) && g.Signature.Params().Len() == 2 && p.recvIs(g, "levelManager")):
					if s := setOf(cl.Call.Args[2]); s != nil {
						r.Check(lvl(cl.Call.Args[1]) == s.level, fn, "file removed at the level of the set", p.Pos(instrPos(cl)), "file names of tables from level "+s.level+" are built with level "+s.level,
							"the file of a table selected by "+s.what+" (level "+s.level+") is named with level "+lvl(cl.Call.Args[1])+": another table's file is deleted and this one stays")
					}
				case obj != nil && funcIs(obj, "container/list", "List", "Remove"):
					if s := setOf(cl.Call.Args[1]); s != nil {
						lv := ""
						if u, ok := cl.Call.Args[0].(*ssa.UnOp); ok {
							if ia, ok := u.X.(*ssa.IndexAddr); ok && isLoadOfField(ia.X, levels) {
								lv = lvl(ia.Index)
							}
						}
						r.Check(lv == s.level, fn, "unlinked from the level of the set", p.Pos(instrPos(cl)), "elements of level "+s.level+" are removed from the list of level "+s.level,
							"an element selected by "+s.what+" (level "+s.level+") is removed from the list of level "+lv+": container/list ignores the call and the table stays linked while its file is deleted")
					}
				case g != nil && p.InModule(g) && g.Pkg == f.Pkg && depth < 2 && !isElemSlice(cl.Type()) && g != build && passesSet(cl, func(v ssa.Value) bool { return setOf(v) != nil }):
					visit(g, &frame{g, cl, fr}, depth+1)
				case g != nil && p.InModule(g) && g.Pkg == f.Pkg && depth < 2 && !isElemSlice(cl.Type()) && len(callsTo(p, g, build)) > 0:
					// a helper that builds the output table: its uses of the level it is handed count as the caller's
					visit(g, &frame{g, cl, fr}, depth+1)
				case g == build:
					outLevels = append(outLevels, struct {
						nf   string
						what string
						pos  token.Pos
					}{lvl(cl.Call.Args[len(cl.Call.Args)-1]), "table.Build", instrPos(cl)})
				case obj != nil && funcIs(obj, "container/list", "List", "PushBack"), obj != nil && funcIs(obj, "container/list", "List", "PushFront"):
					if u, ok := cl.Call.Args[0].(*ssa.UnOp); ok {
						if ia, ok := u.X.(*ssa.IndexAddr); ok && isLoadOfField(ia.X, levels) {
							outLevels = append(outLevels, struct {
								nf   string
								what string
								pos  token.Pos
							}{lvl(ia.Index), "list insert", instrPos(cl)})
						}
					}
				case g != nil && p.InModule(g) && p.recvIs(g, "levelManager") && g != fetch && !isElemSlice(cl.Type()):
					// writeTable(level, idx, bytes) and maxLevelIdx(level): methods whose first parameter is the level
					if len(g.Params) >= 2 {
						if bt, ok := g.Params[1].Type().Underlying().(*types.Basic); ok && bt.Kind() == types.Int {
							if (g.Signature.Results().Len() == 1 && isErrorType(g.Signature.Results().At(0).Type()) && len(g.Params) == 4) || (g.Signature.Results().Len() == 1 && len(g.Params) == 2 && !isStringType(g.Signature.Results().At(0).Type())) {
								outLevels = append(outLevels, struct {
									nf   string
									what string
									pos  token.Pos
								}{lvl(cl.Call.Args[1]), g.Name(), instrPos(cl)})
							}
						}
					}
				}
			})
		}
		visit(f, &frame{fn: f}, 0)
		if len(outLevels) < 3 {
			r.Undecided(fn, "output level", p.Pos(f.Pos()), "fewer than three uses of the output level recognised (Build, write, index, insert)")
			continue
		}
		target := outLevels[0].nf
		for _, ol := range outLevels {
			r.Check(ol.nf == target, fn, "one output level", p.Pos(ol.pos), ol.what+" uses level "+target, ol.what+" uses level "+ol.nf+" while "+outLevels[0].what+" uses "+target+": the new table is written, numbered or linked at different levels")
		}
		// exactly one set comes from the target level, the other(s) from target-1
		nt := 0
		for _, s := range sets {
			if s.level == target {
				nt++
				continue
			}
			okSrc := false
			if k, err := parseIntNF(s.level); err == nil {
				if t, err2 := parseIntNF(target); err2 == nil && t == k+1 {
					okSrc = true
				}
			} else if plusOne(target, s.level) {
				okSrc = true
			}
			r.Check(okSrc, fn, "target = source + 1", p.Pos(instrPos(s.val.(ssa.Instruction))), "inputs from level "+s.level+", output to level "+target, "inputs selected by "+s.what+" come from level "+s.level+" but the output goes to level "+target)
		}
		// the target level exists before it is used: levels is extended exactly when len(levels) <= target
		var tval ssa.Value
		eachInstr(f, func(ins ssa.Instruction) {
			if cl, ok := ins.(*ssa.Call); ok && cl.Call.StaticCallee() == build {
				tval = cl.Call.Args[len(cl.Call.Args)-1]
			}
		})
		if tval == nil {
			// table.Build is called in a helper: the level the compactor hands to that helper
			eachInstr(f, func(ins ssa.Instruction) {
				cl, ok := ins.(*ssa.Call)
				if !ok {
					return
				}
				g := cl.Call.StaticCallee()
				if g == nil || g.Pkg != f.Pkg {
					return
				}
				for _, bc := range callsTo(p, g, build) {
					if pr, ok := unconv(bc.Call.Args[len(bc.Call.Args)-1]).(*ssa.Parameter); ok {
						for i, q := range g.Params {
							if q == pr && i < len(cl.Call.Args) {
								tval = cl.Call.Args[i]
							}
						}
					}
				}
			})
		}
		tl := linearOf(tval, levels)
		var grow *ssa.Store
		for _, st := range storesToField(f, levels) {
			if cl, ok := st.Val.(*ssa.Call); ok {
				if bi, ok := cl.Call.Value.(*ssa.Builtin); ok && bi.Name() == "append" && isLoadOfField(cl.Call.Args[0], levels) {
					grow = st
				}
			}
		}
		switch {
		case grow == nil:
			r.Viol(fn, "target level exists", p.Pos(f.Pos()), "the compaction never extends the level lists: the first compaction into a level that does not exist yet indexes out of range")
		case !tl.ok:
			r.Undecided(fn, "target level exists", p.Pos(instrPos(grow)), "the output level is not a linear expression of a parameter")
		default:
			okGuard, found := false, false
			for _, ce := range dominatingConds(grow) {
				cm := canonCond(ce.If.Cond, ce.Truth)
				if cm.Y == nil {
					continue
				}
				a, b := linearOf(cm.X, levels), linearOf(cm.Y, levels)
				if !a.ok || !b.ok || (a.len == 0 && b.len == 0) {
					continue
				}
				found = true
				// normalise to L <= 0
				var l lin
				switch cm.Op {
				case "<":
					l = a.sub(b).addc(1)
				case "<=":
					l = a.sub(b)
				case ">":
					l = b.sub(a).addc(1)
				case ">=":
					l = b.sub(a)
				default:
					continue
				}
				want := lin{len: 1, ok: true}.sub(tl) // len - target <= 0
				// (len <= target) must imply the guard; a guard that also fires a little later only creates an empty level early
				if l.len == want.len && l.n == want.n && l.c <= want.c {
					okGuard = true
				}
			}
			if !found {
				r.Hold(fn, "target level exists", p.Pos(instrPos(grow)), "the level lists are extended unconditionally")
			} else {
				r.Check(okGuard, fn, "target level exists", p.Pos(instrPos(grow)), "the level lists are extended whenever len(levels) <= target", "the lazy initialisation of the target level does not cover `len(levels) <= target`: the level is not created when it is missing and the flusher indexes out of range")
			}
		}
		r.Check(nt == 1, fn, "overlapping tables of the target level take part", p.Pos(f.Pos()), "one input set is selected from the output level "+target, "no input set (or more than one) is selected from the output level "+target+": the new table overlaps tables of its level that were not merged")
	}
}

// lin: a*len(levels) + b*n + c for one int parameter n.
type lin struct {
	len, n, c int64
	ok        bool
}

func (a lin) sub(b lin) lin    { return lin{a.len - b.len, a.n - b.n, a.c - b.c, a.ok && b.ok} }
func (a lin) addc(k int64) lin { return lin{a.len, a.n, a.c + k, a.ok} }

func linearOf(v ssa.Value, levels *types.Var) lin {
	v = stripValue(v)
	if v == nil {
		return lin{}
	}
	if k, ok := constInt(v); ok {
		return lin{c: k, ok: true}
	}
	switch x := v.(type) {
	case *ssa.Parameter:
		if bt, ok := x.Type().Underlying().(*types.Basic); ok && bt.Info()&types.IsInteger != 0 {
			return lin{n: 1, ok: true}
		}
	case *ssa.Call:
		if bi, ok := x.Call.Value.(*ssa.Builtin); ok && bi.Name() == "len" && isLoadOfField(x.Call.Args[0], levels) {
			return lin{len: 1, ok: true}
		}
	case *ssa.BinOp:
		a, b := linearOf(x.X, levels), linearOf(x.Y, levels)
		if a.ok && b.ok {
			switch x.Op {
			case token.ADD:
				return lin{a.len + b.len, a.n + b.n, a.c + b.c, true}
			case token.SUB:
				return a.sub(b)
			}
		}
	}
	return lin{}
}

// passesSet: some argument of the call is (derived from) one of the table sets.
func passesSet(cl *ssa.Call, isSet func(ssa.Value) bool) bool {
	for _, a := range cl.Call.Args {
		if isElemSlice(a.Type()) || isListElemPtr(a.Type()) {
			if isSet(a) {
				return true
			}
		}
	}
	return false
}

func isStringType(t types.Type) bool {
	bt, ok := t.Underlying().(*types.Basic)
	return ok && bt.Info()&types.IsString != 0
}

func parseIntNF(s string) (int, error) {
	n := 0
	if s == "" {
		return 0, errNotInt
	}
	for _, ch := range s {
		if ch < '0' || ch > '9' {
			return 0, errNotInt
		}
		n = n*10 + int(ch-'0')
	}
	return n, nil
}

var errNotInt = &notIntErr{}

type notIntErr struct{}

func (*notIntErr) Error() string { return "not an integer" }

// plusOne: normal form t is "1 + s" (in either operand order, with or without parentheses).
func plusOne(t, s string) bool {
	t = strings.TrimSuffix(strings.TrimPrefix(t, "("), ")")
	return t == "1 + "+s || t == s+" + 1"
}

// ---- LIST.WALK ----

func runListWalk(c *Ctx, r *RuleRun) {
	p := c.P
	for _, f := range p.Funcs {
		fn := p.FnName(f)
		eachInstr(f, func(ins ssa.Instruction) {
			ph, ok := ins.(*ssa.Phi)
			if !ok || !isListElemPtr(ph.Type()) {
				return
			}
			start, step := "", ""
			for _, e := range ph.Edges {
				cl, ok := e.(*ssa.Call)
				if !ok {
					continue
				}
				obj := p.CalleeObj(cl)
				if obj == nil {
					continue
				}
				switch {
				case funcIs(obj, "container/list", "List", "Front"), funcIs(obj, "container/list", "List", "Back"):
					start = obj.Name()
				case funcIs(obj, "container/list", "Element", "Next"), funcIs(obj, "container/list", "Element", "Prev"):
					if cl.Call.Args[0] == ssa.Value(ph) {
						step = obj.Name()
					}
				}
			}
			if start == "" || step == "" {
				return
			}
			okDir := (start == "Front" && step == "Next") || (start == "Back" && step == "Prev")
			r.Check(okDir, fn, "walk direction", p.Pos(ph.Pos()), start+"() … "+step+"()", "the walk starts at "+start+"() and advances with "+step+"(): only one element is visited")
			// condition: continue while e != nil
			var iff *ssa.If
			for _, ref := range *ph.Referrers() {
				if bo, ok := ref.(*ssa.BinOp); ok && bo.Block() == ph.Block() {
					for _, r2 := range *bo.Referrers() {
						if i2, ok := r2.(*ssa.If); ok && i2.Block() == ph.Block() {
							iff = i2
						}
					}
				}
			}
			if iff == nil {
				return
			}
			blk := ph.Block()
			stay := -1
			for _, lp := range naturalLoops(f) {
				if lp.header != blk {
					continue
				}
				for si, s := range blk.Succs {
					if lp.body[s] {
						stay = si
					}
				}
			}
			if stay < 0 {
				return
			}
			cm := canonCond(iff.Cond, stay == 0)
			okCond := cm.Y != nil && cm.Op == "!=" && ((cm.X == ssa.Value(ph) && isNilConst(cm.Y)) || (cm.Y == ssa.Value(ph) && isNilConst(cm.X)))
			r.Check(okCond, fn, "walk runs while the element is non-nil", p.Pos(instrPos(iff)), "continues while e != nil", "the walk does not continue exactly while the element is non-nil: it never runs, or runs off the end of the list")
		})
		// a walk that never advances: a loop whose condition tests the Front()/Back() result itself
		for _, b := range f.Blocks {
			if len(b.Instrs) == 0 || !inLoop(b) {
				continue
			}
			iff, ok := b.Instrs[len(b.Instrs)-1].(*ssa.If)
			if !ok {
				continue
			}
			cm := canonCond(iff.Cond, true)
			if cm.Y == nil {
				continue
			}
			for _, v := range []ssa.Value{cm.X, cm.Y} {
				cl, ok := v.(*ssa.Call)
				if !ok || !isListElemPtr(cl.Type()) || inLoop(cl.Block()) {
					continue
				}
				if obj := p.CalleeObj(cl); obj != nil && (funcIs(obj, "container/list", "List", "Front") || funcIs(obj, "container/list", "List", "Back")) {
					r.Viol(fn, "walk advances", p.Pos(instrPos(iff)), "a loop tests the element returned by "+obj.Name()+"() itself on every iteration: the walk never advances (it spins, or handles only the first element)")
				}
			}
		}
	}
}

// ---- CMP.RANGE ----

func runCmpRange(c *Ctx, r *RuleRun) {
	p := c.P
	parseKey := p.Fn("types", "", "ParseKey")
	cmpKeys := p.Fn("types", "", "CompareKeys")
	startF, endF := p.Field("table", "IndexEntry", "StartKey"), p.Field("table", "IndexEntry", "EndKey")
	entriesF := p.Field("table", "Index", "Entries")
	if parseKey == nil || cmpKeys == nil || startF == nil || endF == nil || entriesF == nil {
		r.Undecided("-", "types.ParseKey / IndexEntry", "", "anchors not found")
		return
	}
	// first/last key of an index: Entries[0].StartKey / Entries[len(Entries)-1].EndKey
	var boundKey func(v ssa.Value) string
	boundKey = func(v ssa.Value) string {
		v = stripValue(v)
		// the first/last key handed out by a helper (`currStart, currEnd := tableRange(e)`): what every return of the
		// helper puts into that result
		{
			var call *ssa.Call
			idx := 0
			if ex, ok := v.(*ssa.Extract); ok {
				call, _ = ex.Tuple.(*ssa.Call)
				idx = ex.Index
			} else if cl, ok := v.(*ssa.Call); ok {
				call = cl
			}
			if call != nil {
				g := call.Call.StaticCallee()
				if g == nil || !p.InModule(g) || len(g.Blocks) == 0 || g == parseKey {
					return ""
				}
				res := ""
				for _, b := range g.Blocks {
					ret, ok := b.Instrs[len(b.Instrs)-1].(*ssa.Return)
					if !ok || b == g.Recover || idx >= len(ret.Results) {
						continue
					}
					k := boundKey(ret.Results[idx])
					if res != "" && k != res {
						return "other"
					}
					res = k
				}
				return res
			}
		}
		fv, base := loadedField(v)
		if fv != startF && fv != endF {
			return ""
		}
		var idx ssa.Value
		var cont ssa.Value
		base = singleStore(base)
		switch b := base.(type) {
		case *ssa.IndexAddr:
			idx, cont = b.Index, b.X
		case *ssa.UnOp:
			if ia, ok := b.X.(*ssa.IndexAddr); ok {
				idx, cont = ia.Index, ia.X
			}
		case *ssa.Index:
			idx, cont = b.Index, b.X
		}
		if idx == nil {
			return ""
		}
		isEntries := func(x ssa.Value) bool {
			cf, _ := loadedField(x)
			return cf == entriesF
		}
		// cont may be a local copy of the Entries slice
		if !isEntries(cont) && !derivesFrom(cont, isEntries) {
			return ""
		}
		if k, isK := constInt(idx); isK && k == 0 {
			if fv == startF {
				return "first"
			}
			return "first.EndKey"
		}
		if bo, ok := stripValue(idx).(*ssa.BinOp); ok && bo.Op == token.SUB {
			if k, isK := constInt(bo.Y); isK && k == 1 {
				if cl, ok := bo.X.(*ssa.Call); ok {
					if bi, ok := cl.Call.Value.(*ssa.Builtin); ok && bi.Name() == "len" {
						if fv == endF {
							return "last"
						}
						return "last.StartKey"
					}
				}
			}
		}
		return "other"
	}
	// 1. selectors
	nSel := 0
	for _, f := range p.Funcs {
		if !isTableSelector(p, f) {
			continue
		}
		var bounds []*ssa.Parameter
		for _, pr := range f.Params {
			if isStringType(pr.Type()) {
				bounds = append(bounds, pr)
			}
		}
		if len(bounds) != 2 {
			continue
		}
		fn := p.FnName(f)
		pk := func(v ssa.Value) ssa.Value {
			if cl := callTo(p, stripValue(v), parseKey); cl != nil {
				return cl.Call.Args[0]
			}
			return nil
		}
		eachInstr(f, func(ins ssa.Instruction) {
			cl, ok := ins.(*ssa.Call)
			if !ok || !inLoop(cl.Block()) {
				return
			}
			bi, ok := cl.Call.Value.(*ssa.Builtin)
			if !ok || bi.Name() != "append" || !isElemSlice(cl.Type()) {
				return
			}
			nSel++
			lower := hasFact(cl, func(cm Cmp) bool {
				if cm.Y == nil || cm.Op != "<=" {
					return false
				}
				a, b := pk(cm.X), pk(cm.Y)
				return a != nil && b != nil && boundKey(a) == "first" && stripValue(b) == ssa.Value(bounds[1])
			})
			upper := hasFact(cl, func(cm Cmp) bool {
				if cm.Y == nil || cm.Op != ">=" {
					return false
				}
				a, b := pk(cm.X), pk(cm.Y)
				return a != nil && b != nil && boundKey(a) == "last" && stripValue(b) == ssa.Value(bounds[0])
			})
			r.Check(lower, fn, "selected only if first key <= end", p.Pos(instrPos(cl)), "dominated by ParseKey(Entries[0].StartKey) <= ParseKey(end)",
				"a table is selected without the test `user key of its first entry <= user key of the range end` (second bound parameter): tables outside the range are merged, or overlapping ones are left out")
			r.Check(upper, fn, "selected only if last key >= start", p.Pos(instrPos(cl)), "dominated by ParseKey(Entries[len-1].EndKey) >= ParseKey(start)",
				"a table is selected without the test `user key of its last entry >= user key of the range start` (first bound parameter): tables outside the range are merged, or overlapping ones are left out")
		})
	}
	if nSel == 0 {
		r.Undecided("levelManager", "range selector", "", "no table selector with two key bounds found")
	}
	// selectors answer "nothing" early only for an empty level, and a selector without bounds (L0) takes every table
	for _, f := range p.Funcs {
		if !isTableSelector(p, f) {
			continue
		}
		fn := p.FnName(f)
		var walk *natLoop
		for _, lp := range naturalLoops(f) {
			lp := lp
			for _, ins := range lp.header.Instrs {
				if ph, ok := ins.(*ssa.Phi); ok && isListElemPtr(ph.Type()) {
					walk = &lp
				}
			}
		}
		if walk == nil {
			continue
		}
		hasBounds := false
		for _, pr := range f.Params {
			if isStringType(pr.Type()) {
				hasBounds = true
			}
			// bounds that travel together in a struct (keyRange{start, end}): still a selector with bounds - the clauses
			// for two string bounds do not read it, those for "takes every table" do not apply
			t := pr.Type()
			if pt, ok := t.Underlying().(*types.Pointer); ok {
				t = pt.Elem()
			}
			if st, ok := t.Underlying().(*types.Struct); ok && p.isModuleNamed(t) != nil && !p.recvIs(f, p.isModuleNamed(t).Obj().Name()) {
				for i := 0; i < st.NumFields(); i++ {
					if isStringType(st.Field(i).Type()) {
						hasBounds = true
					}
				}
			}
		}
		eachInstr(f, func(ins ssa.Instruction) {
			ret, ok := ins.(*ssa.Return)
			if !ok || walk.header.Dominates(ret.Block()) || ret.Block().Comment == "recover" {
				return
			}
			empty := hasFact(ret, func(cm Cmp) bool {
				if cm.Y == nil || cm.Op != "==" {
					return false
				}
				k, isK := constInt(cm.Y)
				cl, isC := stripValue(cm.X).(*ssa.Call)
				if !isK || k != 0 || !isC {
					return false
				}
				obj := p.CalleeObj(cl)
				return obj != nil && funcIs(obj, "container/list", "List", "Len")
			})
			r.Check(empty, fn, "early answer only for an empty level", p.Pos(instrPos(ret)), "guarded by Len() == 0", "the selector returns before walking the level on a condition other than `the level is empty`: overlapping tables are left out of the merge")
		})
		if !hasBounds {
			isAdd := func(i ssa.Instruction) bool {
				cl, ok := i.(*ssa.Call)
				if !ok {
					return false
				}
				bi, ok := cl.Call.Value.(*ssa.Builtin)
				return ok && bi.Name() == "append" && isElemSlice(cl.Type())
			}
			// from the loop body's entry to the next test of the header, every path appends
			var body *ssa.BasicBlock
			for _, s := range walk.header.Succs {
				if walk.body[s] {
					body = s
				}
			}
			okAll := body != nil
			if body != nil && len(body.Instrs) > 0 {
				q := PathQuery{P: p, Fn: f, Starts: []ssa.Instruction{walk.header.Instrs[len(walk.header.Instrs)-1]},
					EdgeOK: func(bb *ssa.BasicBlock, i int) bool { return bb != walk.header || bb.Succs[i] == body },
					Avoid:  isAdd, Target: func(i ssa.Instruction) bool { return i.Block() == walk.header && instrIndex(i) == 0 }}
				okAll = q.FindPath() == nil
			}
			r.Check(okAll, fn, "every table of the level is selected", p.Pos(f.Pos()), "each visited element is appended", "a selector without key bounds does not append every element it visits: tables stay behind in the level although all of them have to be merged")
		}
	}
	// a selection of L0 tables written out in the compactor itself: every element the walk visits is appended
	if fetch := p.FnOr("", "levelManager", "fetch"); fetch != nil {
		for _, cf := range compactors(c) {
			for _, fs := range fetchSitesOf(p, cf, fetch) {
				if k, ok := constInt(fs.Level); !ok || k != 0 {
					continue
				}
				appends, _, _ := inlineSelection(p, cf, fs.Set)
				for _, ap := range appends {
					var walk *natLoop
					for _, lp := range naturalLoops(cf) {
						lp := lp
						if lp.body[ap.Block()] && (walk == nil || len(lp.body) < len(walk.body)) {
							walk = &lp
						}
					}
					if walk == nil {
						continue
					}
					var body *ssa.BasicBlock
					for _, sb := range walk.header.Succs {
						if walk.body[sb] {
							body = sb
						}
					}
					okAll := body != nil
					if body != nil {
						q := PathQuery{P: p, Fn: cf, Starts: []ssa.Instruction{walk.header.Instrs[len(walk.header.Instrs)-1]},
							EdgeOK: func(bb *ssa.BasicBlock, i int) bool { return bb != walk.header || bb.Succs[i] == body },
							Avoid:  func(i ssa.Instruction) bool { return i == ssa.Instruction(ap) }, Target: func(i ssa.Instruction) bool { return i.Block() == walk.header && instrIndex(i) == 0 }}
						okAll = q.FindPath() == nil
					}
					r.Check(okAll, p.FnName(cf), "every table of the level is selected", p.Pos(instrPos(ap)), "each visited element is appended", "a selector without key bounds does not append every element it visits: tables stay behind in the level although all of them have to be merged")
				}
			}
		}
	}
	// 2. boundary: a function returning two strings computed over list elements
	nB := 0
	for _, f := range p.Funcs {
		if f.Pkg != p.SSAPkg[p.ModPath] || f.Signature.Results().Len() != 2 || !isStringType(f.Signature.Results().At(0).Type()) || !isStringType(f.Signature.Results().At(1).Type()) {
			continue
		}
		takesElems := false
		for _, pr := range f.Params {
			if isElemSlice(pr.Type()) {
				takesElems = true
			}
		}
		if !takesElems {
			continue
		}
		fn := p.FnName(f)
		eachInstr(f, func(ins ssa.Instruction) {
			ret, ok := ins.(*ssa.Return)
			if !ok || len(ret.Results) != 2 {
				return
			}
			for ri, want := range []struct{ key, op, what string }{{"first", "<", "start = smallest first key"}, {"last", ">", "end = largest last key"}} {
				nB++
				ph, ok := retOperand(ret, ri).(*ssa.Phi)
				if !ok {
					r.Undecided(fn, want.what, p.Pos(instrPos(ret)), "result is not a loop-carried value")
					continue
				}
				good := true
				why := ""
				for i, e := range ph.Edges {
					pred := ph.Block().Preds[i]
					switch {
					case e == ssa.Value(ph):
					case !ph.Block().Dominates(pred):
						if boundKey(e) != want.key {
							good, why = false, "does not start from the "+want.key+" key of the first input"
						}
						elem0 := func(x ssa.Value) bool {
							ia, ok := x.(*ssa.IndexAddr)
							if !ok {
								return false
							}
							_, isParam := ia.X.(*ssa.Parameter)
							k, isK := constInt(ia.Index)
							return isParam && isK && k == 0
						}
						first := derivesFrom(e, elem0)
						if !first {
							// the key comes out of a helper that is handed element 0
							var call *ssa.Call
							if ex, ok := stripValue(e).(*ssa.Extract); ok {
								call, _ = ex.Tuple.(*ssa.Call)
							} else {
								call, _ = stripValue(e).(*ssa.Call)
							}
							if call != nil && call.Call.StaticCallee() != nil && p.InModule(call.Call.StaticCallee()) {
								for _, arg := range call.Call.Args {
									if derivesFrom(arg, elem0) {
										first = true
									}
								}
							}
						}
						if !first {
							good, why = false, "does not start from the first input (element 0 of the inputs)"
						}
					default:
						// in-loop update (possibly through an inner merge phi)
						var leaves []phiLeaf
						if q, isPhi := e.(*ssa.Phi); isPhi {
							_, leaves = phiLeaves(q, ph.Block())
							for i2, e2 := range q.Edges {
								if e2 != ssa.Value(ph) {
									leaves = append(leaves, phiLeaf{e2, q.Block().Preds[i2]})
								}
							}
						} else {
							leaves = []phiLeaf{{e, pred}}
						}
						for _, lf := range leaves {
							if lf.val == ssa.Value(ph) {
								continue
							}
							if _, isPhi := lf.val.(*ssa.Phi); isPhi {
								continue
							}
							if boundKey(lf.val) != want.key {
								good, why = false, "is updated with something other than the "+want.key+" key of an input"
								continue
							}
							// the update edge is dominated by CompareKeys(new, current) op 0
							if len(lf.pred.Instrs) == 0 {
								good = false
								continue
							}
							at := lf.pred.Instrs[len(lf.pred.Instrs)-1]
							if !hasFact(at, func(cm Cmp) bool {
								if cm.Y == nil {
									return false
								}
								call := callTo(p, cm.X, cmpKeys)
								k, isK := constInt(cm.Y)
								if call == nil || !isK || k != 0 {
									return false
								}
								a0, a1 := stripValue(call.Call.Args[0]), stripValue(call.Call.Args[1])
								if a0 == stripValue(lf.val) && a1 == ssa.Value(ph) {
									return cm.Op == want.op
								}
								if a1 == stripValue(lf.val) && a0 == ssa.Value(ph) {
									return flipCmp(cm.Op) == want.op
								}
								return false
							}) {
								good, why = false, "is updated without the test CompareKeys(candidate, current) "+want.op+" 0"
							}
						}
					}
				}
				r.Check(good, fn, want.what, p.Pos(instrPos(ret)), "starts from the first input and moves only under CompareKeys(candidate, current) "+want.op+" 0", "the "+[]string{"start", "end"}[ri]+" of the compaction range "+why+": the range does not cover the inputs and overlapping tables of the next level are left out of the merge")
			}
		})
		// 3. wiring: the two results go to the selector as (start, end)
		for _, site := range p.CallersOf(f) {
			bc, ok := site.(*ssa.Call)
			if !ok {
				continue
			}
			eachInstr(bc.Parent(), func(ins ssa.Instruction) {
				cl, ok := ins.(*ssa.Call)
				if !ok || !isElemSlice(cl.Type()) {
					return
				}
				var strs []ssa.Value
				for _, a := range cl.Call.Args {
					if isStringType(a.Type()) {
						strs = append(strs, a)
					}
				}
				if len(strs) != 2 {
					return
				}
				e0, ok0 := strs[0].(*ssa.Extract)
				e1, ok1 := strs[1].(*ssa.Extract)
				if !ok0 || !ok1 || e0.Tuple != ssa.Value(bc) && e1.Tuple != ssa.Value(bc) {
					return
				}
				nB++
				r.Check(e0.Tuple == ssa.Value(bc) && e1.Tuple == ssa.Value(bc) && e0.Index == 0 && e1.Index == 1, p.FnName(bc.Parent()), "range handed over as (start, end)", p.Pos(instrPos(cl)), "selector(level, start, end)",
					"the bounds computed for the inputs are handed to the selector in the wrong order or from different computations")
			})
		}
	}
	if nB == 0 {
		r.Undecided("compaction", "range of the inputs", "", "no boundary computation found")
	}
}

// ---- GC.KEEP ----

// gcWorker: the function that does the version garbage collection - discardStaleEntries itself, or the one helper it
// hands the entries to (the function that records candidates in a map of entries).
func gcWorker(p *Prog, f *ssa.Function) *ssa.Function {
	if f == nil {
		return nil
	}
	h := p.directHolder(f, func(ins ssa.Instruction) bool {
		mu, ok := ins.(*ssa.MapUpdate)
		return ok && p.isModuleNamed(mu.Value.Type()) == p.Named("types", "Entry")
	})
	if h != nil {
		return h
	}
	return f
}

func runGcKeep(c *Ctx, r *RuleRun) {
	p := c.P
	f := p.FnOr("", "levelManager", "discardStaleEntries")
	cmpKeys := p.Fn("types", "", "CompareKeys")
	if f == nil || cmpKeys == nil {
		r.Undecided("-", "levelManager.discardStaleEntries", "", "anchor not found")
		return
	}
	entry := f
	f = gcWorker(p, f)
	fn := p.FnName(f)
	var in *ssa.Parameter
	for _, pr := range f.Params {
		if sl, ok := pr.Type().Underlying().(*types.Slice); ok && p.isModuleNamed(sl.Elem()) == p.Named("types", "Entry") {
			in = pr
		}
	}
	if in == nil {
		r.Undecided(fn, "input", "", "no []Entry parameter")
		return
	}
	fromInput := func(v ssa.Value) bool { return derivesFrom(v, func(x ssa.Value) bool { return x == ssa.Value(in) }) }
	isEntry := func(t types.Type) bool { return p.isModuleNamed(t) == p.Named("types", "Entry") }
	// appends of an input entry to the result, map updates with an input entry
	appendOf := func(pred func(ssa.Value) bool) InstrPred {
		return func(ins ssa.Instruction) bool {
			cl, ok := ins.(*ssa.Call)
			if !ok {
				return false
			}
			bi, ok := cl.Call.Value.(*ssa.Builtin)
			if !ok || bi.Name() != "append" || len(cl.Call.Args) != 2 {
				return false
			}
			sl, ok := cl.Type().Underlying().(*types.Slice)
			if !ok || !isEntry(sl.Elem()) {
				return false
			}
			// the appended element: a one-element varargs array
			return derivesFrom(cl.Call.Args[1], pred)
		}
	}
	isKeepInput := appendOf(fromInput)
	isRecord := func(ins ssa.Instruction) bool {
		mu, ok := ins.(*ssa.MapUpdate)
		return ok && isEntry(mu.Value.Type()) && fromInput(mu.Value)
	}
	// the loop over the input
	var loop *natLoop
	for _, lp := range naturalLoops(f) {
		lp := lp
		for b := range lp.body {
			for _, ins := range b.Instrs {
				if isRecord(ins) {
					loop = &lp
				}
			}
		}
	}
	if loop == nil {
		r.Undecided(fn, "candidate map", p.Pos(f.Pos()), "no loop that records candidates in a map")
		return
	}
	backEdge := func(ins ssa.Instruction) bool {
		// reaching the loop header again = the iteration ended
		return ins.Block() == loop.header && instrIndex(ins) == 0
	}
	// threshold comparison: ts > low
	n := 0
	for b := range loop.body {
		if len(b.Instrs) == 0 {
			continue
		}
		iff, ok := b.Instrs[len(b.Instrs)-1].(*ssa.If)
		if !ok {
			continue
		}
		cm := canonCond(iff.Cond, true)
		if cm.Y == nil || (cm.Op != ">" && cm.Op != "<=" && cm.Op != "<" && cm.Op != ">=") {
			continue
		}
		// ts of the iterated entry against the threshold (a value from outside the loop)
		lhsIn := p.dependsOn(cm.X, func(x ssa.Value) bool { return fromInput(x) })
		rhsIn := p.dependsOn(cm.Y, func(x ssa.Value) bool { return fromInput(x) })
		outside := func(v ssa.Value) bool {
			if ins, ok := v.(ssa.Instruction); ok {
				return !loop.body[ins.Block()]
			}
			return true
		}
		var aboveEdge int
		switch {
		case lhsIn && !rhsIn && outside(cm.Y):
			// entry-ts OP threshold (keeping the version equal to the threshold as well is harmless)
			if cm.Op == ">" || cm.Op == ">=" {
				aboveEdge = 0
			} else if cm.Op == "<=" || cm.Op == "<" {
				aboveEdge = 1
			} else {
				continue
			}
		case rhsIn && !lhsIn && outside(cm.X):
			if cm.Op == "<" || cm.Op == "<=" {
				aboveEdge = 0
			} else if cm.Op == ">=" || cm.Op == ">" {
				aboveEdge = 1
			} else {
				continue
			}
		default:
			continue
		}
		n++
		q := PathQuery{P: p, Fn: f, Starts: []ssa.Instruction{iff}, EdgeOK: func(bb *ssa.BasicBlock, i int) bool { return bb != b || i == aboveEdge }, Avoid: isKeepInput, Target: backEdge}
		w := q.FindPath()
		if w == nil {
			r.Hold(fn, "versions above the threshold are kept", p.Pos(instrPos(iff)), "on the branch ts > threshold every path appends the entry to the result")
		} else {
			r.Viol(fn, "versions above the threshold are kept", p.Pos(instrPos(iff)), "an entry whose version is above the discard threshold can reach the next iteration without having been appended to the result: versions that open snapshots still need are dropped", p.describePath(w)...)
		}
	}
	if n == 0 {
		r.Undecided(fn, "versions above the threshold are kept", p.Pos(f.Pos()), "no comparison of an entry's version with the threshold found in the loop")
	}
	// every input entry is visited: the loop is left only when the input is exhausted
	if bad := leftElsewhere(*loop); bad != nil {
		r.Viol(fn, "every entry is visited", p.Pos(instrPos(bad.Instrs[len(bad.Instrs)-1])), "the loop over the input is left before the input is exhausted (break/return inside it): the entries after that point are dropped from the output table")
	} else {
		r.Hold(fn, "every entry is visited", p.Pos(instrPos(loop.header.Instrs[len(loop.header.Instrs)-1])), "the loop is left only through its own condition")
	}
	// every iteration at or below the threshold records the entry unless the existing candidate is at least as new:
	// from the start of an iteration there is no way to its end that neither keeps nor records the entry, except over an
	// edge that establishes "entry version <= candidate version"
	{
		fromCand := func(v ssa.Value) bool {
			return p.dependsOn(v, func(x ssa.Value) bool {
				if lk, ok := x.(*ssa.Lookup); ok {
					_, isMap := lk.X.Type().Underlying().(*types.Map)
					return isMap
				}
				return false
			})
		}
		fromEntry := func(v ssa.Value) bool { return p.dependsOn(v, fromInput) && !fromCand(v) }
		var body *ssa.BasicBlock
		for _, s := range loop.header.Succs {
			if loop.body[s] {
				body = s
			}
		}
		if body == nil || len(loop.header.Instrs) == 0 {
			r.Undecided(fn, "candidates recorded", p.Pos(f.Pos()), "loop body not found")
		} else {
			q := PathQuery{P: p, Fn: f, Starts: []ssa.Instruction{loop.header.Instrs[len(loop.header.Instrs)-1]},
				Avoid:  func(i ssa.Instruction) bool { return isRecord(i) || isKeepInput(i) },
				Target: backEdge,
				EdgeOK: func(bb *ssa.BasicBlock, i int) bool {
					if bb == loop.header {
						return bb.Succs[i] == body
					}
					if !loop.body[bb.Succs[i]] {
						return false
					}
					i2, ok := bb.Instrs[len(bb.Instrs)-1].(*ssa.If)
					if !ok {
						return true
					}
					c2 := canonCond(i2.Cond, i == 0)
					if c2.Y == nil {
						return true
					}
					// entry <= candidate (or <): the one legitimate reason to record nothing
					if fromEntry(c2.X) && fromCand(c2.Y) && (c2.Op == "<=" || c2.Op == "<") {
						return false
					}
					if fromCand(c2.X) && fromEntry(c2.Y) && (c2.Op == ">=" || c2.Op == ">") {
						return false
					}
					return true
				}}
			w := q.FindPath()
			if w == nil {
				r.Hold(fn, "candidates recorded", p.Pos(instrPos(loop.header.Instrs[len(loop.header.Instrs)-1])), "every iteration keeps the entry, records it, or has seen a candidate at least as new")
			} else {
				r.Viol(fn, "candidates recorded", p.Pos(instrPos(loop.header.Instrs[len(loop.header.Instrs)-1])), "an iteration can end without the entry having been kept or recorded as its key's candidate although no newer candidate is known: a version at or below the threshold that reads still need is dropped", p.describePath(w)...)
			}
		}
	}
	// after the loop every candidate is appended
	isFlushCand := appendOf(func(x ssa.Value) bool {
		nx, ok := x.(*ssa.Next)
		if !ok {
			return false
		}
		rg, ok := nx.Iter.(*ssa.Range)
		if !ok {
			return false
		}
		_, isMap := rg.X.Type().Underlying().(*types.Map)
		return isMap
	})
	flushed := p.FuncMayDo(f, isFlushCand)
	if !flushed {
		// the library form: slices.AppendSeq(result, maps.Values(candidates)) / slices.Collect(maps.Values(…))
		eachInstr(f, func(ins ssa.Instruction) {
			cl, ok := ins.(*ssa.Call)
			if !ok {
				return
			}
			g := cl.Call.StaticCallee()
			if g == nil {
				return
			}
			if og := g.Origin(); og != nil {
				g = og
			}
			if g.Pkg == nil || g.Pkg.Pkg.Path() != "slices" || (g.Name() != "AppendSeq" && g.Name() != "Collect") {
				return
			}
			seq := cl.Call.Args[len(cl.Call.Args)-1]
			if vc, ok := seq.(*ssa.Call); ok {
				h := vc.Call.StaticCallee()
				if h != nil && h.Origin() != nil {
					h = h.Origin()
				}
				if h != nil && h.Pkg != nil && h.Pkg.Pkg.Path() == "maps" && h.Name() == "Values" && len(vc.Call.Args) == 1 {
					if _, isMap := vc.Call.Args[0].Type().Underlying().(*types.Map); isMap {
						flushed = true
					}
				}
			}
		})
	}
	r.Check(flushed, fn, "candidates appended after the loop", p.Pos(f.Pos()), "for _, e := range candidates { result = append(result, e) }", "the candidates collected in the map are never appended to the result: every version at or below the threshold is dropped, including the newest one that reads still need")
	// sorted with CompareKeys before the return of a built result
	isSort := func(ins ssa.Instruction) bool {
		cl, ok := ins.(*ssa.Call)
		if !ok {
			return false
		}
		obj := p.CalleeObj(cl)
		if obj == nil || obj.Pkg() == nil || !(obj.Pkg().Path() == "slices" || obj.Pkg().Path() == "sort") {
			return false
		}
		for _, a := range cl.Call.Args {
			if mc, ok := a.(*ssa.MakeClosure); ok {
				if g, ok := mc.Fn.(*ssa.Function); ok && len(callsTo(p, g, cmpKeys)) > 0 {
					return true
				}
			}
			if g, ok := a.(*ssa.Function); ok && len(callsTo(p, g, cmpKeys)) > 0 {
				return true
			}
		}
		return false
	}
	eachInstr(f, func(ins ssa.Instruction) {
		ret, ok := ins.(*ssa.Return)
		if !ok || len(ret.Results) != 1 || ret.Block().Comment == "recover" {
			return
		}
		v := retOperand(ret, 0)
		if v == ssa.Value(in) {
			// pass-through: only with threshold 0
			zero := hasFact(ret, func(cm Cmp) bool {
				if cm.Y == nil || cm.Op != "==" {
					return false
				}
				k, isK := constInt(cm.Y)
				return isK && k == 0
			})
			r.Check(zero, fn, "input passed through only without a threshold", p.Pos(instrPos(ret)), "guarded by threshold == 0", "the input is returned untouched on a condition other than `threshold == 0`")
			return
		}
		q := PathQuery{P: p, Fn: f, Starts: nil, Avoid: isSort, Target: func(i ssa.Instruction) bool { return i == ssa.Instruction(ret) },
			EdgeOK: nil}
		// only paths that built a result matter: start after the last append site that can reach the return
		var starts []ssa.Instruction
		eachInstr(f, func(i2 ssa.Instruction) {
			if isFlushCand(i2) || isKeepInput(i2) {
				starts = append(starts, i2)
			}
		})
		q.Starts = starts
		w := q.FindPath()
		if w == nil {
			r.Hold(fn, "result sorted with CompareKeys", p.Pos(instrPos(ret)), "every path from an append to the return sorts the result")
		} else {
			r.Viol(fn, "result sorted with CompareKeys", p.Pos(instrPos(ret)), "the result can be returned without being sorted with CompareKeys after the candidates (taken from a map, in random order) were appended: the table built from it is not sorted and lookups miss keys", p.describePath(w)...)
		}
	})
	// the worker is a helper: the entry function may hand its input back untouched, again only without a threshold
	if entry != f {
		eachInstr(entry, func(ins ssa.Instruction) {
			ret, ok := ins.(*ssa.Return)
			if !ok || len(ret.Results) != 1 || ret.Block().Comment == "recover" {
				return
			}
			if pr, isParam := retOperand(ret, 0).(*ssa.Parameter); isParam && types.Identical(pr.Type(), in.Type()) {
				zero := hasFact(ret, func(cm Cmp) bool {
					if cm.Y == nil || cm.Op != "==" {
						return false
					}
					k, isK := constInt(cm.Y)
					return isK && k == 0
				})
				r.Check(zero, p.FnName(entry), "input passed through only without a threshold", p.Pos(instrPos(ret)), "guarded by threshold == 0", "the input is returned untouched on a condition other than `threshold == 0`")
			}
		})
	}
}

// leftElsewhere: a block of the loop other than its header with a successor outside the loop (nil if none);
// edges into blocks that panic are not exits.
func leftElsewhere(lp natLoop) *ssa.BasicBlock {
	for b := range lp.body {
		if b == lp.header {
			continue
		}
		for _, s := range b.Succs {
			if lp.body[s] {
				continue
			}
			if len(s.Instrs) > 0 {
				if _, isPanic := s.Instrs[len(s.Instrs)-1].(*ssa.Panic); isPanic {
					continue
				}
			}
			return b
		}
		if len(b.Instrs) > 0 {
			if _, isRet := b.Instrs[len(b.Instrs)-1].(*ssa.Return); isRet {
				return b
			}
		}
	}
	return nil
}

// ---- ERR.SWALLOW ----

func runErrSwallow(c *Ctx, r *RuleRun) {
	p := c.P
	n := 0
	for _, f := range p.Funcs {
		ei := errResultIndex(f.Signature)
		if ei < 0 {
			continue
		}
		fn := p.FnName(f)
		eachInstr(f, func(ins ssa.Instruction) {
			ret, ok := ins.(*ssa.Return)
			if !ok || ei >= len(ret.Results) {
				return
			}
			if !isNilConst(retOperand(ret, ei)) {
				return
			}
			for _, cm := range factsAt(ret) {
				if cm.Y == nil || cm.Op != "!=" {
					continue
				}
				x, y := cm.X, cm.Y
				if isNilConst(x) {
					x, y = y, x
				}
				if !isNilConst(y) || !isErrorType(x.Type()) {
					continue
				}
				// an error from a call made by this function
				var call *ssa.Call
				switch v := x.(type) {
				case *ssa.Call:
					call = v
				case *ssa.Extract:
					call, _ = v.Tuple.(*ssa.Call)
				}
				if call == nil {
					continue
				}
				// classified errors (not-exist, EOF, torn tail) may legitimately end in success
				classified := false
				for _, ref := range *x.Referrers() {
					if cc, ok := ref.(*ssa.Call); ok && dominatesInstr(cc, ret) {
						classified = true
					}
					if mi, ok := ref.(*ssa.MakeInterface); ok {
						_ = mi
					}
					if bo, ok := ref.(*ssa.BinOp); ok && bo.Op == token.EQL && !isNilConst(bo.X) && !isNilConst(bo.Y) {
						classified = true
					}
				}
				if classified {
					continue
				}
				n++
				r.Viol(fn, "failure reported as success", p.Pos(instrPos(ret)), "a nil error is returned on the branch where the error of "+shortInstr(call)+" is known to be non-nil: the caller continues with results of a failed operation")
			}
		})
	}
	if n == 0 {
		r.Hold("module", "failure reported as success", "", "no success return is dominated by a failed call's error being non-nil")
	}
}
