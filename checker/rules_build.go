package main

// Rules added after the mutation sweep for the table writer and the wal version order (DESIGN.md §9).

import (
	"go/token"
	"go/types"

	"golang.org/x/tools/go/ssa"
)

func init() {
	register(&Rule{ID: "BUILD.LAYOUT", Engine: "E-DEP", Min: 7,
		Desc: "table.Build writes data blocks, meta block, index block and footer in that order and records them where it wrote them: Index.DataBlock = {0, total data length}, Footer.MetaBlock = {total data length, len(meta)}, Footer.IndexBlock = {meta offset + meta length, len(index)}; every section encoded is written",
		Run:  runBuildLayout})
	register(&Rule{ID: "BUILD.ALLBLOCKS", Engine: "E-PATH", Min: 2,
		Desc: "table.Build loses no entry when it splits them into data blocks: the current block is reset only after it was appended to the list of blocks, and the last block is skipped only when it is empty",
		Run:  runBuildAllBlocks})
	register(&Rule{ID: "WAL.VERSION", Engine: "E-GUARD", Min: 6, Spec: true,
		Desc: "the order of wal files: ParseVersion takes the two components that Create put into the name, CompareVersion orders by the first component, then the second, answering -1 only when smaller and 1 only when larger",
		Run:  runWalVersion})
}

// handleLit: v is a BlockHandle value built by a composite literal → the values of its Offset and Length.
func handleLit(p *Prog, v ssa.Value) (off, ln ssa.Value) {
	u, ok := v.(*ssa.UnOp)
	if !ok || u.Op != token.MUL {
		return nil, nil
	}
	al, ok := u.X.(*ssa.Alloc)
	if !ok {
		return nil, nil
	}
	offF, lenF := p.Field("table", "BlockHandle", "Offset"), p.Field("table", "BlockHandle", "Length")
	for _, ref := range *al.Referrers() {
		fa, ok := ref.(*ssa.FieldAddr)
		if !ok {
			continue
		}
		fv, _ := fieldOfAddr(fa)
		for _, r2 := range *fa.Referrers() {
			if st, ok := r2.(*ssa.Store); ok {
				switch fv {
				case offF:
					off = st.Val
				case lenF:
					ln = st.Val
				}
			}
		}
	}
	return
}

func lenOfBytes(v ssa.Value) ssa.Value {
	cl, ok := stripValue(v).(*ssa.Call)
	if !ok {
		return nil
	}
	bi, ok := cl.Call.Value.(*ssa.Builtin)
	if !ok || bi.Name() != "len" {
		return nil
	}
	return cl.Call.Args[0]
}

func runBuildLayout(c *Ctx, r *RuleRun) {
	p := c.P
	build := p.Fn("table", "", "Build")
	if build == nil {
		r.Undecided("-", "table.Build", "", "anchor not found")
		return
	}
	fn := p.FnName(build)
	// the writes into the output buffer, with the encoder that produced their bytes
	type write struct {
		call  *ssa.Call
		bytes ssa.Value
		typ   string
	}
	var writes []write
	encOf := func(v ssa.Value) (string, *ssa.Call) {
		ex, ok := p.passThrough(v).(*ssa.Extract)
		if !ok || ex.Index != 0 {
			return "", nil
		}
		cl, ok := ex.Tuple.(*ssa.Call)
		if !ok {
			return "", nil
		}
		g := cl.Call.StaticCallee()
		if g == nil || g.Name() != "Encode" || g.Signature.Recv() == nil {
			return "", nil
		}
		if n := p.isModuleNamed(g.Signature.Recv().Type()); n != nil {
			return n.Obj().Name(), cl
		}
		return "", nil
	}
	encCalls := map[string]*ssa.Call{}
	eachInstr(build, func(ins ssa.Instruction) {
		cl, ok := ins.(*ssa.Call)
		if !ok {
			return
		}
		if data := bufferWriteArg(p, build, cl); data != nil {
			typ, enc := encOf(data)
			writes = append(writes, write{cl, data, typ})
			if enc != nil {
				encCalls[typ] = enc
			}
		}
		if g := cl.Call.StaticCallee(); g != nil && g.Name() == "Encode" && g.Signature.Recv() != nil {
			if n := p.isModuleNamed(g.Signature.Recv().Type()); n != nil {
				if _, have := encCalls[n.Obj().Name()]; !have {
					encCalls[n.Obj().Name()] = cl
				}
			}
		}
	})
	byTyp := map[string]*write{}
	for i := range writes {
		byTyp[writes[i].typ] = &writes[i]
	}
	// 1. every section that is encoded is written, in the order data, meta, index, footer
	order := []string{"Data", "Meta", "Index", "Footer"}
	okOrder := true
	for i, t := range order {
		w := byTyp[t]
		if w == nil {
			okOrder = false
			r.Viol(fn, t+" section written", p.Pos(build.Pos()), "the encoded "+t+" section is never written into the table image: every offset recorded after it points at the wrong bytes")
			continue
		}
		r.Hold(fn, t+" section written", p.Pos(instrPos(w.call)), "buf.Write("+t+".Encode())")
		if i > 0 && byTyp[order[i-1]] != nil {
			prev := byTyp[order[i-1]]
			if !(dominatesInstr(prev.call, w.call) || (inLoop(prev.call.Block()) && !inLoop(w.call.Block()) && prev.call.Block().Parent() == w.call.Block().Parent() && reaches(prev.call.Block(), w.call.Block()))) {
				okOrder = false
			}
		}
	}
	r.Check(okOrder, fn, "sections in order", p.Pos(build.Pos()), "data blocks, meta, index, footer", "the sections are not written in the order data blocks, meta block, index block, footer")
	// 2. the running data length: the loop-carried value that LOOKUP.INDEXKEYS checks (offset += len(block))
	var total *ssa.Phi
	if w := byTyp["Data"]; w != nil {
		for _, lp := range naturalLoops(build) {
			if !lp.body[w.call.Block()] {
				continue
			}
			for _, ins := range lp.header.Instrs {
				ph, ok := ins.(*ssa.Phi)
				if !ok {
					continue
				}
				if bt, ok := ph.Type().Underlying().(*types.Basic); ok && bt.Kind() == types.Uint64 {
					total = ph
				}
			}
		}
	}
	if total == nil {
		r.Undecided(fn, "total data length", p.Pos(build.Pos()), "no running uint64 offset in the data-block loop")
		return
	}
	// 3. Index.DataBlock = {0, total}, stored before the index is encoded
	dbF := p.Field("table", "Index", "DataBlock")
	metaF, idxF := p.Field("table", "Footer", "MetaBlock"), p.Field("table", "Footer", "IndexBlock")
	var metaOff, metaLen, idxOff, idxLen ssa.Value
	seenDB := false
	eachInstr(build, func(ins ssa.Instruction) {
		st, ok := ins.(*ssa.Store)
		if !ok {
			return
		}
		fv, _ := fieldOfAddr(st.Addr)
		switch fv {
		case dbF:
			seenDB = true
			off, ln := handleLit(p, st.Val)
			k, isK := int64(-1), false
			if off != nil {
				k, isK = constInt(off)
			}
			before := encCalls["Index"] != nil && dominatesInstr(st, encCalls["Index"])
			r.Check(isK && k == 0 && ln == ssa.Value(total) && before, fn, "Index.DataBlock = all data blocks", p.Pos(instrPos(st)), "{Offset: 0, Length: total data length}, set before the index is encoded",
				"Index.DataBlock is not {0, total length of the data blocks} (or is set after the index was encoded): compaction and recovery, which read the table through this handle, see no or wrong data")
		case metaF:
			metaOff, metaLen = handleLit(p, st.Val)
		case idxF:
			idxOff, idxLen = handleLit(p, st.Val)
		}
	})
	if !seenDB {
		r.Viol(fn, "Index.DataBlock = all data blocks", p.Pos(build.Pos()), "Index.DataBlock is never set: compaction and recovery read zero bytes of every table")
	}
	// 4. footer handles
	if w := byTyp["Meta"]; w != nil {
		r.Check(metaOff == ssa.Value(total) && metaLen != nil && lenOfBytes(metaLen) == w.bytes, fn, "Footer.MetaBlock", p.Pos(instrPos(w.call)), "{total data length, len(meta bytes written)}",
			"Footer.MetaBlock is not {total data length, length of the meta bytes that are written}")
	}
	if w := byTyp["Index"]; w != nil {
		okOff := false
		if bo, ok := stripValue(idxOff).(*ssa.BinOp); ok && bo.Op == token.ADD && metaOff != nil && metaLen != nil {
			okOff = (bo.X == metaOff && bo.Y == metaLen) || (bo.Y == metaOff && bo.X == metaLen)
		}
		r.Check(okOff && idxLen != nil && lenOfBytes(idxLen) == w.bytes, fn, "Footer.IndexBlock", p.Pos(instrPos(w.call)), "{meta offset + meta length, len(index bytes written)}",
			"Footer.IndexBlock is not {meta offset + meta length, length of the index bytes that are written}: recovery decodes the index from the wrong place")
	}
}

func runBuildAllBlocks(c *Ctx, r *RuleRun) {
	p := c.P
	build := p.Fn("table", "", "Build")
	data := p.Named("table", "Data")
	entriesF := p.Field("table", "Data", "Entries")
	if build == nil || data == nil || entriesF == nil {
		r.Undecided("-", "table.Build", "", "anchor not found")
		return
	}
	fn := p.FnName(build)
	// the current block: a local Data cell that receives appends to its Entries in a loop
	var cell *ssa.Alloc
	// (the loop that cuts the entries into blocks may live in a helper of Build: the analysis runs where it is)
	top := build
	eachInstrOf(localFns(p, top), func(ins ssa.Instruction) {
		st, ok := ins.(*ssa.Store)
		if !ok || !inLoop(st.Block()) {
			return
		}
		if fv, base := fieldOfAddr(st.Addr); fv == entriesF {
			if al, ok := base.(*ssa.Alloc); ok {
				cell = al
				build = al.Parent()
			}
		}
	})
	if cell == nil {
		r.Undecided(fn, "current block", p.Pos(build.Pos()), "no local data block that is filled in a loop")
		return
	}
	isPush := func(ins ssa.Instruction) bool {
		cl, ok := ins.(*ssa.Call)
		if !ok {
			return false
		}
		bi, ok := cl.Call.Value.(*ssa.Builtin)
		if !ok || bi.Name() != "append" || len(cl.Call.Args) != 2 {
			return false
		}
		sl, ok := cl.Type().Underlying().(*types.Slice)
		if !ok || p.isModuleNamed(sl.Elem()) != data {
			return false
		}
		return derivesFrom(cl.Call.Args[1], func(x ssa.Value) bool { return x == ssa.Value(cell) })
	}
	// (a) resets
	n := 0
	eachInstr(build, func(ins ssa.Instruction) {
		st, ok := ins.(*ssa.Store)
		if !ok || st.Addr != ssa.Value(cell) {
			return
		}
		n++
		// from the previous point at which entries were added (or the loop start) to this reset, a push happens
		pushed := false
		for _, i2 := range st.Block().Instrs {
			if i2 == ssa.Instruction(st) {
				break
			}
			if isPush(i2) {
				pushed = true
			}
		}
		if !pushed {
			for b := st.Block().Idom(); b != nil && !pushed; b = b.Idom() {
				for _, i2 := range b.Instrs {
					if isPush(i2) && dominatesInstr(i2, st) {
						// no fill of the cell between the push and the reset
						pushed = true
					}
				}
				if inLoop(b) && b.Dominates(st.Block()) && len(b.Preds) > 1 {
					break
				}
			}
		}
		r.Check(pushed, fn, "block reset only after it was kept", p.Pos(instrPos(st)), "append(blocks, current) precedes the reset", "the current data block is reset without having been appended to the list of blocks: its entries are in no block of the table")
	})
	// (b) after the fill loop the last block is kept unless it is empty
	var fill *natLoop
	for _, lp := range naturalLoops(build) {
		lp := lp
		for b := range lp.body {
			for _, ins := range b.Instrs {
				if st, ok := ins.(*ssa.Store); ok {
					if fv, base := fieldOfAddr(st.Addr); fv == entriesF && base == ssa.Value(cell) {
						fill = &lp
					}
				}
			}
		}
	}
	if fill == nil || len(fill.header.Instrs) == 0 {
		r.Undecided(fn, "last block kept", p.Pos(build.Pos()), "fill loop not found")
		return
	}
	var exit *ssa.BasicBlock
	for _, s := range fill.header.Succs {
		if !fill.body[s] {
			exit = s
		}
	}
	// target: the first use of the block list after the fill loop (len / range over it)
	isUse := func(ins ssa.Instruction) bool {
		if _, isRet := ins.(*ssa.Return); isRet && build != top {
			return !fill.body[ins.Block()] // the helper hands the list of blocks back
		}
		cl, ok := ins.(*ssa.Call)
		if !ok || isPush(ins) {
			return false
		}
		if bi, ok := cl.Call.Value.(*ssa.Builtin); ok && bi.Name() == "len" {
			if sl, ok := cl.Call.Args[0].Type().Underlying().(*types.Slice); ok && p.isModuleNamed(sl.Elem()) == data {
				return !fill.body[cl.Block()]
			}
		}
		return false
	}
	q := PathQuery{P: p, Fn: build, Starts: []ssa.Instruction{fill.header.Instrs[len(fill.header.Instrs)-1]}, Avoid: isPush, Target: isUse,
		EdgeOK: func(bb *ssa.BasicBlock, i int) bool {
			if bb == fill.header {
				return bb.Succs[i] == exit
			}
			iff, ok := bb.Instrs[len(bb.Instrs)-1].(*ssa.If)
			if !ok {
				return true
			}
			cm := canonCond(iff.Cond, i == 0)
			if cm.Y == nil {
				return true
			}
			// the legitimate reason to skip the push: the block is empty
			x, y, op := stripValue(cm.X), stripValue(cm.Y), cm.Op
			if lb := lenOfBytes(y); lb != nil {
				x, y, op = y, x, flipCmp(op)
			}
			lb := lenOfBytes(x)
			if lb == nil {
				return true
			}
			if fv, base := loadedField(lb); fv != entriesF || base != ssa.Value(cell) {
				return true
			}
			k, isK := constInt(y)
			if isK && ((op == "<=" && k == 0) || (op == "==" && k == 0) || (op == "<" && k == 1)) {
				return false
			}
			return true
		}}
	w := q.FindPath()
	if w == nil {
		r.Hold(fn, "last block kept", p.Pos(instrPos(fill.header.Instrs[len(fill.header.Instrs)-1])), "after the loop the current block is appended unless it is empty")
	} else {
		r.Viol(fn, "last block kept", p.Pos(instrPos(fill.header.Instrs[len(fill.header.Instrs)-1])), "after the fill loop the list of blocks can be used without the current block having been appended although it may hold entries (the skip is not guarded by `it is empty`): the last entries of the table are lost", p.describePath(w)...)
	}
	if n == 0 {
		r.Hold(fn, "block reset only after it was kept", p.Pos(build.Pos()), "the current block is never reset")
	}
}

func runWalVersion(c *Ctx, r *RuleRun) {
	p := c.P
	parse := p.Fn("wal", "", "ParseVersion")
	cmp := p.Fn("wal", "", "CompareVersion")
	if parse == nil || cmp == nil {
		r.Undecided("-", "wal.ParseVersion / wal.CompareVersion", "", "anchors not found")
		return
	}
	// component k of a version: element k of strings.Split(<param>, "-")
	component := func(v ssa.Value) (param int, k int64, ok bool) {
		u, isU := stripValue(v).(*ssa.UnOp)
		if !isU || u.Op != token.MUL {
			return 0, 0, false
		}
		ia, isIA := u.X.(*ssa.IndexAddr)
		if !isIA {
			return 0, 0, false
		}
		kk, isK := constInt(ia.Index)
		cl, isC := ia.X.(*ssa.Call)
		if !isK || !isC {
			return 0, 0, false
		}
		obj := p.CalleeObj(cl)
		if obj == nil || !funcIs(obj, "strings", "", "Split") {
			return 0, 0, false
		}
		if sep, isS := constString(cl.Call.Args[1]); !isS || sep != "-" {
			return 0, 0, false
		}
		src := cl.Call.Args[0]
		// through TrimSuffix
		if c2, isC2 := src.(*ssa.Call); isC2 {
			if o2 := p.CalleeObj(c2); o2 != nil && funcIs(o2, "strings", "", "TrimSuffix") {
				src = c2.Call.Args[0]
			}
		}
		pr, isP := src.(*ssa.Parameter)
		if !isP {
			return 0, 0, false
		}
		for i, q := range pr.Parent().Params {
			if q == pr {
				return i, kk, true
			}
		}
		return 0, 0, false
	}
	// ParseVersion: Sprintf("%s-%s", parts[1], parts[2])
	{
		fn := p.FnName(parse)
		found := false
		eachInstr(parse, func(ins ssa.Instruction) {
			cl, ok := ins.(*ssa.Call)
			if !ok {
				return
			}
			obj := p.CalleeObj(cl)
			if obj == nil || !funcIs(obj, "fmt", "", "Sprintf") {
				return
			}
			found = true
			format, _ := constString(cl.Call.Args[0])
			var ks []int64
			if sl, ok := cl.Call.Args[1].(*ssa.Slice); ok {
				if al, ok := sl.X.(*ssa.Alloc); ok {
					type kv struct {
						slot, k int64
					}
					var got []kv
					for _, ref := range *al.Referrers() {
						ia, ok := ref.(*ssa.IndexAddr)
						if !ok {
							continue
						}
						slot, _ := constInt(ia.Index)
						for _, r2 := range *ia.Referrers() {
							if st, ok := r2.(*ssa.Store); ok {
								v := st.Val
								if mi, ok := v.(*ssa.MakeInterface); ok {
									v = mi.X
								}
								if _, k, ok := component(v); ok {
									got = append(got, kv{slot, k})
								}
							}
						}
					}
					for want := int64(0); want < int64(len(got)); want++ {
						for _, g := range got {
							if g.slot == want {
								ks = append(ks, g.k)
							}
						}
					}
				}
			}
			r.Check(format == "%s-%s" && len(ks) == 2 && ks[0] == 1 && ks[1] == 2, fn, "version = components 1 and 2 of the file name", p.Pos(instrPos(cl)), "Sprintf(\"%s-%s\", parts[1], parts[2]) of wal-<date>-<nanos>.log",
				"ParseVersion does not rebuild the version from components 1 and 2 of `wal-<date>-<nanoseconds>.log`: versions parsed from file names do not compare with the current wal's version as Create wrote them, and recovery selects the wrong files")
		})
		if !found {
			// written as a concatenation: parts[1] + "-" + parts[2]
			eachInstr(parse, func(ins ssa.Instruction) {
				ret, ok := ins.(*ssa.Return)
				if !ok || len(ret.Results) != 1 {
					return
				}
				var flat func(v ssa.Value) []ssa.Value
				flat = func(v ssa.Value) []ssa.Value {
					if bo, ok := v.(*ssa.BinOp); ok && bo.Op == token.ADD {
						return append(flat(bo.X), flat(bo.Y)...)
					}
					return []ssa.Value{v}
				}
				parts := flat(retOperand(ret, 0))
				if len(parts) < 2 {
					return
				}
				found = true
				good := len(parts) == 3
				if good {
					_, k0, ok0 := component(parts[0])
					sep, okS := constString(parts[1])
					_, k2, ok2 := component(parts[2])
					good = ok0 && ok2 && okS && k0 == 1 && k2 == 2 && sep == "-"
				}
				r.Check(good, fn, "version = components 1 and 2 of the file name", p.Pos(instrPos(ret)), "parts[1] + \"-\" + parts[2] of wal-<date>-<nanos>.log",
					"ParseVersion does not rebuild the version from components 1 and 2 of `wal-<date>-<nanoseconds>.log`: versions parsed from file names do not compare with the current wal's version as Create wrote them, and recovery selects the wrong files")
			})
		}
		if !found {
			r.Undecided(fn, "version = components 1 and 2 of the file name", p.Pos(parse.Pos()), "no Sprintf found")
		}
	}
	// CompareVersion
	fn := p.FnName(cmp)
	type cfact struct {
		k  int64
		op string
	}
	factsOf := func(ins ssa.Instruction) []cfact {
		var out []cfact
		for _, cm := range factsAt(ins) {
			if cm.Y == nil {
				continue
			}
			x, y := cm.X, cm.Y
			// strings.Compare(a, b) op 0 says a op b
			if a, b, isCmp := stringsCompare(x); isCmp {
				if k, isK := constInt(y); isK && k == 0 {
					x, y = a, b
				}
			}
			p1, k1, ok1 := component(x)
			p2, k2, ok2 := component(y)
			if !ok1 || !ok2 || k1 != k2 || p1 == p2 {
				continue
			}
			op := cm.Op
			if p1 > p2 {
				op = flipCmp(op)
			}
			out = append(out, cfact{k1, op})
		}
		return out
	}
	n := 0
	eachInstr(cmp, func(ins ssa.Instruction) {
		ret, ok := ins.(*ssa.Return)
		if !ok || len(ret.Results) != 1 {
			return
		}
		k, isK := constInt(retOperand(ret, 0))
		// `return strings.Compare(parts1[i], parts2[i])` answers -1, 0 or 1 as component i is smaller, equal or larger:
		// each outcome that is still possible here is judged like a constant answer
		var cmpK int64 = -1
		if !isK {
			a, b, isCmp := stringsCompare(retOperand(ret, 0))
			p1, k1, ok1 := component(a)
			p2, k2, ok2 := component(b)
			if !isCmp || !ok1 || !ok2 || k1 != k2 || p1 >= p2 {
				r.Undecided(fn, "answer", p.Pos(instrPos(ret)), "non-constant result")
				return
			}
			cmpK = k1
		}
		// what is known about each component at this return: a subset of {<, =, >}
		rel := map[int64]map[string]bool{0: {"<": true, "=": true, ">": true}, 1: {"<": true, "=": true, ">": true}}
		allow := map[string][]string{"<": {"<"}, "<=": {"<", "="}, "==": {"="}, "!=": {"<", ">"}, ">=": {"=", ">"}, ">": {">"}}
		for _, f := range factsOf(ret) {
			cur := rel[f.k]
			if cur == nil {
				continue
			}
			next := map[string]bool{}
			for _, a := range allow[f.op] {
				if cur[a] {
					next[a] = true
				}
			}
			rel[f.k] = next
		}
		only := func(kk int64, what string) bool { return len(rel[kk]) == 1 && rel[kk][what] }
		if cmpK >= 0 {
			possible := rel[cmpK]
			for _, o := range []struct {
				rel string
				ans int64
			}{{"<", -1}, {"=", 0}, {">", 1}} {
				if !possible[o.rel] {
					continue
				}
				n++
				rel[cmpK] = map[string]bool{o.rel: true}
				switch {
				case o.ans < 0:
					r.Check(only(0, "<") || (only(0, "=") && only(1, "<")), fn, "-1 only when smaller", p.Pos(instrPos(ret)), "first component smaller, or equal and second smaller",
						"a negative answer is given although the first version is not known to be smaller (component by component): recovery takes newer logs for older ones or skips older ones")
				case o.ans > 0:
					r.Check(only(0, ">") || (only(0, "=") && only(1, ">")), fn, "1 only when larger", p.Pos(instrPos(ret)), "first component larger, or equal and second larger",
						"a positive answer is given although the first version is not known to be larger")
				default:
					r.Check(only(0, "=") && only(1, "="), fn, "0 only when equal", p.Pos(instrPos(ret)), "both components neither smaller nor larger",
						"equality is answered although a component differs: an older wal compares equal to the current one and is not replayed")
				}
			}
			return
		}
		n++
		switch {
		case k < 0:
			r.Check(only(0, "<") || (only(0, "=") && only(1, "<")), fn, "-1 only when smaller", p.Pos(instrPos(ret)), "first component smaller, or equal and second smaller",
				"a negative answer is given although the first version is not known to be smaller (component by component): recovery takes newer logs for older ones or skips older ones")
		case k > 0:
			r.Check(only(0, ">") || (only(0, "=") && only(1, ">")), fn, "1 only when larger", p.Pos(instrPos(ret)), "first component larger, or equal and second larger",
				"a positive answer is given although the first version is not known to be larger")
		default:
			r.Check(only(0, "=") && only(1, "="), fn, "0 only when equal", p.Pos(instrPos(ret)), "both components neither smaller nor larger",
				"equality is answered although a component differs: an older wal compares equal to the current one and is not replayed")
		}
	})
	if n < 3 {
		r.Undecided(fn, "answers", p.Pos(cmp.Pos()), "fewer than three constant answers (-1, 0, 1)")
	}
}

func init() {
	register(&Rule{ID: "SKIP.UNLINK", Engine: "E-GUARD", Min: 2,
		Desc: "Delete unlinks exactly the element it found: a predecessor's forward pointer is redirected only where it points at that element, and it is redirected to the element's own successor at that level",
		Run:  runSkipUnlink})
}

func runSkipUnlink(c *Ctx, r *RuleRun) {
	p := c.P
	del := p.Fn("pkg/skiplist", "SkipList", "Delete")
	nextF := p.Field("pkg/skiplist", "Element", "next")
	if del == nil || nextF == nil {
		r.Undecided("-", "SkipList.Delete", "", "anchor not found")
		return
	}
	fn := p.FnName(del)
	o := nfOpts{p: p, depth: 8}
	n := 0
	eachInstr(del, func(ins ssa.Instruction) {
		st, ok := ins.(*ssa.Store)
		if !ok || !inLoop(st.Block()) {
			return
		}
		ia, ok := st.Addr.(*ssa.IndexAddr)
		if !ok {
			return
		}
		if fv, _ := loadedField(ia.X); fv != nextF {
			return
		}
		// a store into some element's next[i]; only those guarded by a comparison with the found element matter
		n++
		addrNF := o.nf(st.Addr)
		var found ssa.Value
		okGuard := hasFact(st, func(cm Cmp) bool {
			if cm.Y == nil || cm.Op != "==" {
				return false
			}
			for _, pair := range [][2]ssa.Value{{cm.X, cm.Y}, {cm.Y, cm.X}} {
				if u, ok := pair[0].(*ssa.UnOp); ok && u.Op == token.MUL && o.nf(u.X) == addrNF {
					found = pair[1]
					return true
				}
			}
			return false
		})
		r.Check(okGuard, fn, "redirected only where it points at the found element", p.Pos(instrPos(st)), "dominated by pred.next[i] == found",
			"a predecessor's forward pointer is overwritten without the test that it points at the element being deleted (or under its negation): other elements are cut out of the list, or the element stays linked")
		if !okGuard || found == nil {
			return
		}
		// the new target: found.next[i] with the same i
		okVal := false
		if u, ok := st.Val.(*ssa.UnOp); ok && u.Op == token.MUL {
			if ia2, ok := u.X.(*ssa.IndexAddr); ok && ia2.Index == ia.Index {
				if fv, base := loadedField(ia2.X); fv == nextF && stripValue(base) == stripValue(found) {
					okVal = true
				}
			}
		}
		r.Check(okVal, fn, "redirected to the element's successor", p.Pos(instrPos(st)), "pred.next[i] = found.next[i]", "the forward pointer is not redirected to the deleted element's own successor at that level: the rest of the list is lost or a cycle is created")
	})
	if n == 0 {
		r.Undecided(fn, "redirected only where it points at the found element", "", "no store to a forward pointer in a loop of Delete")
	}
}

// stringsCompare: v is a call strings.Compare(a, b) (or cmp.Compare on strings).
func stringsCompare(v ssa.Value) (a, b ssa.Value, ok bool) {
	cl, isCall := v.(*ssa.Call)
	if !isCall || len(cl.Call.Args) != 2 {
		return nil, nil, false
	}
	f := cl.Call.StaticCallee()
	if f == nil || f.Pkg == nil {
		if f == nil || f.Origin() == nil || f.Origin().Pkg == nil {
			return nil, nil, false
		}
		f = f.Origin()
	}
	if !isStringType(cl.Call.Args[0].Type()) {
		return nil, nil, false
	}
	switch f.Pkg.Pkg.Path() + "." + f.Name() {
	case "strings.Compare", "cmp.Compare":
		return cl.Call.Args[0], cl.Call.Args[1], true
	}
	return nil, nil, false
}

// bufferWriteArg: the []byte the call writes into a bytes.Buffer - (*bytes.Buffer).Write itself, or a helper of the
// package that writes its []byte parameter into its *bytes.Buffer parameter on every path; nil otherwise.
func bufferWriteArg(p *Prog, in *ssa.Function, cl *ssa.Call) ssa.Value {
	if obj := p.CalleeObj(cl); obj != nil && funcIs(obj, "bytes", "Buffer", "Write") {
		return cl.Call.Args[1]
	}
	g := cl.Call.StaticCallee()
	if g == nil || !p.InModule(g) || g.Pkg != in.Pkg || g.Name() == "Encode" {
		return nil
	}
	bi, di := -1, -1
	for i, pr := range g.Params {
		if pt, ok := pr.Type().Underlying().(*types.Pointer); ok {
			if n, ok := pt.Elem().(*types.Named); ok && n.Obj().Pkg() != nil && n.Obj().Pkg().Path() == "bytes" && n.Obj().Name() == "Buffer" {
				bi = i
			}
		}
		if sl, ok := pr.Type().Underlying().(*types.Slice); ok {
			if bt, ok := sl.Elem().Underlying().(*types.Basic); ok && bt.Kind() == types.Byte {
				di = i
			}
		}
	}
	// a closure of the function that writes into the buffer it captured: mustWrite := func(p []byte) { buf.Write(p) … }
	var captured ssa.Value
	if bi < 0 && g.Parent() == in {
		for _, fv := range g.FreeVars {
			t := fv.Type()
			for k := 0; k < 2; k++ {
				if pt, ok := t.Underlying().(*types.Pointer); ok {
					if n, ok := pt.Elem().(*types.Named); ok && n.Obj().Pkg() != nil && n.Obj().Pkg().Path() == "bytes" && n.Obj().Name() == "Buffer" {
						captured = fv
					}
					t = pt.Elem()
				}
			}
		}
	}
	if (bi < 0 && captured == nil) || di < 0 || di >= len(cl.Call.Args) {
		return nil
	}
	md := NewMustDo(p, func(i ssa.Instruction) bool {
		c2, ok := i.(*ssa.Call)
		if !ok {
			return false
		}
		o2 := p.CalleeObj(c2)
		if o2 == nil || !funcIs(o2, "bytes", "Buffer", "Write") || c2.Call.Args[1] != ssa.Value(g.Params[di]) {
			return false
		}
		if bi >= 0 {
			return c2.Call.Args[0] == ssa.Value(g.Params[bi])
		}
		dst := c2.Call.Args[0]
		if u, ok := dst.(*ssa.UnOp); ok && u.Op == token.MUL {
			dst = u.X
		}
		return dst == captured
	})
	if md.Func(g) {
		return cl.Call.Args[di]
	}
	return nil
}
