package main

// Rules added after the fifth round of seeded changes (feature- and optimisation-shaped changes: caches, knobs,
// fast paths, "graceful" error handling). DESIGN.md §9.

import (
	"go/token"
	"go/types"
	"strings"

	"golang.org/x/tools/go/ssa"
)

func init() {
	register(&Rule{ID: "TRACE.BUFMONO", Engine: "E-DEP", Min: 2,
		Desc: "between Begin and the end of a transaction its write buffer and fingerprints only grow and its finished-flags only go from false to true: nothing is deleted from pendingWrites/writesFp, and discarded/doneRead are never reset",
		Run:  runTraceBufMono})
	register(&Rule{ID: "TRACE.ACK", Engine: "E-PATH", Min: 3,
		Desc: "a write that is acknowledged is buffered: every nil return of Txn.Set/Delete/SetEntry is preceded on every path by an update of pendingWrites (so the misuse checks in front of that update cannot be bypassed by a fast path)",
		Run:  runTraceAck})
	register(&Rule{ID: "READ.SOURCES", Engine: "E-PATH", Min: 4,
		Desc: "reads are answered from the transaction's own buffer and the store's memtables and tables only: DB.search answers not-found only after every source was consulted, and what DB.search/Txn.Get return is derived from those lookups (no cache or other shared state in between)",
		Run:  runReadSources})
	register(&Rule{ID: "CONF.ONLYIF", Engine: "E-GUARD", Min: 2,
		Desc: "a commit is refused only because a key it read was overwritten: hasConflict answers true only on a fingerprint hit, and the committed-transaction list is shortened only by the watermark-driven clean-up",
		Run:  runConfOnlyIf})
	register(&Rule{ID: "LOOKUP.SKIP", Engine: "E-GUARD", Min: 3,
		Desc: "in the table walk of a lookup a table is passed over only for the reasons the lookup scheme knows - its filter denies the key, its index has no block for it, the block has no entry at or above it, the entry found belongs to another key; any other branch in that loop is undecided",
		Run:  runLookupSkip})
	register(&Rule{ID: "CMP.PIPE", Engine: "E-DEP", Min: 4,
		Desc: "a compaction builds its table and its filter from exactly what version discarding returned, and version discarding gets exactly what the merge returned: no further step in between drops or rewrites entries",
		Run:  runCmpPipe})
	register(&Rule{ID: "CODEC.KEYREBUILD", Engine: "E-DEP", Min: 1,
		Desc: "the block decoder rebuilds every key as prevKey[:lcp] + suffix, unconditionally",
		Run:  runCodecKeyRebuild})
	register(&Rule{ID: "POOL.PUTLAST", Engine: "E-PATH", Min: 1,
		Desc: "nothing touches a buffer after it was handed back to a sync.Pool: no use after Pool.Put on any path, and no deferred call that uses it",
		Run:  runPoolPutLast})
	register(&Rule{ID: "WM.RELEASE", Engine: "E-PATH", Min: 1,
		Desc: "whenever the watermark is stored, the waiter table is scanned before the next mark is taken (unless it is empty): no waiter at or below the new watermark stays blocked",
		Run:  runWmRelease})
	register(&Rule{ID: "CMP.VICTIM", Engine: "E-DEP", Min: 2,
		Desc: "inputs of a compaction are taken oldest first: a single source table is the Front() of its level, and input tables are unlinked/deleted walking from the front of the selection, never from Back()",
		Run:  runCmpVictim})
	register(&Rule{ID: "LIVE.CLOSECHAN", Engine: "E-PATH", Min: 1,
		Desc: "a consumer goroutine that stops closes the channel it consumed before it returns, so that a late sender fails at once instead of blocking forever",
		Run:  runLiveCloseChan})
	register(&Rule{ID: "SKIP.RANDLEVEL", Engine: "E-GUARD", Min: 1,
		Desc: "a new tower is never taller than maxLevel: every increment of the drawn level is dominated by level < maxLevel",
		Run:  runSkipRandLevel})
	register(&Rule{ID: "REG.PAIR", Engine: "E-SIB", Min: 0,
		Desc: "package-level registries are keyed consistently: what is removed from a package-level map/sync.Map is removed under the key expression it was inserted with",
		Run:  runRegPair})
}

// ---- TRACE.BUFMONO ----

func runTraceBufMono(c *Ctx, r *RuleRun) {
	a := c.Txn()
	if !a.ok(r) {
		return
	}
	p := c.P
	bad := 0
	for _, f := range p.Funcs {
		if f.Pkg != p.SSAPkg[p.ModPath] {
			continue
		}
		fn := p.FnName(f)
		eachInstr(f, func(ins ssa.Instruction) {
			switch x := ins.(type) {
			case *ssa.Call:
				bi, ok := x.Call.Value.(*ssa.Builtin)
				if !ok || (bi.Name() != "delete" && bi.Name() != "clear") {
					return
				}
				fv, _ := loadedField(x.Call.Args[0])
				if fv == a.fPending || fv == a.fWritesFp {
					bad++
					r.Viol(fn, "write buffer only grows", p.Pos(instrPos(x)), "an entry is removed from "+fv.Name()+" of a transaction: a buffered write (or its conflict fingerprint) is taken back instead of being superseded - a Delete after a Set leaves the committed value in place, readers of the key are no longer refused")
				}
			case *ssa.Store:
				fv, base := fieldOfAddr(x.Addr)
				if fv != a.fDiscarded && fv != a.fDoneRead {
					return
				}
				if _, fresh := base.(*ssa.Alloc); fresh {
					return
				}
				if isConstBool(x.Val, false) {
					bad++
					r.Viol(fn, "finished-flags only rise", p.Pos(instrPos(x)), "Txn."+fv.Name()+" is reset to false: a finished (refused, discarded) transaction is brought back to life with its old write buffer")
				}
			}
		})
	}
	if bad == 0 {
		r.Hold("Txn", "write buffer only grows", "", "no delete/clear on pendingWrites or writesFp")
		r.Hold("Txn", "finished-flags only rise", "", "discarded and doneRead are never stored false outside construction")
	}
}

// ---- TRACE.ACK ----

func runTraceAck(c *Ctx, r *RuleRun) {
	a := c.Txn()
	if !a.ok(r) {
		return
	}
	p := c.P
	isBuf := func(ins ssa.Instruction) bool {
		mu, ok := ins.(*ssa.MapUpdate)
		return ok && isLoadOfField(mu.Map, a.fPending)
	}
	// good(g): every nil return of g follows an update of the write buffer - directly, or because it passes on (or has
	// tested) the nil error of a call to another good function
	memo := map[*ssa.Function]int{}
	var witness []ssa.Instruction
	var good func(g *ssa.Function, depth int) bool
	good = func(g *ssa.Function, depth int) bool {
		if v, ok := memo[g]; ok {
			return v == 1
		}
		memo[g] = 2
		if depth > 3 || errResultIndex(g.Signature) < 0 {
			return false
		}
		ei := errResultIndex(g.Signature)
		all := true
		eachInstr(g, func(ins ssa.Instruction) {
			ret, ok := ins.(*ssa.Return)
			if !ok || !isSuccessReturn(ret) || ret.Block().Comment == "recover" {
				return
			}
			isEvent := func(i ssa.Instruction) bool {
				if isBuf(i) {
					return true
				}
				cl, ok := i.(*ssa.Call)
				if !ok {
					return false
				}
				h := cl.Call.StaticCallee()
				if h == nil || !p.InModule(h) || h == g || !good(h, depth+1) {
					return false
				}
				// the return passes this call's error on, or has seen it to be nil
				errv := ssa.Value(cl)
				if cl.Type() != nil {
					if tup, ok := cl.Type().(*types.Tuple); ok && tup.Len() > 1 {
						errv = extractOf(cl, tup.Len()-1)
					}
				}
				if ei < len(ret.Results) && retOperand(ret, ei) == errv {
					return true
				}
				return errv != nil && hasFact(ret, func(cm Cmp) bool {
					return cm.Y != nil && cm.Op == "==" && ((cm.X == errv && isNilConst(cm.Y)) || (cm.Y == errv && isNilConst(cm.X)))
				})
			}
			q := PathQuery{P: p, Fn: g, Avoid: isEvent, Target: func(i ssa.Instruction) bool { return i == ssa.Instruction(ret) }, SuccessOnly: true}
			if w := q.FindPath(); w != nil {
				all = false
				if witness == nil {
					witness = w
				}
			}
		})
		if all {
			memo[g] = 1
		}
		return all
	}
	for _, name := range []string{"Set", "Delete", "SetEntry"} {
		f := p.Fn("", "Txn", name)
		if f == nil {
			r.Undecided("-", "Txn."+name, "", "anchor not found")
			continue
		}
		witness = nil
		memo = map[*ssa.Function]int{}
		if good(f, 0) {
			r.Hold(p.FnName(f), "acknowledged write is buffered", p.Pos(f.Pos()), "every nil return follows an update of the write buffer")
		} else {
			pos := f.Pos()
			if len(witness) > 0 {
				pos = instrPos(witness[len(witness)-1])
			}
			r.Viol(p.FnName(f), "acknowledged write is buffered", p.Pos(pos), "a write can be acknowledged (nil) without having been put into the write buffer - and therefore without having passed the read-only / finished / empty-key checks in front of it", p.describePath(witness)...)
		}
	}
}

// ---- READ.SOURCES ----

func runReadSources(c *Ctx, r *RuleRun) {
	a := c.Txn()
	if !a.ok(r) {
		return
	}
	p := c.P
	search := p.FnOr("", "DB", "search")
	slb := p.FnOr("", "levelManager", "searchLowerBound")
	if search == nil || slb == nil {
		r.Undecided("-", "DB.search / levelManager.searchLowerBound", "", "anchors not found")
		return
	}
	fn := p.FnName(search)
	// 1. not-found only after the last source
	isTables := func(ins ssa.Instruction) bool {
		cl, ok := ins.(*ssa.Call)
		return ok && cl.Call.StaticCallee() == slb
	}
	isMem := func(ins ssa.Instruction) bool {
		cl, ok := ins.(*ssa.Call)
		if !ok {
			return false
		}
		g := cl.Call.StaticCallee()
		return g != nil && isEntryLookup(p, g) && g != slb
	}
	n := 0
	for _, rc := range returnCases(search) {
		rc := rc
		ret := rc.Ret
		if len(rc.Vals) != 2 || !isConstBool(rc.Vals[1], false) || (rc.At != ssa.Instruction(ret) && rc.Zero == nil) {
			continue
		}
		n++
		for _, src := range []struct {
			pred InstrPred
			what string
		}{{isMem, "the memtables"}, {isTables, "the tables"}} {
			src := src
			avoid := src.pred
			if rc.Zero != nil {
				// the answer of a named result that was never assigned: the ways to the return that pass no assignment
				avoid = func(i ssa.Instruction) bool {
					if st, ok := i.(*ssa.Store); ok && st.Addr == ssa.Value(rc.Zero) {
						return true
					}
					return src.pred(i)
				}
			}
			q := PathQuery{P: p, Fn: search, Avoid: avoid, Target: func(i ssa.Instruction) bool { return i == ssa.Instruction(ret) }}
			w := q.FindPath()
			if w == nil {
				r.Hold(fn, "not found only after "+src.what, p.Pos(instrPos(ret)), "every path to this answer consulted "+src.what)
			} else {
				r.Viol(fn, "not found only after "+src.what, p.Pos(instrPos(ret)), "not-found can be answered without having consulted "+src.what+" (e.g. from a negative cache): a key committed after that state was recorded reads as absent", p.describePath(w)...)
			}
		}
	}
	if n == 0 {
		r.Undecided(fn, "not found only after the tables", "", "no not-found return")
	}
	// 2. what is returned comes from the lookups
	allowed := func(g *ssa.Function) func(v ssa.Value) string {
		var check func(v ssa.Value, depth int) string
		check = func(v ssa.Value, depth int) string {
			v = stripValue(v)
			if depth > 8 {
				return ""
			}
			switch x := v.(type) {
			case *ssa.Const:
				return ""
			case *ssa.Extract:
				return check(x.Tuple, depth+1)
			case *ssa.Phi:
				for _, e := range x.Edges {
					if s := check(e, depth+1); s != "" {
						return s
					}
				}
				return ""
			case *ssa.UnOp:
				if x.Op == token.MUL {
					if al, ok := x.X.(*ssa.Alloc); ok {
						for _, ref := range *al.Referrers() {
							if st, ok := ref.(*ssa.Store); ok && st.Addr == ssa.Value(al) {
								if s := check(st.Val, depth+1); s != "" {
									return s
								}
							}
						}
						return ""
					}
					return check(x.X, depth+1)
				}
			case *ssa.FieldAddr:
				return check(x.X, depth+1)
			case *ssa.Field:
				return check(x.X, depth+1)
			case *ssa.Lookup:
				if fv, _ := loadedField(x.X); fv == a.fPending {
					return ""
				}
				return "a lookup in another map"
			case *ssa.Call:
				h := x.Call.StaticCallee()
				switch {
				case h != nil && (h == search || isEntryLookup(p, h)):
					return ""
				case h != nil && p.InModule(h) && h.Pkg != nil && strings.HasSuffix(h.Pkg.Pkg.Path(), "/types"):
					// types.Value(entry) and friends: their argument must come from a lookup
					for _, arg := range x.Call.Args {
						if s := check(arg, depth+1); s != "" {
							return s
						}
					}
					return ""
				case x.Call.IsInvoke():
					return "the result of " + x.Call.Method.Name()
				case h != nil && h.Pkg == g.Pkg && len(h.Blocks) > 0 && depth < 6:
					// a helper of the package that shapes the answer: what it returns must itself be derived from
					// lookups or from its parameters, and what it is handed must be
					for _, b := range h.Blocks {
						ret, ok := b.Instrs[len(b.Instrs)-1].(*ssa.Return)
						if !ok || b == h.Recover {
							continue
						}
						for _, rv := range ret.Results {
							if s := check(rv, depth+2); s != "" {
								return s
							}
						}
					}
					for _, arg := range x.Call.Args {
						if s := check(arg, depth+1); s != "" {
							return s
						}
					}
					return ""
				default:
					if obj := p.CalleeObj(x); obj != nil {
						return "the result of " + obj.Name()
					}
				}
				return "a call result"
			case *ssa.TypeAssert:
				return check(x.X, depth+1)
			case *ssa.Parameter:
				return ""
			}
			return ""
		}
		return func(v ssa.Value) string { return check(v, 0) }
	}
	for _, g := range []*ssa.Function{search, a.get} {
		chk := allowed(g)
		eachInstr(g, func(ins ssa.Instruction) {
			ret, ok := ins.(*ssa.Return)
			if !ok || len(ret.Results) != 2 || ret.Block().Comment == "recover" {
				return
			}
			why := chk(retOperand(ret, 0))
			if why == "" {
				why = chk(retOperand(ret, 1))
			}
			r.Check(why == "", p.FnName(g), "answer comes from the sources", p.Pos(instrPos(ret)), "derived from the own buffer or a memtable/table lookup", "the value answered is "+why+", not the result of looking the key up in the transaction's buffer, the memtables or the tables: a cache or other shared state answers reads")
		})
	}
}

// ---- CONF.ONLYIF ----

func runConfOnlyIf(c *Ctx, r *RuleRun) {
	a := c.Txn()
	if !a.ok(r) {
		return
	}
	p := c.P
	f := a.hasConflict
	fn := p.FnName(f)
	n := 0
	// a hit: the comma-ok result of a map lookup is true, or a helper that itself answers true only behind a hit does
	type verdict struct{ ok, any bool }
	memo := map[*ssa.Function]*verdict{}
	var analyse func(g *ssa.Function, depth int, report bool) verdict
	var isHit func(depth int) func(cm Cmp) bool
	isHit = func(depth int) func(cm Cmp) bool {
		return func(cm Cmp) bool {
			if cm.Y != nil || cm.Op != "true" {
				return false
			}
			if call, isCall := cm.X.(*ssa.Call); isCall && depth < 3 {
				cs := p.Callees(call)
				if len(cs) == 0 {
					return false
				}
				for _, h := range cs {
					if h.Pkg != f.Pkg || !resultIs(h, types.Bool) {
						return false
					}
					if v := analyse(h, depth+1, false); !v.ok || !v.any {
						return false
					}
				}
				return true
			}
			ex, ok := cm.X.(*ssa.Extract)
			if !ok || ex.Index != 1 {
				return false
			}
			lk, ok := ex.Tuple.(*ssa.Lookup)
			if !ok {
				return false
			}
			_, isMap := lk.X.Type().Underlying().(*types.Map)
			return isMap
		}
	}
	analyse = func(g *ssa.Function, depth int, report bool) verdict {
		if v, ok := memo[g]; ok && !report {
			return *v
		}
		res := &verdict{ok: true}
		memo[g] = &verdict{} // recursion: not a hit
		gn := p.FnName(g)
		hitFact := isHit(depth)
		eachInstr(g, func(ins ssa.Instruction) {
			ret, ok := ins.(*ssa.Return)
			if !ok || len(ret.Results) != 1 {
				return
			}
			// a result variable: every way it becomes true lies behind a fingerprint hit
			if ph, isPhi := retOperand(ret, 0).(*ssa.Phi); isPhi {
				seen := map[*ssa.Phi]bool{}
				var walk func(q *ssa.Phi) (ok, any, unknown bool)
				walk = func(q *ssa.Phi) (bool, bool, bool) {
					okAll, any, unknown := true, false, false
					if seen[q] {
						return true, false, false
					}
					seen[q] = true
					for i, e := range q.Edges {
						pred := q.Block().Preds[i]
						switch {
						case isConstBool(e, false):
						case isConstBool(e, true):
							any = true
							if len(pred.Instrs) == 0 || !hasFact(pred.Instrs[len(pred.Instrs)-1], hitFact) {
								okAll = false
							}
						default:
							if q2, isPhi2 := e.(*ssa.Phi); isPhi2 {
								o2, a2, u2 := walk(q2)
								okAll = okAll && o2
								any = any || a2
								unknown = unknown || u2
							} else if hitFact(Cmp{Op: "true", X: e}) {
								// `_, conflict = writesFp[fp]`: the result is the hit itself
								any = true
							} else {
								unknown = true
							}
						}
					}
					return okAll, any, unknown
				}
				okAll, any, unknown := walk(ph)
				if unknown {
					res.ok = false
				}
				if any && !unknown {
					res.any = true
					res.ok = res.ok && okAll
					if report {
						n++
						r.Check(okAll, gn, "refusal only on a fingerprint hit", p.Pos(instrPos(ret)), "the result becomes true only behind a successful lookup of a read fingerprint in a committed write set", "a conflict is reported without a read fingerprint having been found in a committed write set: transactions are refused although nothing they read was overwritten")
					}
				}
				return
			}
			if isConstBool(retOperand(ret, 0), false) {
				return
			}
			if !isConstBool(retOperand(ret, 0), true) {
				// the answer of a helper handed on: fine when the helper answers true only behind a hit
				if call, isCall := retOperand(ret, 0).(*ssa.Call); isCall && hitFact(Cmp{Op: "true", X: call}) {
					res.any = true
					if report {
						n++
						r.Hold(gn, "refusal only on a fingerprint hit", p.Pos(instrPos(ret)), "hands on the answer of a helper that is true only behind a fingerprint hit")
					}
					return
				}
				res.ok = false
				return
			}
			res.any = true
			hit := hasFact(ret, hitFact)
			res.ok = res.ok && hit
			if report {
				n++
				r.Check(hit, gn, "refusal only on a fingerprint hit", p.Pos(instrPos(ret)), "dominated by a successful lookup of a read fingerprint in a committed write set", "a conflict is reported without a read fingerprint having been found in a committed write set: transactions are refused although nothing they read was overwritten")
			}
		})
		memo[g] = res
		return *res
	}
	analyse(f, 0, true)
	if n == 0 {
		r.Undecided(fn, "refusal only on a fingerprint hit", "", "no `return true`")
	}
	// the history is shortened by the clean-up only
	m := 0
	for _, g := range p.Funcs {
		if g.Pkg != p.SSAPkg[p.ModPath] || g == a.cleanUp {
			continue
		}
		for _, st := range storesToField(g, a.fCommitted) {
			if _, fresh := func() (ssa.Value, bool) { _, b := fieldOfAddr(st.Addr); al, ok := b.(*ssa.Alloc); return al, ok }(); fresh {
				continue
			}
			m++
			good := false
			if cl, ok := st.Val.(*ssa.Call); ok {
				if bi, ok := cl.Call.Value.(*ssa.Builtin); ok && bi.Name() == "append" && isLoadOfField(cl.Call.Args[0], a.fCommitted) {
					good = true
				}
			}
			r.Check(good, p.FnName(g), "history only appended to outside the clean-up", p.Pos(instrPos(st)), "committedTxns = append(committedTxns, record)", "the list of committed transactions is rewritten outside the watermark-driven clean-up: records that open snapshots still have to be checked against are dropped (missed conflicts) or conflicts are invented to make up for it")
		}
	}
	if m == 0 {
		r.Undecided("oracle", "history only appended to outside the clean-up", "", "no store to oracle.committedTxns outside the clean-up")
	}
}

// ---- LOOKUP.SKIP ----

func runLookupSkip(c *Ctx, r *RuleRun) {
	p := c.P
	a := getLookupAnchors(c)
	if len(a.problems) > 0 {
		for _, m := range a.problems {
			r.Undecided("-", "lookup path", "", m)
		}
		return
	}
	fn := p.FnName(a.slb)
	same := p.Fn("types", "", "IsSameKey")
	contains := p.Fn("pkg/filter", "Filter", "Contains")
	// the table walk: the innermost list walk loop containing the index search
	var walk *natLoop
	for _, lp := range naturalLoops(a.slb) {
		lp := lp
		if lp.body[a.idxCall.Block()] && (walk == nil || walk.body[lp.header]) {
			walk = &lp
		}
	}
	if walk == nil {
		r.Undecided(fn, "table walk", "", "no loop around the index search")
		return
	}
	tail := ssa.Value(a.dataCall)
	if a.helperCall != nil {
		tail = a.helperCall
	}
	n := 0
	for b := range walk.body {
		if b == walk.header || len(b.Instrs) == 0 {
			continue
		}
		iff, ok := b.Instrs[len(b.Instrs)-1].(*ssa.If)
		if !ok {
			continue
		}
		n++
		cond := iff.Cond
		if u, ok := cond.(*ssa.UnOp); ok && u.Op == token.NOT {
			cond = u.X
		}
		kind := ""
		switch x := cond.(type) {
		case *ssa.Call:
			switch x.Call.StaticCallee() {
			case contains:
				if contains != nil {
					kind = "filter"
				}
			case same:
				if same != nil {
					kind = "same key"
				}
			}
		case *ssa.Extract:
			if x.Index == 1 && x.Tuple == ssa.Value(a.idxCall) {
				kind = "index has a block"
			}
			if x.Index == 1 && x.Tuple == tail {
				kind = "block has an entry"
			}
		}
		if kind == "" {
			r.Undecided(fn, "reason to pass over a table", p.Pos(instrPos(iff)), "the table walk branches on a condition that is none of: filter answer, index search found a block, block search found an entry, same user key. Whether a table may be passed over (or accepted) on it cannot be decided here")
		} else {
			r.Hold(fn, "reason to pass over a table", p.Pos(instrPos(iff)), kind)
		}
	}
	if n == 0 {
		r.Undecided(fn, "reason to pass over a table", "", "no branch in the table walk")
	}
	// the block searched is the block fetched - on every path (no cache in between)
	if al, ok := a.dataCall.Call.Args[0].(*ssa.Alloc); ok {
		okAll := true
		for _, ref := range *al.Referrers() {
			if st, ok := ref.(*ssa.Store); ok && st.Addr == ssa.Value(al) && st.Val != ssa.Value(a.fetchCall) {
				okAll = false
			}
		}
		r.Check(okAll, p.FnName(a.dataFn), "searched block always freshly fetched", p.Pos(instrPos(a.dataCall)), "the only value ever searched is fetch's result", "the block that is searched can come from somewhere else than the fetch of this lookup (a cache keyed by level/number/offset): table numbers are reused after compactions and a stale block answers for a new table")
	}
}

// ---- CMP.PIPE ----

func runCmpPipe(c *Ctx, r *RuleRun) {
	p := c.P
	mv := p.Fn("pkg/kway", "", "MergeVersions")
	build := p.Fn("table", "", "Build")
	fbuild := p.Fn("pkg/filter", "", "Build")
	discard := p.FnOr("", "levelManager", "discardStaleEntries")
	if mv == nil || build == nil || fbuild == nil || discard == nil {
		r.Undecided("-", "MergeVersions / Build / discardStaleEntries", "", "anchors not found")
		return
	}
	for _, f := range compactors(c) {
		fn := p.FnName(f)
		merges, discards := callsTo(p, f, mv), callsTo(p, f, discard)
		if len(merges) != 1 || len(discards) != 1 {
			r.Undecided(fn, "merge → discard → build", p.Pos(f.Pos()), "expected one merge and one version-discarding call")
			continue
		}
		entriesArg := func(cl *ssa.Call) ssa.Value {
			for _, arg := range cl.Call.Args {
				if sl, ok := arg.Type().Underlying().(*types.Slice); ok && p.isModuleNamed(sl.Elem()) == p.Named("types", "Entry") {
					return arg
				}
			}
			return nil
		}
		r.Check(entriesArg(discards[0]) == ssa.Value(merges[0]), fn, "version discarding gets the merge result", p.Pos(instrPos(discards[0])), "discardStaleEntries(MergeVersions(…))", "version discarding does not get exactly what the merge returned")
		type buildSite struct {
			b   *ssa.Call
			arg ssa.Value // the entries handed to Build, as a value of the compactor
		}
		var sites []buildSite
		for _, b := range append(callsTo(p, f, build), callsTo(p, f, fbuild)...) {
			sites = append(sites, buildSite{b, entriesArg(b)})
		}
		// Build called in a helper that is handed the entries
		eachInstr(f, func(ins ssa.Instruction) {
			cl, ok := ins.(*ssa.Call)
			if !ok {
				return
			}
			g := cl.Call.StaticCallee()
			if g == nil || g.Pkg != f.Pkg || g == f || g == discard {
				return
			}
			for _, b := range append(callsTo(p, g, build), callsTo(p, g, fbuild)...) {
				var arg ssa.Value
				if pr, isParam := entriesArg(b).(*ssa.Parameter); isParam {
					for i, q := range g.Params {
						if q == pr && i < len(cl.Call.Args) {
							arg = cl.Call.Args[i]
						}
					}
				}
				sites = append(sites, buildSite{b, arg})
			}
		})
		for _, bs := range sites {
			b := bs.b
			what := "table"
			if b.Call.StaticCallee() == fbuild {
				what = "filter"
			}
			r.Check(bs.arg == ssa.Value(discards[0]), fn, what+" built from what version discarding returned", p.Pos(instrPos(b)), "Build(discardStaleEntries(…))",
				"the "+what+" is not built from exactly what version discarding returned: a further step in between (a cap on versions, a filter on entries) drops versions that reads above the watermark still need, or the table and its filter are built from different sets")
		}
	}
}

// ---- CODEC.KEYREBUILD ----

func runCodecKeyRebuild(c *Ctx, r *RuleRun) {
	p := c.P
	dec := p.Fn("table", "Data", "Decode")
	keyF := p.Field("types", "Entry", "Key")
	if dec == nil || keyF == nil {
		r.Undecided("-", "table.Data.Decode", "", "anchor not found")
		return
	}
	fn := p.FnName(dec)
	n := 0
	eachInstr(dec, func(ins ssa.Instruction) {
		st, ok := ins.(*ssa.Store)
		if !ok || !inLoop(st.Block()) {
			return
		}
		if fv, _ := fieldOfAddr(st.Addr); fv != keyF {
			return
		}
		n++
		good := false
		if bo, ok := st.Val.(*ssa.BinOp); ok && bo.Op == token.ADD {
			if sl, ok := bo.X.(*ssa.Slice); ok && sl.High != nil && sl.Low == nil {
				if _, isPhi := sl.X.(*ssa.Phi); isPhi {
					if _, isConv := bo.Y.(*ssa.Convert); isConv {
						good = true
					}
				}
			}
		}
		r.Check(good, fn, "key = prevKey[:lcp] + suffix", p.Pos(instrPos(st)), "rebuilt unconditionally from the previous key's prefix and the stored suffix", "a decoded key is not always prevKey[:lcp] + suffix (e.g. the previous key is reused whole when the suffix is empty): a key that is a proper prefix of its predecessor - k@1 after k@10 - is decoded as its predecessor")
	})
	if n == 0 {
		r.Undecided(fn, "key = prevKey[:lcp] + suffix", "", "no store of a decoded key in the loop")
	}
}

// ---- POOL.PUTLAST ----

func runPoolPutLast(c *Ctx, r *RuleRun) {
	p := c.P
	n := 0
	for _, f := range p.Funcs {
		fn := p.FnName(f)
		eachInstr(f, func(ins ssa.Instruction) {
			cl, ok := ins.(*ssa.Call)
			if !ok {
				return
			}
			obj := p.CalleeObj(cl)
			if obj == nil || !funcIs(obj, "sync", "Pool", "Put") || len(cl.Call.Args) < 2 {
				return
			}
			n++
			x := cl.Call.Args[1]
			if mi, ok := x.(*ssa.MakeInterface); ok {
				x = mi.X
			}
			uses := func(i ssa.Instruction) bool {
				ci, ok := i.(ssa.CallInstruction)
				if !ok || i == ssa.Instruction(cl) {
					return false
				}
				for _, arg := range ci.Common().Args {
					if arg == x {
						return true
					}
				}
				return ci.Common().IsInvoke() && ci.Common().Value == x
			}
			bad := ""
			// deferred uses run after the Put
			eachInstr(f, func(i ssa.Instruction) {
				if d, ok := i.(*ssa.Defer); ok && uses(d) {
					bad = "a deferred call uses the buffer after it went back to the pool"
				}
			})
			if bad == "" {
				q := PathQuery{P: p, Fn: f, Starts: []ssa.Instruction{cl}, Target: func(i ssa.Instruction) bool {
					if _, isDefer := i.(*ssa.Defer); isDefer {
						return false
					}
					return uses(i)
				}}
				if q.FindPath() != nil {
					bad = "the buffer is used after it went back to the pool"
				}
			}
			r.Check(bad == "", fn, "nothing after Pool.Put", p.Pos(instrPos(cl)), "Put is the last use of the buffer", bad+": the next owner may already be writing into it, and its bytes are cut off or mixed")
		})
	}
	if n == 0 {
		r.Undecided("module", "nothing after Pool.Put", "", "no sync.Pool.Put call")
	}
}

// ---- WM.RELEASE ----

func runWmRelease(c *Ctx, r *RuleRun) {
	a := wmGet(c, r)
	if a == nil {
		return
	}
	p := c.P
	f := a.process
	fn := p.FnName(f)
	isScan := func(ins ssa.Instruction) bool {
		switch x := ins.(type) {
		case *ssa.Range:
			return isWaiterMap(x.X.Type())
		case *ssa.Call:
			// a helper that scans the waiter table
			if g := x.Call.StaticCallee(); g != nil && p.InModule(g) && g.Pkg == f.Pkg {
				for _, arg := range x.Call.Args {
					if isWaiterMap(arg.Type()) {
						return true
					}
				}
			}
		}
		return false
	}
	var sel ssa.Instruction
	eachInstr(f, func(ins ssa.Instruction) {
		if s, ok := ins.(*ssa.Select); ok {
			sel = s
		}
	})
	n := 0
	for _, st := range a.stores(p, f) {
		n++
		q := PathQuery{P: p, Fn: f, Starts: []ssa.Instruction{st}, Avoid: isScan, Target: func(i ssa.Instruction) bool { return i == sel || isReturn(i) },
			EdgeOK: func(bb *ssa.BasicBlock, i int) bool {
				iff, ok := bb.Instrs[len(bb.Instrs)-1].(*ssa.If)
				if !ok {
					return true
				}
				cm := canonCond(iff.Cond, i == 0)
				if cm.Y == nil {
					return true
				}
				// the scan may be skipped when there is nobody waiting
				x, y, op := stripValue(cm.X), stripValue(cm.Y), cm.Op
				if cl, ok := y.(*ssa.Call); ok {
					if bi, ok := cl.Call.Value.(*ssa.Builtin); ok && bi.Name() == "len" {
						x, y, op = y, x, flipCmp(op)
					}
				}
				if cl, ok := x.(*ssa.Call); ok {
					if bi, ok := cl.Call.Value.(*ssa.Builtin); ok && bi.Name() == "len" && isWaiterMap(cl.Call.Args[0].Type()) {
						if k, isK := constInt(y); isK && k == 0 && (op == "==" || op == "<=") {
							return false
						}
					}
				}
				return true
			}}
		w := q.FindPath()
		if w == nil {
			r.Hold(fn, "waiters looked at after every advance", p.Pos(instrPos(st)), "every path from the store to the next mark scans the waiter table")
		} else {
			r.Viol(fn, "waiters looked at after every advance", p.Pos(instrPos(st)), "after the watermark was stored the next mark can be taken without the waiter table having been scanned (the scan is conditional on something else than `nobody waits`): a waiter at or below the new watermark stays blocked", p.describePath(w)...)
		}
	}
	if n == 0 {
		r.Undecided(fn, "waiters looked at after every advance", "", "no store of doneUntil in the consumer")
	}
}

// ---- CMP.VICTIM ----

func runCmpVictim(c *Ctx, r *RuleRun) {
	p := c.P
	d := c.Dur()
	levels := p.Field("", "levelManager", "levels")
	if levels == nil {
		r.Undecided("-", "levelManager.levels", "", "anchor not found")
		return
	}
	isListCall := func(v ssa.Value, names ...string) *ssa.Call {
		cl, ok := v.(*ssa.Call)
		if !ok {
			return nil
		}
		obj := p.CalleeObj(cl)
		if obj == nil {
			return nil
		}
		for _, n := range names {
			if funcIs(obj, "container/list", "List", n) || funcIs(obj, "container/list", "Element", n) {
				return cl
			}
		}
		return nil
	}
	n := 0
	for _, f := range compactors(c) {
		fn := p.FnName(f)
		// every element handed to boundary/fetch/Remove as a single source: Front() exactly
		eachInstr(f, func(ins ssa.Instruction) {
			cl, ok := ins.(*ssa.Call)
			if !ok {
				return
			}
			for _, arg := range cl.Call.Args {
				if !isListElemPtr(arg.Type()) {
					continue
				}
				ph, isPhi := arg.(*ssa.Phi)
				if isPhi {
					front := false
					other := false
					for _, e := range ph.Edges {
						if isListCall(e, "Front") != nil {
							front = true
						} else if nx := isListCall(e, "Next"); nx != nil && len(nx.Call.Args) > 0 && nx.Call.Args[0] == ssa.Value(ph) {
							// e = e.Next(): the variable of a walk over the whole level, not a choice among its tables
						} else if e != ssa.Value(ph) {
							other = true
						}
					}
					if front && other {
						n++
						r.Viol(fn, "single source table is the oldest", p.Pos(instrPos(cl)), "the table moved down is chosen among the tables of its level (largest, newest, …) instead of being its Front(): below L0 this is harmless only while the level is free of overlaps, which a crash in the middle of a compaction breaks - the newer of two overlapping tables goes down first and the stale one shadows it")
						return
					}
				}
				if isListCall(arg, "Front") != nil {
					n++
					r.Hold(fn, "single source table is the oldest", p.Pos(instrPos(cl)), "levels[n].Front()")
					return
				}
			}
		})
		// removals walk from the front
		for _, fe := range d.byFn[f] {
			if fe.Kind != "remove" || fe.Class != "table" {
				continue
			}
			ci, ok := fe.Ins.(ssa.CallInstruction)
			if !ok {
				continue
			}
			fromBack := p.dependsOn(ci.Common().Args[0], func(x ssa.Value) bool { return isListCall(x, "Back", "Prev") != nil }) ||
				derivesFrom(ci.Common().Args[0], func(x ssa.Value) bool { return isListCall(x, "Back", "Prev") != nil })
			n++
			r.Check(!fromBack, fn, "inputs deleted from the oldest on", p.Pos(instrPos(fe.Ins)), "the removed table comes from the front-to-back selection", "input tables are deleted walking the level from Back(): after a crash between two deletions an older table of L0 survives above the merged output and shadows it")
		}
	}
	// the removal loop may live in a helper that is handed the selection (deleteTables(level, tables)): judged at the call
	for _, f := range compactors(c) {
		fn := p.FnName(f)
		eachInstr(f, func(ins ssa.Instruction) {
			cl, ok := ins.(*ssa.Call)
			if !ok {
				return
			}
			g := cl.Call.StaticCallee()
			if g == nil || !p.InModule(g) || g.Pkg != f.Pkg || len(g.Blocks) == 0 {
				return
			}
			removes := false
			for _, fe := range d.byFn[g] {
				if fe.Kind == "remove" && fe.Class == "table" {
					removes = true
				}
			}
			if !removes {
				return
			}
			for _, arg := range cl.Call.Args {
				if !isListElemPtr(arg.Type()) && !isElemSlice(arg.Type()) {
					continue
				}
				isBack := func(x ssa.Value) bool { return isListCall(x, "Back", "Prev") != nil }
				fromBack := p.dependsOn(arg, isBack) || derivesFrom(arg, isBack)
				n++
				r.Check(!fromBack, fn, "inputs deleted from the oldest on", p.Pos(instrPos(cl)), "the tables handed to the removing helper come from the front-to-back selection", "input tables are deleted walking the level from Back(): after a crash between two deletions an older table of L0 survives above the merged output and shadows it")
			}
		})
	}
	if n == 0 {
		r.Undecided("compaction", "inputs deleted from the oldest on", "", "no removal of table files found in a compaction")
	}
}

// ---- LIVE.CLOSECHAN ----

func runLiveCloseChan(c *Ctx, r *RuleRun) {
	a := wmGet(c, r)
	if a == nil {
		return
	}
	p := c.P
	f := a.process
	fn := p.FnName(f)
	isClose := func(ins ssa.Instruction) bool {
		cl, ok := ins.(*ssa.Call)
		if !ok {
			return false
		}
		bi, ok := cl.Call.Value.(*ssa.Builtin)
		if !ok || bi.Name() != "close" {
			return false
		}
		fv, _ := loadedField(cl.Call.Args[0])
		return fv == a.fMarkC
	}
	q := PathQuery{P: p, Fn: f, Avoid: isClose, Target: isReturn}
	w := q.FindPath()
	if w == nil {
		r.Hold(fn, "consumer closes its channel before it leaves", p.Pos(f.Pos()), "every return of the consumer follows close(markC)")
	} else {
		r.Viol(fn, "consumer closes its channel before it leaves", p.Pos(instrPos(w[len(w)-1])), "the consumer of the mark channel can return without closing it: marks sent afterwards (Begin/Done of transactions still open when the store is stopped) fill the buffer and then block their senders forever", p.describePath(w)...)
	}
}

// ---- SKIP.RANDLEVEL ----

func runSkipRandLevel(c *Ctx, r *RuleRun) {
	p := c.P
	maxF := p.Field("pkg/skiplist", "SkipList", "maxLevel")
	pk := p.SSAPkg[p.pkgPath("pkg/skiplist")]
	set := p.Fn("pkg/skiplist", "SkipList", "Set")
	if maxF == nil || pk == nil || set == nil {
		r.Undecided("-", "SkipList.maxLevel", "", "anchor not found")
		return
	}
	n := 0
	// the drawing loop: in a helper of Set that returns the level, or written out in Set itself (then recognised by the
	// random draw in its condition)
	drawsRandom := func(ph *ssa.Phi) bool {
		hdr := ph.Block()
		found := false
		for _, lp := range naturalLoops(ph.Parent()) {
			if lp.header != hdr {
				continue
			}
			for b := range lp.body {
				for _, i2 := range b.Instrs {
					if cl, ok := i2.(*ssa.Call); ok {
						if obj := p.CalleeObj(cl); obj != nil && obj.Pkg() != nil && strings.HasPrefix(obj.Pkg().Path(), "math/rand") {
							found = true
						}
					}
				}
			}
		}
		return found
	}
	for _, g := range append([]*ssa.Function{set}, p.DirectCallees(set)...) {
		if g != set {
			if g.Pkg != pk || g.Signature.Results().Len() != 1 || g.Signature.Params().Len() != 0 {
				continue
			}
			if bt, ok := g.Signature.Results().At(0).Type().Underlying().(*types.Basic); !ok || bt.Kind() != types.Int {
				continue
			}
		}
		fn := p.FnName(g)
		eachInstr(g, func(ins ssa.Instruction) {
			bo, ok := ins.(*ssa.BinOp)
			if !ok || bo.Op != token.ADD || !inLoop(bo.Block()) {
				return
			}
			k, isK := constInt(bo.Y)
			ph, isPhi := bo.X.(*ssa.Phi)
			if !isK || k != 1 || !isPhi {
				return
			}
			if bt, ok := ph.Type().Underlying().(*types.Basic); !ok || bt.Kind() != types.Int {
				return
			}
			// only the counter that is returned
			returned := false
			eachInstr(g, func(i2 ssa.Instruction) {
				if ret, ok := i2.(*ssa.Return); ok && len(ret.Results) == 1 && p.dependsOn(retOperand(ret, 0), func(x ssa.Value) bool { return x == ssa.Value(bo) || x == ssa.Value(ph) }) {
					returned = true
				}
			})
			if g == set {
				returned = drawsRandom(ph)
			}
			if !returned {
				return
			}
			n++
			okB := hasFact(bo, func(cm Cmp) bool {
				return cm.Y != nil && cm.Op == "<" && cm.X == ssa.Value(ph) && isLoadOfField(cm.Y, maxF)
			})
			r.Check(okB, fn, "level grows only below maxLevel", p.Pos(instrPos(bo)), "level++ dominated by level < maxLevel", "the drawn level is incremented without a dominating `level < maxLevel` (e.g. the cap is tested after the increment): with maxLevel = 1 a tower taller than the list is built and Set indexes out of range")
			// the count starts at 1: a list with maxLevel = 1 has room for towers of height 1 only
			for i, e := range ph.Edges {
				if ph.Block().Dominates(ph.Block().Preds[i]) {
					continue
				}
				k0, isK0 := constInt(e)
				r.Check(isK0 && k0 == 1, fn, "level starts at 1", p.Pos(instrPos(bo)), "the smallest tower fits every maxLevel >= 1", "the drawn level does not start at 1: with maxLevel = 1 (or a start of 0) the tower does not fit the list - Set indexes out of range or links nothing")
			}
		})
	}
	if n == 0 {
		r.Undecided("skiplist", "level grows only below maxLevel", "", "no level-drawing loop found")
	}
}

// ---- REG.PAIR ----

func runRegPair(c *Ctx, r *RuleRun) {
	p := c.P
	o := nfOpts{p: p, depth: 6}
	type op struct {
		ins ssa.Instruction
		key ssa.Value
		fn  *ssa.Function
	}
	ins, dels := map[*types.Var][]op{}, map[*types.Var][]op{}
	for _, f := range p.Funcs {
		if f.Pkg != p.SSAPkg[p.ModPath] {
			continue
		}
		eachInstr(f, func(i ssa.Instruction) {
			ci, ok := i.(ssa.CallInstruction)
			if !ok {
				return
			}
			obj := p.CalleeObj(ci)
			if obj == nil || !funcIs(obj, "sync", "Map", obj.Name()) || len(ci.Common().Args) < 2 {
				return
			}
			g, ok := ci.Common().Args[0].(*ssa.Global)
			if !ok {
				return
			}
			gv, _ := g.Object().(*types.Var)
			key := ci.Common().Args[1]
			if mi, ok := key.(*ssa.MakeInterface); ok {
				key = mi.X
			}
			switch obj.Name() {
			case "Store", "LoadOrStore", "Swap":
				ins[gv] = append(ins[gv], op{i, key, f})
			case "Delete", "LoadAndDelete", "CompareAndDelete":
				dels[gv] = append(dels[gv], op{i, key, f})
			}
		})
	}
	// the key a field holds: what was stored into it
	resolve := func(v ssa.Value) string {
		if fv, _ := loadedField(v); fv != nil {
			for _, f := range p.Funcs {
				for _, st := range storesToField(f, fv) {
					return "field " + fv.Name() + " = " + o.nf(st.Val)
				}
			}
		}
		return o.nf(v)
	}
	n := 0
	for gv, ds := range dels {
		for _, dl := range ds {
			for _, in := range ins[gv] {
				n++
				a, b := resolve(in.key), resolve(dl.key)
				a2 := strings.TrimPrefix(a[strings.Index(a, "= ")+1:], " ")
				b2 := strings.TrimPrefix(b[strings.Index(b, "= ")+1:], " ")
				r.Check(a2 == b2, p.FnName(dl.fn), "registry "+gv.Name()+" released under the key it was taken with", p.Pos(instrPos(dl.ins)), "same key expression", "the entry of the package-level registry "+gv.Name()+" is inserted under ["+a+"] and removed under ["+b+"]: for inputs on which the two differ the entry is never released and the resource stays claimed after it was given up")
			}
		}
	}
	if n == 0 {
		r.Hold("module", "package-level registries keyed consistently", "", "no package-level sync.Map with insert/remove pairs")
	}
}

func init() {
	register(&Rule{ID: "LIVE.RENDEZVOUS", Engine: "E-ORDER", Min: 3,
		Desc: "no rendezvous cycle: a goroutine does not block on a channel operation whose partner can only get there after having been served, on another channel, by an operation that this goroutine performs later (channels whose capacity is not a positive constant count as unbuffered)",
		Run:  runLiveRendezvous})
}

func runLiveRendezvous(c *Ctx, r *RuleRun) {
	la := c.Locks()
	p := c.P
	type half struct {
		op   BlockingOp
		ch   string
		send bool
		arm  int // state index for selects, -1 otherwise
	}
	var halves []half
	for _, b := range la.BlockingOps() {
		if !la.Reached[b.Fn] {
			continue
		}
		switch b.Kind {
		case "send":
			halves = append(halves, half{b, b.Chan, true, -1})
		case "recv":
			halves = append(halves, half{b, b.Chan, false, -1})
		case "select":
			for i, ch := range b.Chans {
				halves = append(halves, half{b, ch, b.Dirs[i] == types.SendOnly, i})
			}
		}
	}
	// channels created with a positive constant capacity: a send on them does not wait for its partner (until full,
	// which this rule does not model)
	buffered := map[string]bool{}
	for _, f := range p.Funcs {
		eachInstr(f, func(ins ssa.Instruction) {
			if mc, ok := ins.(*ssa.MakeChan); ok {
				if k, isK := constInt(mc.Size); isK && k > 0 {
					buffered[p.chanClass(mc)] = true
				}
			}
		})
	}
	// the block a select continues in when state k fired (nil if it cannot be told)
	armBlock := func(sel *ssa.Select, k int) *ssa.BasicBlock {
		var idx ssa.Value
		for _, ref := range *sel.Referrers() {
			if ex, ok := ref.(*ssa.Extract); ok && ex.Index == 0 {
				idx = ex
			}
		}
		if idx == nil {
			return nil
		}
		for _, ref := range *idx.Referrers() {
			bo, ok := ref.(*ssa.BinOp)
			if !ok || bo.Op != token.EQL {
				continue
			}
			if kk, isK := constInt(bo.Y); !isK || int(kk) != k {
				continue
			}
			for _, r2 := range *bo.Referrers() {
				if iff, ok := r2.(*ssa.If); ok {
					return iff.Block().Succs[0]
				}
			}
		}
		return nil
	}
	n := 0
	for _, b := range halves {
		if b.arm >= 0 {
			continue // the blocked side we examine: plain sends and receives
		}
		n++
		if b.send && buffered[b.ch] {
			r.Hold(p.FnName(b.op.Fn), b.op.Kind+" "+b.ch+" is not part of a rendezvous cycle", p.Pos(instrPos(b.op.Ins)), "buffered channel (constant capacity)")
			continue
		}
		fb := b.op.Fn
		bad := ""
		for _, m := range halves {
			if m.ch != b.ch || m.send == b.send || m.op.Fn == fb {
				continue
			}
			// m is a partner of b. What must its goroutine have been served with before it gets to m?
			for _, pr := range halves {
				if pr.op.Fn != m.op.Fn || pr.op.Ins == m.op.Ins || pr.ch == b.ch {
					continue
				}
				if !dominatesInstr(pr.op.Ins, m.op.Ins) {
					continue
				}
				// for a select: only the arms that lead to m matter, and all of them must be known
				if pr.arm >= 0 {
					sel := pr.op.Ins.(*ssa.Select)
					ab := armBlock(sel, pr.arm)
					if ab == nil {
						bad = ""
						goto next
					}
					q := PathQuery{P: p, Fn: m.op.Fn, Starts: []ssa.Instruction{ab.Instrs[0]}, Avoid: func(i ssa.Instruction) bool { return i == pr.op.Ins }, Target: func(i ssa.Instruction) bool { return i == m.op.Ins }}
					if ab.Instrs[0] != m.op.Ins && q.FindPath() == nil {
						continue // this arm does not lead to m
					}
				}
				// partners of pr: all of them in fb, after b
				all, any := true, false
				for _, q := range halves {
					if q.ch != pr.ch || q.send == pr.send {
						continue
					}
					any = true
					if q.op.Fn != fb || !dominatesInstr(b.op.Ins, q.op.Ins) {
						all = false
					}
				}
				if any && all {
					bad = "blocks on " + b.ch + " until " + p.FnName(m.op.Fn) + " gets to its matching operation at " + p.Pos(instrPos(m.op.Ins)) + ", which it reaches only after having been served on " + pr.ch + " - and that happens only later in this function: with an unbuffered (or full) channel both wait for each other forever"
				}
			}
		}
	next:
		r.Check(bad == "", p.FnName(fb), b.op.Kind+" "+b.ch+" is not part of a rendezvous cycle", p.Pos(instrPos(b.op.Ins)), "no partner depends on a later operation of this function", bad)
	}
	if n == 0 {
		r.Undecided("module", "rendezvous cycles", "", "no channel operation found")
	}
}
