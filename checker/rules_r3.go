package main

// Rules added after the third round of seeded changes (DESIGN.md §9).

import (
	"go/token"
	"go/types"
	"sort"
	"strings"

	"golang.org/x/tools/go/ssa"
)

func init() {
	register(&Rule{ID: "CMP.OVERLAP", Engine: "E-DEP", Min: 2,
		Desc: "which tables of a sorted level take part in a compaction is decided on user keys (ParseKey of the table's first/last key against ParseKey of the range bounds), never in versioned-key order",
		Run:  runCmpOverlap})
	register(&Rule{ID: "RECOVER.LEVELS", Engine: "E-GUARD", Min: 1,
		Desc: "table recovery indexes the level lists only after growing them until the level exists (a loop, so that a directory without tables in a lower level still opens)",
		Run:  runRecoverLevels})
	register(&Rule{ID: "RECOVER.ENDLOG", Engine: "E-GUARD", Min: 3,
		Desc: "the wal record loop ends the log without an error only at the end of the data or on a torn tail (short read, negative length, length beyond the remaining bytes): never on a condition a complete record can satisfy",
		Run:  runRecoverEndlog})
	register(&Rule{ID: "CONF.HASH", Engine: "E-DEP", Min: 1,
		Desc: "the fingerprint of a key hashes the whole key: utils.Hash feeds every byte of its argument to the hash function",
		Run:  runConfHash})
	register(&Rule{ID: "SKIP.SCAN", Engine: "E-GUARD", Min: 1,
		Desc: "every element Scan returns was tested to be below the end key: the append is dominated by CompareKeys(elem.Key, end) < 0",
		Run:  runSkipScan})
	register(&Rule{ID: "SKIP.MATCH", Engine: "E-GUARD", Min: 2,
		Desc: "Get and Delete act only on the exact versioned key: every found/removed return is dominated by CompareKeys(elem.Key, key) == 0",
		Run:  runSkipMatch})
	register(&Rule{ID: "TRACE.GUARDS", Engine: "E-GUARD", Min: 5,
		Desc: "every function that puts an entry into a transaction's write buffer does so only after the read-only, finished and empty-key checks passed; Get reads the store only when the transaction is not finished; on the refusal path of Commit nothing outside the transaction is written",
		Run:  runTraceGuards})
}

func init() {
	register(&Rule{ID: "WM.WAITERS", Engine: "E-PATH", Min: 2,
		Desc: "a registered waiter leaves the consumer's waiter table only by being closed: an entry is deleted only after the loop that closes its channels, and an entry is only ever extended (append to itself)",
		Run:  runWmWaiters})
}

func init() {
	register(&Rule{ID: "CODEC.DRAIN", Engine: "E-GUARD", Min: 3,
		Desc: "decoders consume their whole input: a loop that runs while a reader has bytes left continues while Len() > 0, not while it exceeds some positive size",
		Run:  runCodecDrain})
	register(&Rule{ID: "WAL.APPENDPOS", Engine: "E-PATH", Min: 1,
		Desc: "every write to a wal file lands at its end: the handle was opened with O_APPEND at every open site, or the write is preceded on every path by Seek(0, io.SeekEnd)",
		Run:  runWalAppendPos})
}

func init() {
	register(&Rule{ID: "BLOOM.BYTES", Engine: "E-SIB", Min: 1,
		Desc: "Add and Contains hash the same bytes - the whole key: every hash.Write in the filter package is fed the complete key parameter",
		Run:  runBloomBytes})
}

func runBloomBytes(c *Ctx, r *RuleRun) {
	p := c.P
	pk := p.SSAPkg[p.pkgPath("pkg/filter")]
	if pk == nil {
		r.Undecided("-", "pkg/filter", "", "package not found")
		return
	}
	n := 0
	for _, f := range p.Funcs {
		if f.Pkg != pk {
			continue
		}
		eachInstr(f, func(ins ssa.Instruction) {
			ci, ok := ins.(ssa.CallInstruction)
			if !ok {
				return
			}
			com := ci.Common()
			if !com.IsInvoke() || (com.Method.Name() != "Write" && com.Method.Name() != "WriteString") || len(com.Args) != 1 {
				return
			}
			n++
			var wholeKey func(v ssa.Value, g *ssa.Function, depth int) bool
			wholeKey = func(v ssa.Value, g *ssa.Function, depth int) bool {
				switch x := v.(type) {
				case *ssa.Convert:
					return wholeKey(x.X, g, depth)
				case *ssa.ChangeType:
					return wholeKey(x.X, g, depth)
				case *ssa.Parameter:
					if depth > 3 || token.IsExported(g.Name()) {
						return true
					}
					idx := -1
					for i, q := range g.Params {
						if q == x {
							idx = i
						}
					}
					for _, site := range p.CallersOf(g) {
						args := site.Common().Args
						if idx < 0 || idx >= len(args) || site.Parent() == nil || !wholeKey(args[idx], site.Parent(), depth+1) {
							return false
						}
					}
					return true
				}
				return false
			}
			whole := wholeKey(com.Args[0], f, 0)
			r.Check(whole, p.FnName(f), "hashes the whole key", p.Pos(instrPos(ins)), "the hash is fed the complete key parameter",
				"the bytes hashed are not the whole key (a bounded buffer or a part of it): Add and Contains disagree for keys beyond that size and a member key is denied")
		})
	}
	if n == 0 {
		r.Undecided("pkg/filter", "hashes the whole key", "", "no hash input found")
	}
}

func runCodecDrain(c *Ctx, r *RuleRun) {
	p := c.P
	n := 0
	for _, f := range p.Funcs {
		for _, b := range f.Blocks {
			if len(b.Instrs) == 0 || !inLoop(b) {
				continue
			}
			iff, ok := b.Instrs[len(b.Instrs)-1].(*ssa.If)
			if !ok {
				continue
			}
			// a loop header: one successor stays on the cycle, the other leaves it
			stay0, stay1 := b.Succs[0].Dominates(b) || reachesWithin(b.Succs[0], b), b.Succs[1].Dominates(b) || reachesWithin(b.Succs[1], b)
			if stay0 == stay1 {
				continue
			}
			cm := canonCond(iff.Cond, stay0)
			if cm.Y == nil {
				continue
			}
			x, y, op := stripValue(cm.X), stripValue(cm.Y), cm.Op
			isLen := func(v ssa.Value) bool {
				cl, ok := v.(*ssa.Call)
				if !ok {
					return false
				}
				obj := p.CalleeObj(cl)
				return obj != nil && obj.Name() == "Len" && obj.Pkg() != nil && (obj.Pkg().Path() == "bytes" || obj.Pkg().Path() == "strings" || obj.Pkg().Path() == "bufio")
			}
			if isLen(y) && !isLen(x) {
				x, y, op = y, x, flipCmp(op)
			}
			if !isLen(x) {
				continue
			}
			k, isK := constInt(y)
			if !isK {
				continue
			}
			n++
			good := k == 0 && (op == ">" || op == "!=")
			if k == 1 && op == ">=" {
				good = true
			}
			r.Check(good, p.FnName(f), "decodes until the input is used up", p.Pos(instrPos(iff)), "continues while Len() > 0",
				"the decode loop stops while input is left (it continues only while Len() exceeds a positive size): a short last item is dropped without an error, so what was encoded is not what is decoded")
		}
	}
	if n == 0 {
		r.Undecided("decoders", "decodes until the input is used up", "", "no reader-draining loop found")
	}
}

// reachesWithin: from can reach to (used for loop membership of a successor of `to`).
func reachesWithin(from, to *ssa.BasicBlock) bool { return from == to || reaches(from, to) }

func runWalAppendPos(c *Ctx, r *RuleRun) {
	p := c.P
	pk := p.SSAPkg[p.pkgPath("wal")]
	fdField := p.Field("wal", "WAL", "fd")
	if pk == nil || fdField == nil {
		r.Undecided("-", "wal.WAL.fd", "", "anchors not found")
		return
	}
	// open sites whose result becomes a WAL's handle
	allAppend, nOpen := true, 0
	var badOpen ssa.Instruction
	for _, f := range p.Funcs {
		if f.Pkg != pk {
			continue
		}
		eachInstr(f, func(ins ssa.Instruction) {
			cl, ok := ins.(*ssa.Call)
			if !ok {
				return
			}
			obj := p.CalleeObj(cl)
			if obj == nil || !(funcIs(obj, "os", "", "OpenFile") || funcIs(obj, "os", "", "Open") || funcIs(obj, "os", "", "Create")) {
				return
			}
			// does the handle reach a WAL.fd store in this function?
			feeds := false
			eachInstr(f, func(i2 ssa.Instruction) {
				if st, ok := i2.(*ssa.Store); ok {
					if fv, _ := fieldOfAddr(st.Addr); fv == fdField && p.dependsOn(st.Val, func(x ssa.Value) bool { return x == ssa.Value(cl) }) {
						feeds = true
					}
				}
			})
			if !feeds {
				return
			}
			nOpen++
			app := false
			if funcIs(obj, "os", "", "OpenFile") {
				if fl, ok := constInt(cl.Call.Args[1]); ok && fl&oAPPEND != 0 {
					app = true
				}
			}
			if !app {
				allAppend = false
				badOpen = cl
			}
		})
	}
	n := 0
	for _, f := range p.Funcs {
		if f.Pkg != pk {
			continue
		}
		eachInstr(f, func(ins ssa.Instruction) {
			cl, ok := ins.(*ssa.Call)
			if !ok {
				return
			}
			fe := p.FileEffectOf(cl)
			if fe == nil || fe.Kind != "write" || fe.Class != "wal" {
				return
			}
			n++
			seekEnd := func(i ssa.Instruction) bool {
				sc, ok := i.(*ssa.Call)
				if !ok {
					return false
				}
				so := p.CalleeObj(sc)
				if so == nil || !funcIs(so, "os", "File", "Seek") {
					return false
				}
				off, ok1 := constInt(sc.Call.Args[1])
				wh, ok2 := constInt(sc.Call.Args[2])
				return ok1 && ok2 && off == 0 && wh == 2
			}
			q := PathQuery{P: p, Fn: f, Avoid: seekEnd, Target: func(i ssa.Instruction) bool { return i == ssa.Instruction(cl) }}
			seeks := q.FindPath() == nil
			why := "every open site of a wal handle sets O_APPEND"
			if !(allAppend && nOpen > 0) {
				why = "preceded by Seek(0, io.SeekEnd) on every path"
			}
			detail := "a wal write is neither positioned at the end of the file (Seek(0, io.SeekEnd)) nor made through a handle that every open site opens with O_APPEND"
			if badOpen != nil {
				detail += " (" + p.Pos(instrPos(badOpen)) + " opens without it)"
			}
			detail += ": after a reopen, or after Read moved the offset, the append overwrites existing records"
			r.Check((allAppend && nOpen > 0) || seeks, p.FnName(f), "append lands at the end of the log", p.Pos(instrPos(cl)), why, detail)
		})
	}
	if n == 0 {
		r.Undecided("wal", "append lands at the end of the log", "", "no write to WAL.fd found")
	}
}

func isWaiterMap(t types.Type) bool {
	mt, ok := t.Underlying().(*types.Map)
	if !ok {
		return false
	}
	sl, ok := mt.Elem().Underlying().(*types.Slice)
	if !ok {
		return false
	}
	_, ok = sl.Elem().Underlying().(*types.Chan)
	return ok
}

func runWmWaiters(c *Ctx, r *RuleRun) {
	a := wmGet(c, r)
	if a == nil {
		return
	}
	p := c.P
	type closeLoop struct {
		call   *ssa.Call
		header ssa.Instruction // the test of the loop that closes the channels, or the call of a helper that closes them all
		src    ssa.Value       // where the closed channel(s) come from
	}
	n := 0
	// the consumer and the helpers of its package it reaches
	var fns []*ssa.Function
	for g := range p.Reach(a.process) {
		if g.Pkg == a.process.Pkg {
			fns = append(fns, g)
		}
	}
	sort.Slice(fns, func(i, j int) bool { return fns[i].Pos() < fns[j].Pos() })
	for _, f := range fns {
		fn := p.FnName(f)
		// close loops: close(ch) calls inside a loop, with the slice they range over
		var loops []closeLoop
		eachInstr(f, func(ins ssa.Instruction) {
			cl, ok := ins.(*ssa.Call)
			if !ok {
				return
			}
			bi, ok := cl.Call.Value.(*ssa.Builtin)
			if !ok {
				// a closure/helper that closes every channel of the slice it is handed: wake(cs...) stands for the loop
				if src, all, isClose := chanCloseOf(p, cl); isClose && all {
					loops = append(loops, closeLoop{cl, cl, src})
				}
				return
			}
			if bi.Name() != "close" || !inLoop(cl.Block()) {
				return
			}
			// innermost loop header: nearest dominator that ends in an If, lies on a cycle with the close and has an exit
			for b := cl.Block(); b != nil; b = b.Idom() {
				if len(b.Instrs) == 0 {
					continue
				}
				iff, isIf := b.Instrs[len(b.Instrs)-1].(*ssa.If)
				if !isIf {
					continue
				}
				natural := false
				for _, pr := range b.Preds {
					if b.Dominates(pr) && (pr == cl.Block() || reaches(cl.Block(), pr)) {
						natural = true
					}
				}
				if natural {
					loops = append(loops, closeLoop{cl, iff, cl.Call.Args[0]})
					break
				}
			}
		})
		sameEntry := func(chSrc ssa.Value, key ssa.Value) bool {
			// the closed channel comes from the entry stored under key: the value of the same map-range step, or a lookup
			return p.dependsOn(chSrc, func(x ssa.Value) bool {
				switch y := x.(type) {
				case *ssa.Extract:
					if ke, ok := stripValue(key).(*ssa.Extract); ok && y.Tuple == ke.Tuple && y.Index != ke.Index {
						return true
					}
				case *ssa.Lookup:
					return isWaiterMap(y.X.Type()) && sameSource(y.Index, key)
				}
				return false
			})
		}
		eachInstr(f, func(ins ssa.Instruction) {
			switch x := ins.(type) {
			case *ssa.Call:
				bi, ok := x.Call.Value.(*ssa.Builtin)
				if !ok || bi.Name() != "delete" || !isWaiterMap(x.Call.Args[0].Type()) {
					return
				}
				n++
				key := x.Call.Args[1]
				var headers []ssa.Instruction
				for _, l := range loops {
					if sameEntry(l.src, key) {
						headers = append(headers, l.header)
					}
				}
				ok2 := len(headers) > 0
				if ok2 {
					q := PathQuery{P: p, Fn: f, Target: func(i ssa.Instruction) bool { return i == ssa.Instruction(x) }, Avoid: func(i ssa.Instruction) bool {
						for _, h := range headers {
							if i == h {
								return true
							}
						}
						return false
					}}
					ok2 = q.FindPath() == nil
				}
				r.Check(ok2, fn, "waiters removed only after being closed", p.Pos(instrPos(x)), "the delete follows the loop that closes every channel of the entry",
					"an entry is deleted from the waiter table without its channels having been closed: a goroutine blocked in WaitForMark on that index is never released although the watermark reaches it")
			case *ssa.MapUpdate:
				if !isWaiterMap(x.Map.Type()) {
					return
				}
				n++
				good := false
				if cl, ok := x.Value.(*ssa.Call); ok {
					if bi, ok := cl.Call.Value.(*ssa.Builtin); ok && bi.Name() == "append" {
						// (the table may be a field of a state struct: two loads of the same field are the same map)
						onf := nfOpts{p: p, depth: 6}
						if lk, ok := cl.Call.Args[0].(*ssa.Lookup); ok && (lk.X == x.Map || onf.nf(lk.X) == onf.nf(x.Map)) && sameSource(lk.Index, x.Key) {
							good = true
						}
					}
				}
				r.Check(good, fn, "waiter entries only grow", p.Pos(instrPos(x)), "waiters[k] = append(waiters[k], …)", "an entry of the waiter table is overwritten: waiters registered earlier on that index are forgotten and never released")
			}
		})
	}
	if n == 0 {
		r.Undecided(p.FnName(a.process), "waiter table", "", "no update of a map[…][]chan found in the consumer")
	}
}

// ---- CMP.OVERLAP ----

func runCmpOverlap(c *Ctx, r *RuleRun) {
	p := c.P
	parseKey := p.Fn("types", "", "ParseKey")
	cmpKeys := p.Fn("types", "", "CompareKeys")
	if parseKey == nil || cmpKeys == nil {
		r.Undecided("-", "types.ParseKey", "", "anchors not found")
		return
	}
	n := 0
	for _, f := range p.Funcs {
		if !isTableSelector(p, f) {
			continue
		}
		var bounds []*ssa.Parameter
		for _, pr := range f.Params {
			if bt, ok := pr.Type().Underlying().(*types.Basic); ok && bt.Info()&types.IsString != 0 {
				bounds = append(bounds, pr)
			}
		}
		if len(bounds) < 2 {
			continue
		}
		fn := p.FnName(f)
		isBound := func(v ssa.Value) bool {
			for _, b := range bounds {
				if v == ssa.Value(b) {
					return true
				}
			}
			return false
		}
		eachInstr(f, func(ins ssa.Instruction) {
			switch x := ins.(type) {
			case *ssa.Call:
				if x.Call.StaticCallee() == cmpKeys {
					for _, a := range x.Call.Args {
						if p.dependsOn(a, isBound) {
							n++
							r.Viol(fn, "range test on user keys", p.Pos(instrPos(x)), "the overlap of a table with the compaction range is decided with CompareKeys on versioned keys: versions sort descending, so a table holding an older version of a boundary key falls outside the range and is left behind")
							return
						}
					}
				}
			case *ssa.BinOp:
				if bt, ok := x.X.Type().Underlying().(*types.Basic); !ok || bt.Info()&types.IsString == 0 {
					return
				}
				switch x.Op {
				case token.LSS, token.LEQ, token.GTR, token.GEQ:
				default:
					return
				}
				if !p.dependsOn(x.X, isBound) && !p.dependsOn(x.Y, isBound) {
					return
				}
				n++
				okX := callTo(p, stripValue(x.X), parseKey) != nil
				okY := callTo(p, stripValue(x.Y), parseKey) != nil
				r.Check(okX && okY, fn, "range test on user keys", p.Pos(instrPos(x)), "both sides are ParseKey results",
					"a range bound is compared without projecting both sides to the user key")
			}
		})
	}
	if n == 0 {
		r.Undecided("levelManager", "range test on user keys", "", "no range comparison found in a table selector (a levelManager method returning []*list.Element with two key bounds)")
	}
}

// ---- RECOVER.LEVELS ----

func runRecoverLevels(c *Ctx, r *RuleRun) {
	p := c.P
	rec := p.FnOr("", "levelManager", "recover")
	levels := p.Field("", "levelManager", "levels")
	if rec == nil || levels == nil {
		r.Undecided("-", "levelManager.recover", "", "anchors not found")
		return
	}
	fn := p.FnName(rec)
	n := 0
	for _, f := range append([]*ssa.Function{rec}, rec.AnonFuncs...) {
		eachInstr(f, func(ins ssa.Instruction) {
			ia, ok := ins.(*ssa.IndexAddr)
			if !ok || !isLoadOfField(ia.X, levels) {
				return
			}
			if _, isK := constInt(ia.Index); isK {
				return
			}
			// indices produced by ranging over the slice itself are in range
			if ph, isPhi := ia.Index.(*ssa.Phi); isPhi && strings.HasPrefix(ph.Comment, "rangeindex") {
				return
			}
			if bo, isBo := ia.Index.(*ssa.BinOp); isBo {
				if ph, isPhi := bo.X.(*ssa.Phi); isPhi && strings.HasPrefix(ph.Comment, "rangeindex") {
					return
				}
			}
			n++
			idx := stripValue(ia.Index)
			ok2 := hasFact(ia, func(cm Cmp) bool {
				if cm.Y == nil || cm.Op != ">" {
					return false
				}
				lc, isCall := stripValue(cm.X).(*ssa.Call)
				if !isCall {
					return false
				}
				bi, isBi := lc.Call.Value.(*ssa.Builtin)
				return isBi && bi.Name() == "len" && isLoadOfField(lc.Call.Args[0], levels) && stripValue(cm.Y) == idx
			})
			if !ok2 {
				// a counted loop: for n := len(levels); n <= level; n++ { levels = append(levels, x) } - n stays equal to
				// len(levels) because every iteration appends exactly one list, so the exit fact n > level says the same
				ok2 = hasFact(ia, func(cm Cmp) bool {
					if cm.Y == nil || cm.Op != ">" || stripValue(cm.Y) != idx {
						return false
					}
					ph, isPhi := stripValue(cm.X).(*ssa.Phi)
					if !isPhi || len(ph.Edges) != 2 {
						return false
					}
					initOK, stepOK := false, false
					var backPred *ssa.BasicBlock
					for i, e := range ph.Edges {
						pred := ph.Block().Preds[i]
						if ph.Block().Dominates(pred) {
							stepOK = isPlus(e, ph, 1)
							backPred = pred
							continue
						}
						if lc, isCall := stripValue(e).(*ssa.Call); isCall {
							if bi, isBi := lc.Call.Value.(*ssa.Builtin); isBi && bi.Name() == "len" && isLoadOfField(lc.Call.Args[0], levels) {
								initOK = true
							}
						}
					}
					if !initOK || !stepOK || backPred == nil {
						return false
					}
					// exactly one append of one element on the way round, and no other store to levels in the loop
					nApp := 0
					for _, lp := range naturalLoops(f) {
						if lp.header != ph.Block() {
							continue
						}
						for b := range lp.body {
							for _, i2 := range b.Instrs {
								st, isSt := i2.(*ssa.Store)
								if !isSt {
									continue
								}
								if fv, _ := fieldOfAddr(st.Addr); fv != levels {
									continue
								}
								cl, isCall := st.Val.(*ssa.Call)
								one := false
								if isCall {
									if bi, isBi := cl.Call.Value.(*ssa.Builtin); isBi && bi.Name() == "append" && len(cl.Call.Args) == 2 && isLoadOfField(cl.Call.Args[0], levels) {
										if sl, isSl := cl.Call.Args[1].(*ssa.Slice); isSl {
											if al, isAl := sl.X.(*ssa.Alloc); isAl {
												if at, isArr := al.Type().Underlying().(*types.Pointer).Elem().Underlying().(*types.Array); isArr && at.Len() == 1 {
													one = true
												}
											}
										}
									}
								}
								if one && (b == backPred || b.Dominates(backPred)) {
									nApp++
								} else {
									nApp = -100
								}
							}
						}
					}
					return nApp == 1
				})
			}
			if !ok2 {
				// a helper called with the level before this point that returns only with len(levels) > its parameter
				eachInstr(f, func(i2 ssa.Instruction) {
					cl, isCall := i2.(*ssa.Call)
					if !isCall || !dominatesInstr(cl, ia) {
						return
					}
					g := cl.Call.StaticCallee()
					if g == nil || !p.InModule(g) {
						return
					}
					for ai, arg := range cl.Call.Args {
						if stripValue(arg) != idx || ai >= len(g.Params) {
							continue
						}
						prm := g.Params[ai]
						all, nret := true, 0
						eachInstr(g, func(i3 ssa.Instruction) {
							ret, isRet := i3.(*ssa.Return)
							if !isRet {
								return
							}
							nret++
							if !hasFact(ret, func(cm Cmp) bool {
								if cm.Y == nil || cm.Op != ">" {
									return false
								}
								lc, isC := stripValue(cm.X).(*ssa.Call)
								if !isC {
									return false
								}
								bi, isBi := lc.Call.Value.(*ssa.Builtin)
								return isBi && bi.Name() == "len" && isLoadOfField(lc.Call.Args[0], levels) && stripValue(cm.Y) == ssa.Value(prm)
							}) {
								all = false
							}
						})
						if all && nret > 0 {
							ok2 = true
						}
					}
				})
			}
			r.Check(ok2, fn, "levels[level] exists", p.Pos(instrPos(ia)), "dominated by len(levels) > level (exit of the loop that grows the slice)",
				"the level list is indexed without a dominating `len(levels) > level`: with a single `if` a directory whose lowest level is empty (all of L0 compacted away before Close) makes Open panic")
		})
	}
	if n == 0 {
		r.Undecided(fn, "levels[level] exists", "", "no indexing of the level lists by a computed level found in recovery")
	}
	// the loop that waits for the level to exist makes progress: it stores a longer list
	grows := false
	var growPos token.Pos = rec.Pos()
	for g := range p.Reach(rec) {
		if g.Pkg != rec.Pkg {
			continue
		}
		for _, st := range storesToField(g, levels) {
			cl, ok := st.Val.(*ssa.Call)
			if !ok || !inLoop(st.Block()) {
				continue
			}
			if bi, ok := cl.Call.Value.(*ssa.Builtin); ok && bi.Name() == "append" && isLoadOfField(cl.Call.Args[0], levels) {
				grows = true
				growPos = instrPos(st)
			}
		}
	}
	r.Check(grows, fn, "missing levels are appended", p.Pos(growPos), "levels = append(levels, …) inside the loop", "nothing in recovery appends to the level lists inside a loop: a table of a level that does not exist yet makes Open spin forever or index out of range")
}

// ---- RECOVER.ENDLOG ----

func runRecoverEndlog(c *Ctx, r *RuleRun) {
	p := c.P
	read := p.Fn("wal", "WAL", "Read")
	if read == nil {
		r.Undecided("-", "wal.WAL.Read", "", "anchor not found")
		return
	}
	fn := p.FnName(read)
	eofVars := map[string]bool{"EOF": true, "ErrUnexpectedEOF": true}
	isEOFTest := func(ins ssa.Instruction) bool {
		switch x := ins.(type) {
		case *ssa.Call:
			if obj := p.ExtCallee(x); obj != nil && funcIs(obj, "errors", "", "Is") && len(x.Call.Args) == 2 {
				if g := globalLoaded(x.Call.Args[1]); g != nil && g.Pkg() != nil && g.Pkg().Path() == "io" && eofVars[g.Name()] {
					return true
				}
			}
		case *ssa.BinOp:
			if x.Op == token.EQL {
				for _, o := range []ssa.Value{x.X, x.Y} {
					if g := globalLoaded(o); g != nil && g.Pkg() != nil && g.Pkg().Path() == "io" && eofVars[g.Name()] {
						return true
					}
				}
			}
		}
		return false
	}
	isReaderLen := func(v ssa.Value) bool {
		return p.dependsOn(v, func(x ssa.Value) bool {
			cl, ok := x.(*ssa.Call)
			if !ok {
				return false
			}
			obj := p.CalleeObj(cl)
			return obj != nil && obj.Name() == "Len" && obj.Pkg() != nil && (obj.Pkg().Path() == "bytes" || obj.Pkg().Path() == "bufio" || obj.Pkg().Path() == "strings")
		})
	}
	// the record length: an int64 cell whose address is handed to a decoder
	isLenCell := func(v ssa.Value) bool {
		u, ok := stripValue(v).(*ssa.UnOp)
		if !ok || u.Op != token.MUL {
			return false
		}
		al, ok := u.X.(*ssa.Alloc)
		if !ok {
			return false
		}
		bt, ok := al.Type().Underlying().(*types.Pointer).Elem().Underlying().(*types.Basic)
		return ok && bt.Info()&types.IsInteger != 0
	}
	var classify func(cond ssa.Value, truth bool) (string, bool)
	// a flag tested by the loop (`for !torn && …`) that becomes true only where a record was classified as torn
	// whyTrue: the boolean v, as it arrives over the edge out of block pred, is either known to be false there or is
	// true only for a reason that classifies a torn record
	var flagReasons []string // every reason for which the flag last looked at can be true
	var whyTrue func(v ssa.Value, pred, succ *ssa.BasicBlock, depth int) (why string, isTrue, ok bool)
	whyTrue = func(v ssa.Value, pred, succ *ssa.BasicBlock, depth int) (string, bool, bool) {
		if isConstBool(v, false) {
			return "", false, true
		}
		// the branch decisions known on the edge pred -> succ
		var conds []CondEdge
		if pred != nil && len(pred.Instrs) > 0 {
			last := pred.Instrs[len(pred.Instrs)-1]
			conds = dominatingConds(last)
			if iff, isIf := last.(*ssa.If); isIf && len(pred.Succs) == 2 && pred.Succs[0] != pred.Succs[1] {
				conds = append(conds, CondEdge{If: iff, Truth: pred.Succs[0] == succ})
			}
		}
		if !isConstBool(v, true) {
			for _, ce := range conds {
				cm := canonCond(ce.If.Cond, ce.Truth)
				if cm.Y == nil && cm.X == v && cm.Op == "false" {
					return "", false, true
				}
			}
		}
		switch x := v.(type) {
		case *ssa.Const:
			for _, ce := range conds {
				if _, isPhi := ce.If.Cond.(*ssa.Phi); isPhi {
					continue
				}
				if w, ok := classify(ce.If.Cond, ce.Truth); ok {
					flagReasons = append(flagReasons, w)
					return w, true, true
				}
			}
		case *ssa.BinOp, *ssa.Call:
			if w, ok := classify(v, true); ok {
				flagReasons = append(flagReasons, w)
				return w, true, true
			}
		case *ssa.Phi:
			if depth > 2 {
				return "", false, false
			}
			why, any := "", false
			for i, e := range x.Edges {
				if e == v {
					continue
				}
				w, t, ok := whyTrue(e, x.Block().Preds[i], x.Block(), depth+1)
				if !ok {
					return "", false, false
				}
				if t {
					why, any = w, true
				}
			}
			return why, any, true
		}
		return "", false, false
	}
	flagFromTorn := func(ph *ssa.Phi) (string, bool) {
		flagReasons = nil
		why, any, ok := whyTrue(ph, nil, nil, 0)
		return why, any && ok
	}
	classify = func(cond ssa.Value, truth bool) (string, bool) {
		cm := canonCond(cond, truth)
		if ph, isPhi := cm.X.(*ssa.Phi); isPhi && cm.Y == nil && cm.Op == "true" {
			if w, ok := flagFromTorn(ph); ok {
				return w, true
			}
		}
		if cm.Y == nil {
			// boolean: a classifier call
			if cl, ok := cm.X.(*ssa.Call); ok && cm.Op == "true" {
				if isEOFTest(cl) {
					return "error is EOF/unexpected EOF", true
				}
				if g := cl.Call.StaticCallee(); g != nil && p.InModule(g) && p.FuncMayDo(g, isEOFTest) {
					return "torn-tail classification (" + g.Name() + ")", true
				}
			}
			if bo, ok := cm.X.(*ssa.BinOp); ok && cm.Op == "true" && isEOFTest(bo) {
				return "error is EOF", true
			}
			return "", false
		}
		if bo, ok := cond.(*ssa.BinOp); ok && isEOFTest(bo) && truth == (bo.Op == token.EQL) {
			return "error is EOF", true
		}
		x, y, op := cm.X, cm.Y, cm.Op
		if isLenCell(y) && !isLenCell(x) {
			x, y, op = y, x, flipCmp(op)
		}
		if isLenCell(x) {
			if k, isK := constInt(y); isK {
				if (op == "<" && k <= 0) || (op == "<=" && k < 0) || (op == "<=" && k == 0) {
					return "record length not positive", true
				}
				return "", false
			}
			if isReaderLen(y) && (op == ">" || op == ">=") {
				return "record longer than the remaining bytes", true
			}
			return "", false
		}
		// the loop condition itself: remaining bytes exhausted
		if isReaderLen(y) && !isReaderLen(x) {
			x, y, op = y, x, flipCmp(op)
		}
		if k, isK := constInt(y); isReaderLen(x) && isK && k == 0 && (op == "<=" || op == "==") {
			return "no bytes left", true
		}
		return "", false
	}
	// L: blocks on a cycle; X: blocks outside L reachable from L
	inL := map[*ssa.BasicBlock]bool{}
	for _, b := range read.Blocks {
		if inLoop(b) {
			inL[b] = true
		}
	}
	// outcome of leaving through block q (walking outside L only)
	type outcome struct{ succeed, fail bool }
	memo := map[*ssa.BasicBlock]*outcome{}
	var walk func(q *ssa.BasicBlock, seen map[*ssa.BasicBlock]bool, o *outcome)
	walk = func(q *ssa.BasicBlock, seen map[*ssa.BasicBlock]bool, o *outcome) {
		if seen[q] || inL[q] {
			return
		}
		seen[q] = true
		if len(q.Instrs) > 0 {
			switch last := q.Instrs[len(q.Instrs)-1].(type) {
			case *ssa.Return:
				if isSuccessReturn(last) {
					o.succeed = true
				} else {
					o.fail = true
				}
			case *ssa.Panic:
				o.fail = true
			}
		}
		for _, s := range q.Succs {
			walk(s, seen, o)
		}
	}
	outOf := func(q *ssa.BasicBlock) *outcome {
		if o, ok := memo[q]; ok {
			return o
		}
		o := &outcome{}
		walk(q, map[*ssa.BasicBlock]bool{}, o)
		memo[q] = o
		return o
	}
	reachableFromL := map[*ssa.BasicBlock]bool{}
	{
		var stack []*ssa.BasicBlock
		for b := range inL {
			stack = append(stack, b)
		}
		for len(stack) > 0 {
			x := stack[len(stack)-1]
			stack = stack[:len(stack)-1]
			if reachableFromL[x] {
				continue
			}
			reachableFromL[x] = true
			stack = append(stack, x.Succs...)
		}
	}
	n := 0
	for _, b := range read.Blocks {
		if !reachableFromL[b] || len(b.Instrs) == 0 || len(b.Succs) != 2 {
			continue
		}
		iff, ok := b.Instrs[len(b.Instrs)-1].(*ssa.If)
		if !ok {
			continue
		}
		for si, q := range b.Succs {
			if inL[q] {
				continue
			}
			oq := outOf(q)
			if !oq.succeed || oq.fail {
				continue // not (yet) the decision that ends the log successfully
			}
			sib := b.Succs[1-si]
			if !inL[sib] {
				if os := outOf(sib); os.succeed && !os.fail {
					continue // both ways leave successfully: not a decision about the log
				}
			}
			n++
			flagReasons = nil
			why, ok := classify(iff.Cond, si == 0)
			label := "end of log"
			if ok {
				label = "end of log: " + kindOf(why)
				// one exit on a flag stands for every reason the flag is raised for
				seenKind := map[string]bool{kindOf(why): true}
				for _, w2 := range flagReasons {
					if k2 := kindOf(w2); !seenKind[k2] {
						seenKind[k2] = true
						r.Hold(fn, "end of log: "+k2, p.Pos(instrPos(iff)), w2)
					}
				}
			}
			r.Check(ok, fn, label, p.Pos(instrPos(iff)), why,
				"the record loop treats the rest of the log as absent on a condition that a complete, acknowledged record can satisfy (not a short read, not a length beyond the remaining bytes): every record from there on is dropped at recovery and the old log is then deleted")
		}
	}
	if n == 0 {
		r.Undecided(fn, "end of log", "", "no loop exit found")
	}
	// a torn tail ends the replay: an edge that establishes "torn" (short read, length beyond the rest) does not lead
	// back into the loop
	for _, b := range read.Blocks {
		if !inL[b] || len(b.Instrs) == 0 || len(b.Succs) != 2 {
			continue
		}
		iff, ok := b.Instrs[len(b.Instrs)-1].(*ssa.If)
		if !ok {
			continue
		}
		for si, q := range b.Succs {
			why, ok := classify(iff.Cond, si == 0)
			if !ok || kindOf(why) == "no bytes left" || kindOf(why) == "length not positive" {
				continue
			}
			t := q
			for i := 0; i < 4 && len(t.Succs) == 1 && len(t.Instrs) == 1; i++ {
				t = t.Succs[0]
			}
			if inL[q] && inL[t] {
				// the way back to the loop test sets a flag on which that test leaves the loop (`torn = true` with
				// `for !torn && …`): follow the straight line to the next branch and thread the constant through it
				leaves := false
				{
					prev, cur := b, q
					for i := 0; i < 8 && len(cur.Succs) == 1; i++ {
						prev, cur = cur, cur.Succs[0]
					}
					if hif, isIf := cur.Instrs[len(cur.Instrs)-1].(*ssa.If); isIf && len(cur.Succs) == 2 {
						cond, neg := hif.Cond, false
						for {
							u, isNot := cond.(*ssa.UnOp)
							if !isNot || u.Op != token.NOT {
								break
							}
							cond, neg = u.X, !neg
						}
						if ph, isPhi := cond.(*ssa.Phi); isPhi && ph.Block() == cur {
							for k, pb := range cur.Preds {
								if pb != prev || k >= len(ph.Edges) {
									continue
								}
								c, isC := ph.Edges[k].(*ssa.Const)
								// the flag is the very condition this edge decided (`if torn = …; torn { continue }`)
								decided := prev == b && ph.Edges[k] == iff.Cond
								if (isC && c.Value != nil) || decided {
									val := isConstBool(ph.Edges[k], true) != neg
									if decided {
										val = (si == 0) != neg
									}
									succ := cur.Succs[1]
									if val {
										succ = cur.Succs[0]
									}
									if !inL[succ] {
										leaves = true
									}
								}
							}
						}
					}
				}
				if leaves {
					continue
				}
				// a classifier call that is only the first half of a chain (err != nil && isTorn) keeps going: only
				// flag when the edge re-enters the loop header without leaving
				if reaches(t, b) {
					r.Viol(fn, "torn tail ends the replay", p.Pos(instrPos(iff)), "after the record was classified as torn ("+why+") the loop goes on: the remaining bytes of the torn record are parsed as further records")
				}
			}
		}
	}
}

func kindOf(why string) string {
	switch {
	case strings.HasPrefix(why, "no bytes left"):
		return "no bytes left"
	case strings.HasPrefix(why, "record length not positive"):
		return "length not positive"
	case strings.HasPrefix(why, "record longer"):
		return "length beyond the remaining bytes"
	default:
		return "torn-tail classification"
	}
}

// blockIsFailure: every path from b returns a non-nil error without looping (approximation: b itself ends in a
// failure return).
func blockIsFailure(b *ssa.BasicBlock) bool {
	if len(b.Instrs) == 0 {
		return false
	}
	ret, ok := b.Instrs[len(b.Instrs)-1].(*ssa.Return)
	if !ok {
		return false
	}
	return !isSuccessReturn(ret)
}

// ---- CONF.HASH ----

func runConfHash(c *Ctx, r *RuleRun) {
	p := c.P
	h := p.Fn("utils", "", "Hash")
	if h == nil || len(h.Params) != 1 {
		r.Undecided("-", "utils.Hash", "", "anchor not found")
		return
	}
	fn := p.FnName(h)
	param := h.Params[0]
	n := 0
	eachInstr(h, func(ins ssa.Instruction) {
		ci, ok := ins.(ssa.CallInstruction)
		if !ok {
			return
		}
		com := ci.Common()
		var data ssa.Value
		if com.IsInvoke() {
			if com.Method.Name() == "Write" && len(com.Args) == 1 {
				data = com.Args[0]
			} else if com.Method.Name() == "WriteString" && len(com.Args) == 1 {
				data = com.Args[0]
			}
		} else if obj := p.CalleeObj(ci); obj != nil && obj.Pkg() != nil {
			path := obj.Pkg().Path()
			if strings.Contains(path, "murmur3") || strings.HasPrefix(path, "hash/") || strings.Contains(path, "xxhash") {
				for _, a := range com.Args {
					if sl, isSl := a.Type().Underlying().(*types.Slice); isSl {
						if bt, isB := sl.Elem().Underlying().(*types.Basic); isB && bt.Kind() == types.Byte {
							data = a
						}
					}
					if bt, isB := a.Type().Underlying().(*types.Basic); isB && bt.Info()&types.IsString != 0 {
						data = a
					}
				}
			} else if funcIs(obj, "io", "", "WriteString") {
				data = com.Args[1]
			}
		}
		if data == nil {
			return
		}
		n++
		whole := data == ssa.Value(param)
		if cv, isCv := data.(*ssa.Convert); isCv && cv.X == ssa.Value(param) {
			whole = true
		}
		r.Check(whole, fn, "hashes the whole key", p.Pos(instrPos(ins)), "the hash is fed the complete argument",
			"the bytes fed to the hash are not the whole key (a bounded buffer or a slice of it): keys that share that part get the same fingerprint and transactions are refused without a real conflict")
	})
	if n == 0 {
		r.Undecided(fn, "hashes the whole key", "", "no hash input found")
	}
}

// ---- SKIP.SCAN / SKIP.MATCH ----

// cmpKeysFact: cm is CompareKeys(<something>.Key, target) op 0 (operands in either order, op adjusted).
func cmpKeysFact(p *Prog, cm Cmp, target ssa.Value, op string) bool {
	cmpKeys := p.Fn("types", "", "CompareKeys")
	if cm.Y == nil || cmpKeys == nil {
		return false
	}
	x, y, o := cm.X, cm.Y, cm.Op
	call := callTo(p, x, cmpKeys)
	if call == nil {
		call = callTo(p, y, cmpKeys)
		x, y, o = y, x, flipCmp(o)
	}
	if call == nil {
		return false
	}
	if k, isK := constInt(y); !isK || k != 0 {
		return false
	}
	a0, a1 := stripValue(call.Call.Args[0]), stripValue(call.Call.Args[1])
	if a1 == target {
		return o == op
	}
	if a0 == target {
		return flipCmp(o) == op
	}
	return false
}

func runSkipScan(c *Ctx, r *RuleRun) {
	p := c.P
	scan := p.Fn("pkg/skiplist", "SkipList", "Scan")
	if scan == nil {
		r.Undecided("-", "SkipList.Scan", "", "anchor not found")
		return
	}
	fn := p.FnName(scan)
	var strs []*ssa.Parameter
	for _, pr := range scan.Params {
		if bt, ok := pr.Type().Underlying().(*types.Basic); ok && bt.Info()&types.IsString != 0 {
			strs = append(strs, pr)
		}
	}
	if len(strs) != 2 {
		r.Undecided(fn, "bounds", "", "expected (start, end)")
		return
	}
	end := strs[1]
	n := 0
	eachInstr(scan, func(ins ssa.Instruction) {
		cl, ok := ins.(*ssa.Call)
		if !ok || !inLoop(cl.Block()) {
			return
		}
		bi, ok := cl.Call.Value.(*ssa.Builtin)
		if !ok || bi.Name() != "append" {
			return
		}
		if p.isModuleNamed(cl.Type().Underlying().(*types.Slice).Elem()) != p.Named("types", "Entry") {
			return
		}
		n++
		ok2 := hasFact(cl, func(cm Cmp) bool { return cmpKeysFact(p, cm, end, "<") })
		r.Check(ok2, fn, "returned elements are below end", p.Pos(instrPos(cl)), "dominated by CompareKeys(elem.Key, end) < 0",
			"an element is added to the result without having been compared with the end key (e.g. the walk stops at a pre-computed element): for a range whose end sorts before its start everything up to the tail is returned")
	})
	if n == 0 {
		r.Undecided(fn, "returned elements are below end", "", "no result append in a loop")
	}
}

func runSkipMatch(c *Ctx, r *RuleRun) {
	p := c.P
	for _, name := range []string{"Get", "Delete"} {
		f := p.Fn("pkg/skiplist", "SkipList", name)
		if f == nil {
			r.Undecided("-", "SkipList."+name, "", "anchor not found")
			continue
		}
		fn := p.FnName(f)
		key := keyParam(f)
		if key == nil {
			r.Undecided(fn, "key parameter", "", "not found")
			continue
		}
		n := 0
		// (way by way: a result variable or named result gives one return of phis, see retcases.go)
		for _, rc := range returnCases(f) {
			ret := rc.Ret
			if len(rc.Vals) == 0 {
				continue
			}
			last := rc.Vals[len(rc.Vals)-1]
			if !isConstBool(last, true) {
				continue
			}
			n++
			ok2 := caseHasFact(rc, func(cm Cmp) bool { return cmpKeysFact(p, cm, key, "==") })
			r.Check(ok2, fn, "acts on the exact key only", p.Pos(instrPos(ret)), "dominated by CompareKeys(elem.Key, key) == 0",
				"a found/removed answer is given without the exact-key test CompareKeys(elem.Key, key) == 0 (e.g. a same-user-key test): another version of the key is returned or removed")
		}
		if n == 0 {
			r.Undecided(fn, "acts on the exact key only", "", "no (…, true) return found")
		}
	}
}

// ---- TRACE.GUARDS ----

func sameSource(x, y ssa.Value) bool {
	x, y = stripValue(x), stripValue(y)
	if x == y {
		return true
	}
	fx, bx := loadedField(x)
	fy, by := loadedField(y)
	if fx != nil && fx == fy {
		if bx == by {
			return true
		}
		// both are fields of (copies of) the same parameter
		return paramOf(bx) != nil && paramOf(bx) == paramOf(by)
	}
	return false
}

func paramOf(v ssa.Value) *ssa.Parameter {
	switch x := v.(type) {
	case *ssa.Parameter:
		return x
	case *ssa.Alloc:
		if pr, ok := baseStored(x).(*ssa.Parameter); ok {
			return pr
		}
	case *ssa.UnOp:
		if x.Op == token.MUL {
			return paramOf(x.X)
		}
	}
	return nil
}

func runTraceGuards(c *Ctx, r *RuleRun) {
	a := c.Txn()
	if !a.ok(r) {
		return
	}
	p := c.P
	isFlag := func(fv *types.Var, want bool) func(cm Cmp) bool {
		return func(cm Cmp) bool {
			if cm.Y != nil {
				return false
			}
			return ((cm.Op == "true") == want) && isLoadOfField(cm.X, fv)
		}
	}
	nUp := 0
	for _, f := range p.Funcs {
		if !p.recvIs(f, "Txn") {
			continue
		}
		fn := p.FnName(f)
		eachInstr(f, func(ins ssa.Instruction) {
			mu, ok := ins.(*ssa.MapUpdate)
			if !ok || !isLoadOfField(mu.Map, a.fPending) {
				return
			}
			nUp++
			r.Check(p.hasFactIP(mu, isFlag(a.fReadOnly, false), 0), fn, "buffered only if not read-only", p.Pos(instrPos(mu)), "dominated by !readOnly",
				"an entry is put into the write buffer without the read-only check having passed")
			r.Check(p.hasFactIP(mu, isFlag(a.fDiscarded, false), 0), fn, "buffered only if not finished", p.Pos(instrPos(mu)), "dominated by !discarded",
				"an entry is put into the write buffer of a finished transaction")
			keyField := p.Field("types", "Entry", "Key")
			isTheKey := func(v ssa.Value) bool {
				if sameSource(v, mu.Key) {
					return true
				}
				// in a validation helper: the Key of the entry, or the key string, it was handed
				if fv, _ := loadedField(stripValue(v)); fv != nil && fv == keyField {
					return true
				}
				if pr, isP := stripValue(v).(*ssa.Parameter); isP && pr.Parent() != mu.Parent() {
					bt, isB := pr.Type().Underlying().(*types.Basic)
					return isB && bt.Info()&types.IsString != 0
				}
				return false
			}
			nonEmpty := p.hasFactIP(mu, func(cm Cmp) bool {
				if cm.Y == nil {
					return false
				}
				if s, isS := constString(cm.Y); isS && s == "" && cm.Op == "!=" && isTheKey(cm.X) {
					return true
				}
				// len(key) != 0 / > 0
				if k, isK := constInt(cm.Y); isK && k == 0 && (cm.Op == "!=" || cm.Op == ">") {
					if lc, isC := stripValue(cm.X).(*ssa.Call); isC {
						if bi, isBi := lc.Call.Value.(*ssa.Builtin); isBi && bi.Name() == "len" && isTheKey(lc.Call.Args[0]) {
							return true
						}
					}
				}
				return false
			}, 0)
			r.Check(nonEmpty, fn, "buffered only under a non-empty key", p.Pos(instrPos(mu)), "dominated by key != \"\"",
				"an entry can be buffered under the empty key: the documented ErrEmptyKey answer is skipped and the misuse has an effect (the entry is committed)")
		})
	}
	if nUp == 0 {
		r.Undecided("Txn", "write buffer updates", "", "no update of Txn.pendingWrites found")
	}
	// Get: the store is read only by a transaction that is not finished
	search := p.FnOr("", "DB", "search")
	if search == nil {
		r.Undecided("-", "DB.search", "", "anchor not found")
	} else {
		n := 0
		for _, cl := range callsTo(p, a.get, search) {
			n++
			r.Check(p.hasFactIP(cl, isFlag(a.fDiscarded, false), 0), p.FnName(a.get), "store read only if not finished", p.Pos(instrPos(cl)), "dominated by !discarded",
				"Get reads the store although the transaction may be finished: a handle that was committed or discarded keeps answering reads at a timestamp the read mark no longer protects")
		}
		if n == 0 {
			r.Undecided(p.FnName(a.get), "store read only if not finished", "", "no call of DB.search in Txn.Get")
		}
	}
	// refusal: from the entry of Commit to the return of ErrConflictTxn nothing outside the transaction is stored
	cf := a.commit
	errVar := p.Global("", "ErrConflictTxn")
	isRefusal := func(ins ssa.Instruction) bool {
		ret, ok := ins.(*ssa.Return)
		return ok && errVar != nil && globalLoaded(retOperand(ret, 0)) == errVar
	}
	txnNamed := p.Named("", "Txn")
	sharedStore := func(ins ssa.Instruction) bool {
		st, ok := ins.(*ssa.Store)
		if !ok {
			return false
		}
		addr := st.Addr
		for {
			switch x := addr.(type) {
			case *ssa.IndexAddr:
				addr = x.X
				continue
			case *ssa.FieldAddr:
				pt, isPtr := x.X.Type().Underlying().(*types.Pointer)
				if !isPtr {
					return false
				}
				if p.isModuleNamed(pt.Elem()) == txnNamed {
					return false
				}
				if _, isAl := x.X.(*ssa.Alloc); isAl {
					return false
				}
				if p.isModuleNamed(pt.Elem()) == nil {
					return false
				}
				return true
			case *ssa.UnOp:
				// element of a slice loaded from a shared field
				if x.Op == token.MUL {
					addr = x.X
					continue
				}
			}
			return false
		}
	}
	found := false
	for _, b := range cf.Blocks {
		for _, ins := range b.Instrs {
			if !sharedStore(ins) {
				continue
			}
			q := PathQuery{P: p, Fn: cf, Starts: []ssa.Instruction{ins}, Target: isRefusal}
			if w := q.FindPath(); w != nil {
				found = true
				r.Viol(p.FnName(cf), "refusal leaves nothing behind", p.Pos(instrPos(ins)), "shared state is written on a path that then refuses the transaction with ErrConflictTxn: what was staged there is picked up by a later commit", p.describePath(w)...)
			}
		}
	}
	if !found {
		r.Hold(p.FnName(cf), "refusal leaves nothing behind", p.Pos(cf.Pos()), "no store outside the transaction on a path to the ErrConflictTxn return")
	}
}
