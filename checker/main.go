package main

// ogcheck: repository-specific static analysis of B1NARY-GR0UP/originium.
// usage: ogcheck -property C03 [-tier quick|thorough] [-repo /repo] [-verif /verif]
//        ogcheck -all            (development: all properties, one load)
//        ogcheck replay <file>   (re-evaluate one recorded rule instance on the current tree)

import (
	"encoding/json"
	"flag"
	"fmt"
	"os"
	"path/filepath"
	"runtime/debug"
	"sort"
	"strconv"
	"strings"
	"time"
)

type Ctx struct {
	P     *Prog
	Tier  string
	locks *LockAnalysis
	memo  map[string]any
}

type Property struct {
	ID          string
	Rules       []string
	Explanation string // which clauses are decided, which are not
	Assumptions []string
}

var ruleRegistry = map[string]*Rule{}

func register(r *Rule) {
	if _, dup := ruleRegistry[r.ID]; dup {
		panic("duplicate rule " + r.ID)
	}
	ruleRegistry[r.ID] = r
}

func runRule(c *Ctx, id string) (res RuleResult) {
	r := ruleRegistry[id]
	if r == nil {
		return RuleResult{Rule: id, Instances: []Instance{{Rule: id, Func: "-", Construct: "rule", Verdict: Undecided, Detail: "rule not implemented"}}}
	}
	run := &RuleRun{c: c, rule: r}
	func() {
		defer func() {
			if e := recover(); e != nil {
				run.out = append(run.out, Instance{Rule: id, Func: "-", Construct: "analyser", Verdict: Undecided,
					Detail: fmt.Sprintf("analyser panic: %v\n%s", e, debug.Stack())})
			}
		}()
		r.Run(c, run)
	}()
	sortInstances(run.out)
	res = RuleResult{Rule: id, Engine: r.Engine, Desc: r.Desc, Min: r.Min, Instances: run.out, SpecShape: r.Spec}
	if len(run.out) < r.Min {
		res.Instances = append(res.Instances, Instance{Rule: id, Func: "-", Construct: "vacuity", Verdict: Undecided,
			Detail: fmt.Sprintf("only %d instances found, at least %d were confirmed by hand on the reference tree: the rule no longer finds its anchors", len(run.out), r.Min)})
	}
	// every kind of obligation confirmed on the reference tree must still be found (function names and multiplicities
	// may change, the kinds may not): a check whose site was deleted must not pass by having nothing to check
	have := map[string]bool{}
	for _, in := range run.out {
		have[baseLabel(in.Construct)] = true
		// an obligation that moved to the call site of a helper ("(*levelManager).deleteTables→remove(table)") is still
		// of the kind it had in the helper's place
		if i := strings.LastIndex(in.Construct, "→"); i >= 0 {
			have[baseLabel(in.Construct[i+len("→"):])] = true
		}
	}
	for _, want := range expectedLabels[id] {
		if !have[want] {
			res.Instances = append(res.Instances, Instance{Rule: id, Func: "-", Construct: "missing: " + want, Verdict: Undecided,
				Detail: "an obligation of this kind was confirmed on the reference tree and is no longer found: the code it was about was removed or changed beyond recognition"})
		}
	}
	return res
}

// baseLabel strips the ordinal (#2, #3, …) that distinguishes obligations of one kind in one function.
func baseLabel(construct string) string {
	if i := strings.LastIndex(construct, "#"); i > 0 {
		if _, err := strconv.Atoi(construct[i+1:]); err == nil {
			return construct[:i]
		}
	}
	return construct
}

func main() {
	if len(os.Args) > 1 && os.Args[1] == "variant" {
		os.Exit(variantMain(os.Args[2:]))
	}
	if len(os.Args) > 1 && os.Args[1] == "replay" {
		os.Exit(replayMain(os.Args[2:]))
	}
	prop := flag.String("property", "", "property id (C01..C17)")
	tier := flag.String("tier", "quick", "quick|thorough")
	repo := flag.String("repo", "/repo", "repository to analyse")
	verif := flag.String("verif", "/verif", "verification directory (evidence, known findings)")
	all := flag.Bool("all", false, "run every claimed property (development)")
	goarch := flag.String("goarch", "", "analyse for this GOARCH")
	tags := flag.String("tags", "", "build tags")
	noEvidence := flag.Bool("no-evidence", false, "do not write evidence files")
	verbose := flag.Bool("v", false, "print every instance")
	dumpLabels := flag.Bool("dump-labels", false, "print rule<TAB>obligation kind for every registered rule (to regenerate expected.go)")
	jsonOut := flag.Bool("json", false, "print rule results as JSON (used by the thorough tier's sub-runs)")
	flag.Parse()
	if t := os.Getenv("VERIF_TIER"); t == "quick" || t == "thorough" {
		*tier = t
	}
	seed := 0
	if s := os.Getenv("VERIF_SEED"); s != "" {
		seed, _ = strconv.Atoi(s)
	}

	start := time.Now()
	p, err := Load(LoadOpts{Dir: *repo, GOARCH: *goarch, Tags: *tags})
	if err != nil {
		fmt.Fprintf(os.Stderr, "ogcheck: cannot analyse %s: %v\n", *repo, err)
		os.Exit(2)
	}
	c := &Ctx{P: p, Tier: *tier, memo: map[string]any{}}
	if *dumpLabels {
		var ids []string
		for id := range ruleRegistry {
			ids = append(ids, id)
		}
		sort.Strings(ids)
		for _, id := range ids {
			seen := map[string]bool{}
			for _, in := range runRule(c, id).Instances {
				l := baseLabel(in.Construct)
				if in.Verdict == Hold && !seen[l] {
					seen[l] = true
					fmt.Printf("%s\t%s\n", id, l)
				}
			}
		}
		return
	}

	var props []*Property
	if *all {
		for _, pr := range properties {
			props = append(props, pr)
		}
	} else {
		pr := propertyByID(*prop)
		if pr == nil {
			fmt.Fprintf(os.Stderr, "ogcheck: unknown or unclaimed property %q\n", *prop)
			os.Exit(2)
		}
		props = []*Property{pr}
	}
	known, err := loadKnown(filepath.Join(*verif, "known_findings.json"))
	if err != nil {
		fmt.Fprintf(os.Stderr, "ogcheck: known_findings.json: %v\n", err)
		os.Exit(2)
	}

	exit := 0
	cache := map[string]RuleResult{}
	for _, pr := range props {
		pstart := time.Now()
		var results []RuleResult
		for _, id := range pr.Rules {
			rr, ok := cache[id]
			if !ok {
				rr = runRule(c, id)
				cache[id] = rr
			}
			results = append(results, rr)
		}
		var extra map[string]any
		if *tier == "thorough" && !*jsonOut {
			var more []RuleResult
			extra, more = thoroughExtras(c, pr, *repo, *verif)
			results = append(results, more...)
		}
		if *jsonOut {
			b, _ := json.Marshal(results)
			fmt.Println(string(b))
			continue
		}
		code := reportProperty(c, pr, results, known, *tier, seed, *verif, !*noEvidence, *verbose, time.Since(pstart)+time.Since(start)/time.Duration(len(props)), extra)
		if code > exit {
			exit = code
		}
	}
	os.Exit(exit)
}

func reportProperty(c *Ctx, pr *Property, results []RuleResult, known *KnownFile, tier string, seed int, verif string,
	writeEv bool, verbose bool, wall time.Duration, extra map[string]any) int {
	p := c.P
	total, held, viol, knownN, undec := 0, 0, 0, 0, 0
	var samples []any
	var ruleSumm []map[string]any
	var violLines []string
	var undecLines []string
	for _, rr := range results {
		rt, rh, rv, rk, ru := 0, 0, 0, 0, 0
		for _, in := range rr.Instances {
			rt++
			switch in.Verdict {
			case Hold:
				rh++
			case Violation:
				if e := known.match(pr.ID, in); e != nil {
					rk++
					fmt.Printf("KNOWN-FINDING: property=%s rule=%s at %s %s (%s): %s\n", pr.ID, in.Rule, in.Func, in.Construct, in.Pos, e.What)
					continue
				}
				rv++
				replay := filepath.Join(verif, "evidence", "replay", fmt.Sprintf("%s_%s.json", pr.ID, sanitizeFile(in.Key())))
				if writeEv {
					_ = writeJSON(replay, map[string]any{"property": pr.ID, "instance": in, "rule_description": rr.Desc, "engine": rr.Engine,
						"repo": p.Dir, "goarch": p.GOARCH})
				}
				violLines = append(violLines, fmt.Sprintf("VIOLATION property=%s replay=%s", pr.ID, replay))
				fmt.Printf("  rule %s violated in %s at %s [%s]: %s\n", in.Rule, in.Func, in.Pos, in.Construct, in.Detail)
				for _, st := range in.Path {
					fmt.Printf("      %s\n", st)
				}
			case Undecided:
				ru++
				undecLines = append(undecLines, fmt.Sprintf("UNDECIDED property=%s rule=%s %s %s (%s): %s", pr.ID, in.Rule, in.Func, in.Construct, in.Pos, in.Detail))
			}
			if verbose {
				fmt.Printf("  [%s] %-16s %-40s %-34s %s  %s\n", in.Verdict, in.Rule, in.Func, in.Construct, in.Pos, in.Detail)
			}
		}
		total += rt
		held += rh
		viol += rv
		knownN += rk
		undec += ru
		ruleSumm = append(ruleSumm, map[string]any{"rule": rr.Rule, "engine": rr.Engine, "description": rr.Desc, "instances": rt, "held": rh,
			"violations": rv, "known": rk, "undecided": ru, "min_instances": rr.Min, "spec_shaped": rr.SpecShape})
		// samples: every violation, and up to 4 held instances per rule
		n := 0
		for _, in := range rr.Instances {
			if in.Verdict != Hold || n < 4 {
				samples = append(samples, in)
				if in.Verdict == Hold {
					n++
				}
			}
		}
	}
	for _, l := range violLines {
		fmt.Println(l)
	}
	for _, l := range undecLines {
		fmt.Fprintln(os.Stderr, l)
	}
	status := "held"
	code := 0
	if viol > 0 {
		status = "VIOLATED"
		code = 1
	} else if undec > 0 {
		status = "UNDECIDED"
		code = 2
	}
	fmt.Printf("%s %s: %d rule instances over %d rules (%d held, %d violations, %d known findings, %d undecided) [%s, %d packages, %d functions, %d ssa instructions]\n",
		pr.ID, status, total, len(results), held, viol, knownN, undec, tier, len(p.Pkgs), len(p.Funcs), p.nInstr)

	if writeEv {
		var rules []string
		for _, rr := range results {
			rules = append(rules, rr.Rule)
		}
		sort.Strings(rules)
		cov := map[string]any{
			"explanation":         pr.Explanation,
			"obligations":         total,
			"discharged":          held,
			"evaluations":         total,
			"distinct_nontrivial": total,
			"rule":                "one obligation per (rule, function, construct) found in /repo's current source by the rules listed; distinct by that key; all are non-trivial (each names a construct of the program)",
			"samples":             samples,
			"rules":               ruleSumm,
			"undecided":           undec,
			"known_findings":      knownN,
			"packages_analysed":   len(p.Pkgs),
			"functions_analysed":  len(p.Funcs),
			"ssa_instructions":    p.nInstr,
			"goarch":              orDefault(p.GOARCH, "host (amd64)"),
			"exhaustive":          true,
			"checker_cmd":         fmt.Sprintf("/verif/bin/ogcheck -property %s -tier %s", pr.ID, tier),
			"trusted_base":        []string{"go/types, go/ssa (golang.org/x/tools v0.50.0)", "the std effect tables in checker/effects.go", "the role model (DESIGN.md §2.1)"},
		}
		for k, v := range extra {
			cov[k] = v
		}
		ev := Evidence{PropertyID: pr.ID, Tier: tier, Seed: seed, Level: "other", Coverage: cov, Assumptions: pr.Assumptions,
			WallS: float64(int(wall.Seconds()*1000)) / 1000, Violations: viol}
		if err := writeJSON(filepath.Join(verif, "evidence", pr.ID+".json"), ev); err != nil {
			fmt.Fprintf(os.Stderr, "ogcheck: cannot write evidence: %v\n", err)
			if code == 0 {
				code = 2
			}
		}
	}
	return code
}

func orDefault(s, d string) string {
	if s == "" {
		return d
	}
	return s
}

func replayMain(args []string) int {
	if len(args) < 1 {
		fmt.Fprintln(os.Stderr, "usage: ogcheck replay <file> [-repo dir]")
		return 2
	}
	b, err := os.ReadFile(args[0])
	if err != nil {
		fmt.Fprintln(os.Stderr, err)
		return 2
	}
	var rec struct {
		Property string   `json:"property"`
		Instance Instance `json:"instance"`
		Repo     string   `json:"repo"`
		GOARCH   string   `json:"goarch"`
	}
	if err := json.Unmarshal(b, &rec); err != nil {
		fmt.Fprintln(os.Stderr, err)
		return 2
	}
	repo := "/repo"
	for i := 1; i+1 < len(args); i++ {
		if args[i] == "-repo" {
			repo = args[i+1]
		}
	}
	p, err := Load(LoadOpts{Dir: repo, GOARCH: rec.GOARCH})
	if err != nil {
		fmt.Fprintf(os.Stderr, "ogcheck: cannot analyse %s: %v\n", repo, err)
		return 2
	}
	c := &Ctx{P: p, Tier: "quick", memo: map[string]any{}}
	rr := runRule(c, rec.Instance.Rule)
	for _, in := range rr.Instances {
		if in.Key() == rec.Instance.Key() {
			fmt.Printf("rule %s (%s)\n  %s\n  instance: %s in %s at %s\n  verdict on the current tree: %s\n  %s\n", rr.Rule, rr.Engine, rr.Desc, in.Construct, in.Func, in.Pos, strings.ToUpper(in.Verdict), in.Detail)
			for _, s := range in.Path {
				fmt.Printf("      %s\n", s)
			}
			if in.Verdict == Violation {
				fmt.Printf("VIOLATION property=%s replay=%s\n", rec.Property, args[0])
				return 1
			}
			return 0
		}
	}
	fmt.Printf("instance %s no longer exists on the current tree (rule %s now has %d instances)\n", rec.Instance.Key(), rr.Rule, len(rr.Instances))
	return 0
}
