package main

// E-RACE: static lockset race detection over struct fields and the containers reachable through them.

import (
	"fmt"
	"go/token"
	"go/types"
	"sort"
	"strings"

	"golang.org/x/tools/go/ssa"
)

type Access struct {
	Class  string // "DB.memtable" or "DB.immutables→list"
	Field  *types.Var
	Ins    ssa.Instruction
	Fn     *ssa.Function
	Write  bool
	Atomic bool
	What   string
}

// containerRoot follows a value back to the struct field (or global) its container was loaded from.
func (p *Prog) containerRoot(v ssa.Value, depth int) *types.Var {
	if depth > 8 || v == nil {
		return nil
	}
	switch x := v.(type) {
	case *ssa.UnOp:
		if x.Op == token.MUL {
			if fv, _ := fieldOfAddr(x.X); fv != nil {
				return fv
			}
			if ia, ok := x.X.(*ssa.IndexAddr); ok {
				return p.containerRoot(ia.X, depth+1)
			}
			return p.containerRoot(x.X, depth+1)
		}
	case *ssa.Global:
		if gv, ok := x.Object().(*types.Var); ok {
			return gv
		}
	case *ssa.FieldAddr:
		fv, _ := fieldOfAddr(x)
		return fv
	case *ssa.Field:
		st := x.X.Type().Underlying().(*types.Struct)
		f := st.Field(x.Field)
		if r := p.containerRoot(x.X, depth+1); r != nil && p.fieldOwner(f) == "" {
			return r
		}
		return f
	case *ssa.IndexAddr:
		return p.containerRoot(x.X, depth+1)
	case *ssa.Index:
		return p.containerRoot(x.X, depth+1)
	case *ssa.Lookup:
		return p.containerRoot(x.X, depth+1)
	case *ssa.Slice:
		return p.containerRoot(x.X, depth+1)
	case *ssa.Extract:
		return p.containerRoot(x.Tuple, depth+1)
	case *ssa.Next:
		return p.containerRoot(x.Iter, depth+1)
	case *ssa.Range:
		return p.containerRoot(x.X, depth+1)
	case *ssa.TypeAssert:
		return p.containerRoot(x.X, depth+1)
	case *ssa.ChangeType:
		return p.containerRoot(x.X, depth+1)
	case *ssa.MakeInterface:
		return p.containerRoot(x.X, depth+1)
	case *ssa.Phi:
		for _, e := range x.Edges {
			if e == v {
				continue
			}
			if r := p.containerRoot(e, depth+1); r != nil {
				return r
			}
		}
	case *ssa.Parameter:
		f := x.Parent()
		idx := -1
		for i, pr := range f.Params {
			if pr == x {
				idx = i
			}
		}
		for _, site := range p.CallersOf(f) {
			args := site.Common().Args
			if idx >= 0 && idx < len(args) {
				if r := p.containerRoot(args[idx], depth+1); r != nil {
					return r
				}
			}
		}
	case *ssa.Call:
		// result of a container method: Front(), Back(), Next(), Prev() ...
		c := x.Common()
		if !c.IsInvoke() {
			if f := c.StaticCallee(); f != nil && !p.InModule(f) && f.Signature.Recv() != nil && len(c.Args) > 0 {
				return p.containerRoot(c.Args[0], depth+1)
			}
		}
	}
	return nil
}

func isSyncType(t types.Type) bool {
	if pt, ok := t.Underlying().(*types.Pointer); ok {
		t = pt.Elem()
	}
	if n, ok := types.Unalias(t).(*types.Named); ok && n.Obj().Pkg() != nil {
		pp := n.Obj().Pkg().Path()
		return pp == "sync" || pp == "sync/atomic"
	}
	return false
}

var listWriters = map[string]bool{"PushBack": true, "PushFront": true, "Remove": true, "Init": true, "InsertBefore": true, "InsertAfter": true,
	"MoveToFront": true, "MoveToBack": true, "MoveBefore": true, "MoveAfter": true, "PushBackList": true, "PushFrontList": true}

// stdMethodEffect: does calling this non-module method mutate its receiver? (nil = unknown/not a container)
func stdMethodWrites(obj *types.Func) (known bool, writes bool) {
	if obj == nil || obj.Pkg() == nil {
		return false, false
	}
	sig := obj.Type().(*types.Signature)
	if sig.Recv() == nil {
		return false, false
	}
	switch obj.Pkg().Path() {
	case "container/list":
		return true, listWriters[obj.Name()]
	case "hash":
		switch obj.Name() {
		case "Write", "Reset":
			return true, true
		default:
			return true, false
		}
	case "io":
		if obj.Name() == "Write" || obj.Name() == "Read" {
			return true, true
		}
	case "math/rand":
		return true, true // *rand.Rand methods advance the generator state
	case "sync":
		// sync.Map: internally synchronised (see stdMethodSynchronized), but its mutators change shared state
		if funcIs(obj, "sync", "Map", obj.Name()) {
			switch obj.Name() {
			case "Load", "Range":
				return true, false
			default:
				return true, true
			}
		}
	case "os":
		// *os.File: everything that moves the shared file offset or changes the file is a write to the handle's state
		if funcIs(obj, "os", "File", obj.Name()) {
			switch obj.Name() {
			case "Seek", "Read", "Write", "WriteString", "ReadFrom", "WriteTo", "Truncate", "Close", "Sync":
				return true, true
			case "ReadAt", "WriteAt", "Stat", "Name", "Fd":
				return true, false
			}
		}
	}
	return false, false
}

// stdMethodSynchronized: the method synchronises internally (no lock of the caller is needed for memory safety).
func stdMethodSynchronized(obj *types.Func) bool {
	return obj != nil && funcIs(obj, "sync", "Map", obj.Name())
}

type RaceAnalysis struct {
	Accesses map[string][]Access
	Classes  []string
}

// freshness: the object an address points into was created by the current call chain and has not been copied
// from shared memory, so no other goroutine can reach it yet.
type freshCtx struct {
	p    *Prog
	deep bool              // deep: containers reachable from the object are private too (the object is not a copy of a shared one)
	memo map[ssa.Value]int // 1 fresh, 2 not, 3 in progress
}

func (fc *freshCtx) baseIsFresh(addr ssa.Value) bool {
	for i := 0; i < 8 && addr != nil; i++ {
		switch x := addr.(type) {
		case *ssa.FieldAddr:
			addr = x.X
		case *ssa.IndexAddr:
			addr = x.X
		case *ssa.Slice:
			addr = x.X
		case *ssa.UnOp:
			// a container loaded from a field of an object: private if the object is private and not a copy (deep mode)
			if x.Op == token.MUL && fc.deep {
				addr = x.X
				continue
			}
			return fc.fresh(addr, 0)
		default:
			return fc.fresh(addr, 0)
		}
	}
	return false
}

func (fc *freshCtx) fresh(v ssa.Value, depth int) bool {
	if v == nil || depth > 4 {
		return false
	}
	switch fc.memo[v] {
	case 1:
		return true
	case 2:
		return false
	case 3:
		return true // optimistic on cycles (recursion); none in this code base
	}
	fc.memo[v] = 3
	res := false
	switch x := v.(type) {
	case *ssa.Alloc:
		res = true
		for _, ref := range *x.Referrers() {
			if st, ok := ref.(*ssa.Store); ok && st.Addr == x && fc.deep {
				// whole-value store: a copy of something else unless that something is itself fresh/constant
				switch sv := st.Val.(type) {
				case *ssa.Const:
				case *ssa.Call:
					if !fc.fresh(sv, depth+1) {
						res = false
					}
				case *ssa.UnOp:
					// the value of a composite literal built in a temporary of its own: x := T{…} via `complit`
					if tmp, isAl := sv.X.(*ssa.Alloc); !(sv.Op == token.MUL && isAl && tmp != x && fc.fresh(tmp, depth+1)) {
						res = false
					}
				default:
					res = false
				}
			}
		}
	case *ssa.Call:
		cs := fc.p.Callees(x)
		if len(cs) == 0 {
			break
		}
		res = true
		for _, g := range cs {
			found := false
			for _, b := range g.Blocks {
				for _, ins := range b.Instrs {
					if ret, ok := ins.(*ssa.Return); ok {
						for _, rv := range ret.Results {
							if types.Identical(rv.Type(), x.Type()) || len(ret.Results) == 1 {
								found = true
								if !fc.fresh(rv, depth+1) {
									res = false
								}
							}
						}
					}
				}
			}
			if !found {
				res = false
			}
		}
	case *ssa.Parameter:
		f := x.Parent()
		idx := -1
		for i, pr := range f.Params {
			if pr == x {
				idx = i
			}
		}
		sites := fc.p.CallersOf(f)
		if idx < 0 || len(sites) == 0 {
			break
		}
		res = true
		for _, site := range sites {
			args := site.Common().Args
			if site.Common().IsInvoke() {
				// receiver is Value, params shift by one
				if idx == 0 {
					if !fc.fresh(site.Common().Value, depth+1) {
						res = false
					}
					continue
				}
				if idx-1 >= len(args) || !fc.argFresh(args[idx-1], depth+1) {
					res = false
				}
				continue
			}
			if idx >= len(args) || !fc.argFresh(args[idx], depth+1) {
				res = false
			}
		}
	case *ssa.MakeSlice, *ssa.MakeMap:
		res = true
	}
	if res {
		fc.memo[v] = 1
	} else {
		fc.memo[v] = 2
	}
	return res
}

// argFresh: an argument that is the address of (a part of) a fresh object, or a fresh pointer value
func (fc *freshCtx) argFresh(a ssa.Value, depth int) bool {
	switch x := a.(type) {
	case *ssa.FieldAddr, *ssa.IndexAddr:
		_ = x
		return fc.baseIsFresh(a)
	}
	return fc.fresh(a, depth)
}

func (c *Ctx) Races() *RaceAnalysis { return c.racesFor(c.Locks(), "races") }

func (c *Ctx) racesFor(la *LockAnalysis, memoKey string) *RaceAnalysis {
	if r, ok := c.memo[memoKey]; ok {
		return r.(*RaceAnalysis)
	}
	p := c.P
	ra := &RaceAnalysis{Accesses: map[string][]Access{}}
	fc := &freshCtx{p: p, memo: map[ssa.Value]int{}}
	fcDeep := &freshCtx{p: p, deep: true, memo: map[ssa.Value]int{}}
	baseIsFresh := fc.baseIsFresh
	rootFresh := func(v ssa.Value) bool {
		// the container a value was loaded from lives in a fresh object
		for i := 0; i < 8 && v != nil; i++ {
			switch x := v.(type) {
			case *ssa.UnOp:
				if x.Op == token.MUL {
					return fcDeep.baseIsFresh(x.X)
				}
				return false
			case *ssa.IndexAddr:
				v = x.X
			case *ssa.Slice:
				v = x.X
			case *ssa.Range:
				v = x.X
			case *ssa.Next:
				v = x.Iter
			case *ssa.Extract:
				v = x.Tuple
			case *ssa.Index:
				v = x.X
			case *ssa.Lookup:
				v = x.X
			default:
				return false
			}
		}
		return false
	}
	add := func(fv *types.Var, suffix string, ins ssa.Instruction, write, atomic bool, what string) {
		if fv == nil {
			return
		}
		owner := p.fieldOwner(fv)
		if owner == "" && !(fv.Pkg() != nil && strings.HasPrefix(fv.Pkg().Path(), p.ModPath) && !fv.IsField()) {
			return // field of a non-module type (and not a module global)
		}
		cls := p.fieldName(fv) + suffix
		ra.Accesses[cls] = append(ra.Accesses[cls], Access{Class: cls, Field: fv, Ins: ins, Fn: ins.Parent(), Write: write, Atomic: atomic, What: what})
	}
	// A struct that is held by value inside another object (skiplist.Element embeds an Entry, Data.Entries is a
	// []Entry) shares no memory with a struct of the same type held elsewhere: its fields are classed with the holder
	// ("Element.Entry." / "Data.Entries[]."). An access through a plain pointer to the struct (&x.Entry handed on) could
	// be either; such accesses keep the bare class and are added to every refined class of the field afterwards.
	refine := func(addr ssa.Value) string {
		fa, ok := addr.(*ssa.FieldAddr)
		if !ok {
			return ""
		}
		switch b := fa.X.(type) {
		case *ssa.FieldAddr:
			if outer, _ := fieldOfAddr(b); outer != nil && p.fieldOwner(outer) != "" {
				return p.fieldName(outer) + "."
			}
		case *ssa.IndexAddr:
			if root := p.containerRoot(b.X, 0); root != nil && p.fieldOwner(root) != "" {
				return p.fieldName(root) + "[]."
			}
		}
		return ""
	}
	refinedOf := map[*types.Var]map[string]bool{}
	addIn := func(prefix string, fv *types.Var, ins ssa.Instruction, write bool, what string) {
		if prefix == "" {
			add(fv, "", ins, write, false, what)
			return
		}
		owner := p.fieldOwner(fv)
		if owner == "" {
			return
		}
		cls := prefix + p.fieldName(fv)
		if refinedOf[fv] == nil {
			refinedOf[fv] = map[string]bool{}
		}
		refinedOf[fv][cls] = true
		ra.Accesses[cls] = append(ra.Accesses[cls], Access{Class: cls, Field: fv, Ins: ins, Fn: ins.Parent(), Write: write, What: what})
	}
	defer func() {
		for fv, classes := range refinedOf {
			bare := ra.Accesses[p.fieldName(fv)]
			for cls := range classes {
				for _, a := range bare {
					a.Class = cls
					ra.Accesses[cls] = append(ra.Accesses[cls], a)
				}
			}
		}
	}()
	for _, f := range p.Funcs {
		if !la.Reached[f] {
			continue
		}
		for _, b := range f.Blocks {
			for _, ins := range b.Instrs {
				if _, reached := la.Must[ins]; !reached {
					continue
				}
				switch x := ins.(type) {
				case *ssa.Store:
					if fv, _ := fieldOfAddr(x.Addr); fv != nil {
						if !baseIsFresh(x.Addr) && !isSyncType(fv.Type()) {
							addIn(refine(x.Addr), fv, ins, true, "store to field")
						}
					} else if ia, ok := x.Addr.(*ssa.IndexAddr); ok {
						if !baseIsFresh(ia.X) && !rootFresh(ia.X) {
							add(p.containerRoot(ia.X, 0), "→elems", ins, true, false, "store to element")
						}
					} else if g, ok := x.Addr.(*ssa.Global); ok {
						if gv, ok := g.Object().(*types.Var); ok && f.Name() != "init" {
							add(gv, "", ins, true, false, "store to global")
						}
					}
				case *ssa.UnOp:
					if x.Op != token.MUL {
						continue
					}
					if fv, _ := fieldOfAddr(x.X); fv != nil {
						if !baseIsFresh(x.X) && !isSyncType(fv.Type()) {
							addIn(refine(x.X), fv, ins, false, "load of field")
						}
					} else if ia, ok := x.X.(*ssa.IndexAddr); ok {
						if !baseIsFresh(ia.X) && !rootFresh(ia.X) {
							add(p.containerRoot(ia.X, 0), "→elems", ins, false, false, "load of element")
						}
					} else if g, ok := x.X.(*ssa.Global); ok {
						if gv, ok := g.Object().(*types.Var); ok {
							add(gv, "", ins, false, false, "load of global")
						}
					}
				case *ssa.Slice:
					// a slice of a module global array handed to a call: the callee reads or fills the shared buffer
					g, ok := x.X.(*ssa.Global)
					if !ok {
						continue
					}
					gv, ok := g.Object().(*types.Var)
					if !ok || f.Name() == "init" {
						continue
					}
					for _, ref := range *x.Referrers() {
						ci, ok := ref.(ssa.CallInstruction)
						if !ok {
							continue
						}
						name := ""
						if ci.Common().IsInvoke() {
							name = ci.Common().Method.Name()
						} else if obj := p.CalleeObj(ci); obj != nil {
							name = obj.Name()
						}
						readOnly := false
						for _, pre := range []string{"Write", "Equal", "Compare", "Contains", "Index", "HasPrefix", "HasSuffix", "Sum"} {
							if strings.HasPrefix(name, pre) {
								readOnly = true
							}
						}
						if bi, isBi := ci.Common().Value.(*ssa.Builtin); isBi && (bi.Name() == "len" || bi.Name() == "cap") {
							continue
						}
						add(gv, "", ref, !readOnly, false, "global buffer passed to "+name)
					}
				case *ssa.MapUpdate:
					if !rootFresh(x.Map) {
						add(p.containerRoot(x.Map, 0), "→elems", ins, true, false, "map update")
					}
				case *ssa.Lookup:
					if _, isMap := x.X.Type().Underlying().(*types.Map); isMap && !rootFresh(x.X) {
						add(p.containerRoot(x.X, 0), "→elems", ins, false, false, "map lookup")
					}
				case *ssa.Range:
					if !rootFresh(x.X) {
						add(p.containerRoot(x.X, 0), "→elems", ins, false, false, "range")
					}
				case ssa.CallInstruction:
					cc := x.Common()
					if bi, ok := cc.Value.(*ssa.Builtin); ok {
						switch bi.Name() {
						case "delete":
							if !rootFresh(cc.Args[0]) {
								add(p.containerRoot(cc.Args[0], 0), "→elems", ins, true, false, "delete from map")
							}
						}
						continue
					}
					obj := p.ExtCallee(x)
					if obj == nil {
						continue
					}
					// sync/atomic package functions on a field address
					if obj.Pkg() != nil && obj.Pkg().Path() == "sync/atomic" && len(cc.Args) > 0 {
						if fv, _ := fieldOfAddr(cc.Args[0]); fv != nil {
							w := !strings.HasPrefix(obj.Name(), "Load")
							add(fv, "", ins, w, true, "atomic."+obj.Name())
						}
						continue
					}
					for ai, a := range cc.Args {
						if ai == 0 && !cc.IsInvoke() && obj.Type().(*types.Signature).Recv() != nil {
							continue // the receiver is handled below
						}
						if f := osFileOperand(a); f != nil {
							if root := p.containerRoot(f, 0); root != nil && !rootFresh(f) {
								add(root, "→obj", ins, true, false, "file passed to "+obj.Name())
							}
						}
					}
					known, writes := stdMethodWrites(obj)
					if !known {
						continue
					}
					var recv ssa.Value
					if cc.IsInvoke() {
						recv = cc.Value
					} else if len(cc.Args) > 0 {
						recv = cc.Args[0]
					}
					if root := p.containerRoot(recv, 0); root != nil && !rootFresh(recv) {
						add(root, "→obj", ins, writes, stdMethodSynchronized(obj), "call "+obj.Name())
					}
				}
			}
		}
	}
	for cls := range ra.Accesses {
		ra.Classes = append(ra.Classes, cls)
	}
	sort.Strings(ra.Classes)
	c.memo[memoKey] = ra
	return ra
}

// thread-confined by API contract: one named exemption per type, with the reason
var raceExemptTypes = map[string]string{
	"Txn": "C12: each transaction is used by one goroutine (API contract), its fields are thread-confined",
}

func init() {
	register(&Rule{ID: "RACE.FIELDS", Engine: "E-LOCK+E-RACE", Min: 15,
		Desc: "every struct field, global and container of the module that is written after initialisation: each (write, access) pair that may run in concurrent roles holds a common lock, the writer exclusively, or both are atomic",
		Run:  runRace})
}

func runRace(c *Ctx, r *RuleRun) { runRaceWith(c, r, c.Locks(), c.Races()) }

func runRaceWith(c *Ctx, r *RuleRun, la *LockAnalysis, ra *RaceAnalysis) {
	p := c.P
	for _, cls := range ra.Classes {
		accs := ra.Accesses[cls]
		owner := p.fieldOwner(accs[0].Field)
		if why, ok := raceExemptTypes[owner]; ok {
			_ = why
			continue
		}
		// any write outside role I?
		var writes []Access
		for _, a := range accs {
			if a.Write && hasNonInitRole(la, a.Fn) {
				writes = append(writes, a)
			}
		}
		if len(writes) == 0 {
			continue
		}
		verdict, detail, pos := Hold, "", p.Pos(instrPos(writes[0].Ins))
		var guard map[string]bool
		pairs := 0
		for _, w := range writes {
			for _, a := range accs {
				if !hasNonInitRole(la, a.Fn) {
					continue
				}
				if !mayRunConcurrently(la, w.Fn, a.Fn, w.Ins == a.Ins) {
					continue
				}
				pairs++
				if w.Atomic && a.Atomic {
					continue
				}
				lw, lacc := la.Must[w.Ins], la.Must[a.Ins]
				common := map[string]bool{}
				for k, mw := range lw {
					if ma, ok := lacc[k]; ok {
						// the writer must hold it exclusively; if the other access is a write too it must as well
						if mw == modeW && (!a.Write || ma == modeW) {
							common[k] = true
						}
					}
				}
				if len(common) == 0 {
					if verdict == Hold {
						verdict = Violation
						pos = p.Pos(instrPos(w.Ins))
						detail = fmt.Sprintf("data race on %s: %s in %s (%s, roles %v) holds %v; %s in %s (%s, roles %v) holds %v: no common lock held exclusively by the writer",
							cls, w.What, p.FnName(w.Fn), p.Pos(instrPos(w.Ins)), la.RoleNames(w.Fn), lw,
							a.What, p.FnName(a.Fn), p.Pos(instrPos(a.Ins)), la.RoleNames(a.Fn), lacc)
					}
					continue
				}
				if guard == nil {
					guard = common
				} else {
					for k := range guard {
						if !common[k] {
							delete(guard, k)
						}
					}
				}
			}
		}
		if verdict == Hold {
			var gs []string
			for k := range guard {
				gs = append(gs, k)
			}
			sort.Strings(gs)
			detail = fmt.Sprintf("%d accesses, %d post-init writes, %d concurrent pairs; guarded by %v", len(accs), len(writes), pairs, gs)
			if pairs == 0 {
				detail = fmt.Sprintf("%d accesses, %d post-init writes, no pair can run concurrently under the role model", len(accs), len(writes))
			}
		}
		r.add(verdict, owner, cls, pos, detail)
	}
}

func hasNonInitRole(la *LockAnalysis, f *ssa.Function) bool {
	for r := range la.Roles[f] {
		if r != "I" {
			return true
		}
	}
	return false
}

func mayRunConcurrently(la *LockAnalysis, f, g *ssa.Function, sameIns bool) bool {
	for a := range la.Roles[f] {
		for b := range la.Roles[g] {
			if rolesConcurrent(a, b) {
				return true
			}
		}
	}
	return false
}
