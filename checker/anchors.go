package main

// Anchors of unexported functions: looked up by name first; if a refactoring renamed them, discovered by role
// (what the function does and who calls it), so that a rename alone never changes a verdict.

import (
	"go/token"
	"go/types"

	"golang.org/x/tools/go/ssa"
)

func (p *Prog) recvIs(f *ssa.Function, typ string) bool {
	if f == nil || f.Signature.Recv() == nil {
		return false
	}
	n := p.isModuleNamed(f.Signature.Recv().Type())
	return n != nil && n.Obj().Name() == typ && n.Obj().Pkg().Path() == p.ModPath
}

func (p *Prog) calleesIn(f *ssa.Function, keep func(g *ssa.Function, call ssa.CallInstruction) bool) []*ssa.Function {
	var out []*ssa.Function
	if f == nil {
		return nil
	}
	seen := map[*ssa.Function]bool{}
	eachInstr(f, func(ins ssa.Instruction) {
		ci, ok := ins.(ssa.CallInstruction)
		if !ok {
			return
		}
		for _, g := range p.Callees(ci) {
			if !seen[g] && keep(g, ci) {
				seen[g] = true
				out = append(out, g)
			}
		}
	})
	return out
}

func (p *Prog) loadsField(fv *types.Var) InstrPred {
	return func(ins ssa.Instruction) bool {
		u, ok := ins.(*ssa.UnOp)
		if !ok || u.Op != token.MUL || fv == nil {
			return false
		}
		f, _ := fieldOfAddr(u.X)
		return f == fv
	}
}

func (p *Prog) storesField(fv *types.Var) InstrPred {
	return func(ins ssa.Instruction) bool {
		st, ok := ins.(*ssa.Store)
		if !ok || fv == nil {
			return false
		}
		f, _ := fieldOfAddr(st.Addr)
		return f == fv
	}
}

func one(fs []*ssa.Function) *ssa.Function {
	if len(fs) == 1 {
		return fs[0]
	}
	return nil
}

func resultIs(f *ssa.Function, kinds ...types.BasicKind) bool {
	res := f.Signature.Results()
	if res.Len() != len(kinds) {
		return false
	}
	for i, k := range kinds {
		bt, ok := res.At(i).Type().Underlying().(*types.Basic)
		if !ok || bt.Kind() != k {
			return false
		}
	}
	return true
}

// FnOr: p.Fn by name, else discovery by role. Only the root package's unexported helpers are discoverable.
func (p *Prog) FnOr(rel, recv, name string) *ssa.Function {
	if f := p.Fn(rel, recv, name); f != nil {
		return f
	}
	if rel != "" {
		return nil
	}
	commit, get, begin, open := p.Fn("", "Txn", "Commit"), p.Fn("", "Txn", "Get"), p.Fn("", "DB", "Begin"), p.Fn("", "", "Open")
	readMark, commitMark := p.Field("", "oracle", "readMark"), p.Field("", "oracle", "commitMark")
	switch recv + "." + name {
	case "DB.search":
		return one(p.calleesIn(get, func(g *ssa.Function, _ ssa.CallInstruction) bool {
			return p.recvIs(g, "DB") && p.FuncMayDo(g, p.loadsField(p.Field("", "DB", "memtable")))
		}))
	case "levelManager.searchLowerBound":
		return one(p.calleesIn(p.FnOr("", "DB", "search"), func(g *ssa.Function, _ ssa.CallInstruction) bool {
			return p.recvIs(g, "levelManager") && p.FuncMayDo(g, p.loadsField(p.Field("", "levelManager", "levels")))
		}))
	case "levelManager.fetch":
		var out []*ssa.Function
		data := p.Named("table", "Data")
		for _, f := range p.Funcs {
			if !p.recvIs(f, "levelManager") || f.Signature.Results().Len() != 1 || data == nil {
				continue
			}
			if n := p.isModuleNamed(f.Signature.Results().At(0).Type()); n != data {
				continue
			}
			out = append(out, f)
		}
		return one(out)
	case "levelManager.recover", "memtable.recover":
		return one(p.calleesIn(open, func(g *ssa.Function, _ ssa.CallInstruction) bool {
			return p.recvIs(g, recv) && resultIs(g, types.Int64)
		}))
	case "oracle.readTs":
		return one(p.calleesIn(begin, func(g *ssa.Function, _ ssa.CallInstruction) bool {
			return p.recvIs(g, "oracle") && resultIs(g, types.Uint64)
		}))
	case "oracle.newCommitTs":
		return one(p.calleesIn(commit, func(g *ssa.Function, _ ssa.CallInstruction) bool {
			return p.recvIs(g, "oracle") && p.FuncMayDo(g, p.storesField(p.Field("", "oracle", "nextTs")))
		}))
	case "oracle.doneCommit":
		return one(p.calleesIn(commit, func(g *ssa.Function, _ ssa.CallInstruction) bool {
			return p.recvIs(g, "oracle") && commitMark != nil && p.FuncMayDo(g, markCalls(p, commitMark, "Done")) &&
				!p.FuncMayDo(g, p.storesField(p.Field("", "oracle", "nextTs")))
		}))
	case "oracle.doneRead":
		var out []*ssa.Function
		for _, f := range p.Funcs {
			// a method of the oracle, or (after a refactoring) a function of the package that is handed the oracle
			if f.Pkg != p.SSAPkg[p.ModPath] || readMark == nil || (f.Object() != nil && f.Object().Exported()) {
				continue
			}
			direct := false
			eachInstr(f, func(ins ssa.Instruction) {
				if markCalls(p, readMark, "Done")(ins) {
					direct = true
				}
			})
			if direct {
				out = append(out, f)
			}
		}
		return one(out)
	case "oracle.hasConflict":
		if f := one(p.calleesIn(p.FnOr("", "oracle", "newCommitTs"), func(g *ssa.Function, _ ssa.CallInstruction) bool {
			return p.recvIs(g, "oracle") && resultIs(g, types.Bool)
		})); f != nil {
			return f
		}
		// a plain function of the package that is handed the committed list and the transaction
		return one(p.calleesIn(p.FnOr("", "oracle", "newCommitTs"), func(g *ssa.Function, _ ssa.CallInstruction) bool {
			if g.Pkg != p.SSAPkg[p.ModPath] || !resultIs(g, types.Bool) || len(g.Blocks) == 0 {
				return false
			}
			takesTxn := false
			for _, pr := range g.Params {
				t := pr.Type()
				if pt, ok := t.Underlying().(*types.Pointer); ok {
					t = pt.Elem()
				}
				if n := p.isModuleNamed(t); n != nil && n.Obj().Name() == "Txn" {
					takesTxn = true
				}
			}
			return takesTxn
		}))
	case "oracle.cleanUpCommittedTxns":
		return one(p.calleesIn(p.FnOr("", "oracle", "newCommitTs"), func(g *ssa.Function, _ ssa.CallInstruction) bool {
			stores := false
			eachInstr(g, func(ins ssa.Instruction) {
				if p.storesField(p.Field("", "oracle", "committedTxns"))(ins) {
					stores = true
				}
			})
			return p.recvIs(g, "oracle") && g.Signature.Results().Len() == 0 && stores
		}))
	case "levelManager.discardStaleEntries":
		var out []*ssa.Function
		for _, f := range p.Funcs {
			if !p.recvIs(f, "levelManager") || readMark == nil {
				continue
			}
			hasMap := false
			eachInstr(f, func(ins ssa.Instruction) {
				if _, ok := ins.(*ssa.MapUpdate); ok {
					hasMap = true
				}
			})
			if hasMap && p.FuncMayDo(f, markCalls(p, readMark, "DoneUntil")) {
				out = append(out, f)
			}
		}
		if len(out) == 0 {
			// a plain function that is handed the watermark: entries in, entries out, a map of the newest versions inside
			entry := p.Named("types", "Entry")
			isEntries := func(t types.Type) bool {
				sl, ok := t.Underlying().(*types.Slice)
				return ok && entry != nil && p.isModuleNamed(sl.Elem()) == entry
			}
			for _, f := range p.Funcs {
				if f.Pkg != p.SSAPkg[p.ModPath] || f.Signature.Results().Len() != 1 || !isEntries(f.Signature.Results().At(0).Type()) {
					continue
				}
				takes, hasMap := false, false
				for _, q := range f.Params {
					if isEntries(q.Type()) {
						takes = true
					}
				}
				eachInstr(f, func(ins ssa.Instruction) {
					if _, ok := ins.(*ssa.MapUpdate); ok {
						hasMap = true
					}
				})
				if takes && hasMap {
					out = append(out, f)
				}
			}
		}
		return one(out)
	case "Txn.modify":
		var out []*ssa.Function
		pending := p.Field("", "Txn", "pendingWrites")
		for _, f := range p.Funcs {
			if !p.recvIs(f, "Txn") {
				continue
			}
			upd := false
			eachInstr(f, func(ins ssa.Instruction) {
				if mu, ok := ins.(*ssa.MapUpdate); ok && isLoadOfField(mu.Map, pending) {
					upd = true
				}
			})
			if upd {
				out = append(out, f)
			}
		}
		return one(out)
	}
	return nil
}
