package main

// Minimal unified-diff application (for replaying /verif/seeded/*/patch.diff in memory in the thorough tier).

import (
	"encoding/json"
	"fmt"
	"os"
	"path/filepath"
	"regexp"
	"sort"
	"strconv"
	"strings"
)

type fileDiff struct {
	path  string
	hunks []hunk
}

type hunk struct {
	oldStart int
	lines    []string // with their leading ' ', '+', '-'
}

var hunkRe = regexp.MustCompile(`^@@ -(\d+)(?:,\d+)? \+(\d+)(?:,\d+)? @@`)

func parseUnifiedDiff(text string) []fileDiff {
	var out []fileDiff
	var cur *fileDiff
	var h *hunk
	for _, line := range strings.Split(text, "\n") {
		switch {
		case strings.HasPrefix(line, "diff --git "):
			cur, h = nil, nil
		case strings.HasPrefix(line, "+++ "):
			p := strings.TrimPrefix(line, "+++ ")
			p = strings.TrimPrefix(p, "b/")
			out = append(out, fileDiff{path: strings.TrimSpace(p)})
			cur = &out[len(out)-1]
			h = nil
		case strings.HasPrefix(line, "--- "), strings.HasPrefix(line, "index "), strings.HasPrefix(line, "new file"), strings.HasPrefix(line, "deleted file"):
		case strings.HasPrefix(line, "@@ "):
			if cur == nil {
				continue
			}
			m := hunkRe.FindStringSubmatch(line)
			if m == nil {
				continue
			}
			n, _ := strconv.Atoi(m[1])
			cur.hunks = append(cur.hunks, hunk{oldStart: n})
			h = &cur.hunks[len(cur.hunks)-1]
		case strings.HasPrefix(line, "\\ No newline"):
		default:
			if h != nil && (strings.HasPrefix(line, " ") || strings.HasPrefix(line, "+") || strings.HasPrefix(line, "-") || line == "") {
				if line == "" {
					line = " "
				}
				h.lines = append(h.lines, line)
			}
		}
	}
	return out
}

// applyHunks applies the hunks to src, locating each hunk by its context (searching near the recorded position).
func applyHunks(src string, hunks []hunk) (string, error) {
	lines := strings.Split(src, "\n")
	offset := 0
	for _, h := range hunks {
		var oldL, newL []string
		for _, l := range h.lines {
			switch l[0] {
			case ' ':
				oldL = append(oldL, l[1:])
				newL = append(newL, l[1:])
			case '-':
				oldL = append(oldL, l[1:])
			case '+':
				newL = append(newL, l[1:])
			}
		}
		// drop trailing empty context produced by the final newline of the diff text
		for len(oldL) > 0 && len(newL) > 0 && oldL[len(oldL)-1] == "" && newL[len(newL)-1] == "" && len(h.lines) > 0 && h.lines[len(h.lines)-1] == " " {
			oldL, newL = oldL[:len(oldL)-1], newL[:len(newL)-1]
			h.lines = h.lines[:len(h.lines)-1]
		}
		want := h.oldStart - 1 + offset
		pos := -1
		for d := 0; d < len(lines)+1 && pos < 0; d++ {
			for _, cand := range []int{want - d, want + d} {
				if cand < 0 || cand+len(oldL) > len(lines) {
					continue
				}
				ok := true
				for i := range oldL {
					if lines[cand+i] != oldL[i] {
						ok = false
						break
					}
				}
				if ok {
					pos = cand
					break
				}
			}
		}
		if pos < 0 {
			return "", fmt.Errorf("hunk at line %d does not apply", h.oldStart)
		}
		lines = append(append(append([]string{}, lines[:pos]...), newL...), lines[pos+len(oldL):]...)
		offset += len(newL) - len(oldL)
	}
	return strings.Join(lines, "\n"), nil
}

type seedMeta struct {
	Seed     string `json:"seed"`
	Property string `json:"property"`
	Change   string `json:"change"`
}

// seedOverlays: for every stored seed that targets the property, the overlay it produces on the current tree.
func seedsFor(prop, verif string) []seedMeta {
	var out []seedMeta
	metas, _ := filepath.Glob(filepath.Join(verif, "seeded", "*", "meta.json"))
	sort.Strings(metas)
	for _, m := range metas {
		b, err := os.ReadFile(m)
		if err != nil {
			continue
		}
		var sm seedMeta
		if json.Unmarshal(b, &sm) != nil || sm.Property != prop {
			continue
		}
		sm.Seed = filepath.Base(filepath.Dir(m))
		out = append(out, sm)
	}
	return out
}

func seedOverlay(repo, verif, seed string) (map[string][]byte, error) {
	return diffOverlay(repo, filepath.Join(verif, "seeded", seed, "patch.diff"))
}

func diffOverlay(repo, diffPath string) (map[string][]byte, error) {
	b, err := os.ReadFile(diffPath)
	if err != nil {
		return nil, err
	}
	ov := map[string][]byte{}
	for _, fd := range parseUnifiedDiff(string(b)) {
		if strings.HasSuffix(fd.path, "_test.go") {
			continue
		}
		path := filepath.Join(repo, fd.path)
		src, err := os.ReadFile(path)
		if err != nil {
			return nil, err
		}
		res, err := applyHunks(string(src), fd.hunks)
		if err != nil {
			return nil, fmt.Errorf("%s: %v", fd.path, err)
		}
		ov[path] = []byte(res)
	}
	if len(ov) == 0 {
		return nil, fmt.Errorf("empty patch")
	}
	return ov, nil
}
