package main

// C10 — table lookup: lower bound over the blocks' upper keys (index block), then lower bound inside the block.
// The rules decide that the code is an instance of that two-stage scheme clause by clause (template conformance);
// they do not execute or enumerate anything.

import (
	"fmt"
	"go/token"
	"go/types"

	"golang.org/x/tools/go/ssa"
)

func init() {
	register(&Rule{ID: "LOOKUP.STAGES", Engine: "E-DEP", Min: 7,
		Desc: "a table lookup is: filter of this table, lower-bound search of this table's index with the versioned key, fetch of exactly the block it names from this table's file, lower-bound search of that block with the same key; the entry returned is that search's result",
		Run:  runLookupStages})
	register(&Rule{ID: "LOOKUP.BSEARCH", Engine: "E-SIB+E-GUARD", Min: 14,
		Desc: "the index search (over each block's EndKey) and the block search (over each entry's Key) are instances of the lower-bound binary-search template: bounds, loop condition, midpoint, predicate CompareKeys(elem, key) >= 0, the two updates, and the result",
		Run:  runLookupBsearch})
	register(&Rule{ID: "LOOKUP.INDEXKEYS", Engine: "E-DEP", Min: 6,
		Desc: "table.Build describes each data block by the key of its first and of its last entry, and by the offset/length of exactly the bytes it writes for that block, in order",
		Run:  runLookupIndexKeys})
	register(&Rule{ID: "LOOKUP.FETCH", Engine: "E-DEP", Min: 4,
		Desc: "fetch reads Length bytes at Offset (from the start of the file) of the handle it was given and decodes exactly those bytes",
		Run:  runLookupFetch})
}

// ---- anchors ----

type lookupAnchors struct {
	slb        *ssa.Function
	idxCall    *ssa.Call
	idxM       *ssa.Function
	dataCall   *ssa.Call
	dataM      *ssa.Function
	dataFn     *ssa.Function // the function containing dataCall (slb itself or a helper)
	helperCall *ssa.Call     // call in slb to dataFn (nil when dataFn == slb)
	fetch      *ssa.Function
	fetchCall  *ssa.Call // in dataFn
	problems   []string
}

func methodOn(p *Prog, g *ssa.Function, named *types.Named) bool {
	if g == nil || named == nil || g.Signature.Recv() == nil {
		return false
	}
	return p.isModuleNamed(g.Signature.Recv().Type()) == named
}

func resultsAre(p *Prog, g *ssa.Function, first *types.Named) bool {
	res := g.Signature.Results()
	if res.Len() != 2 || first == nil {
		return false
	}
	if p.isModuleNamed(res.At(0).Type()) != first {
		return false
	}
	bt, ok := res.At(1).Type().Underlying().(*types.Basic)
	return ok && bt.Kind() == types.Bool
}

func getLookupAnchors(c *Ctx) *lookupAnchors {
	if a, ok := c.memo["lookupAnchors"].(*lookupAnchors); ok {
		return a
	}
	p := c.P
	a := &lookupAnchors{}
	c.memo["lookupAnchors"] = a
	a.slb = p.FnOr("", "levelManager", "searchLowerBound")
	a.fetch = p.FnOr("", "levelManager", "fetch")
	index, data, handle, entry := p.Named("table", "Index"), p.Named("table", "Data"), p.Named("table", "BlockHandle"), p.Named("types", "Entry")
	if a.slb == nil || a.fetch == nil || index == nil || data == nil || handle == nil || entry == nil {
		a.problems = append(a.problems, "anchors not found (levelManager.searchLowerBound, levelManager.fetch, table.Index, table.Data, table.BlockHandle, types.Entry)")
		return a
	}
	var idxCalls, dataCalls []*ssa.Call
	scan := func(f *ssa.Function) {
		eachInstr(f, func(ins ssa.Instruction) {
			cl, ok := ins.(*ssa.Call)
			if !ok {
				return
			}
			g := cl.Call.StaticCallee()
			switch {
			case methodOn(p, g, index) && resultsAre(p, g, handle):
				idxCalls = append(idxCalls, cl)
			case methodOn(p, g, data) && resultsAre(p, g, entry):
				dataCalls = append(dataCalls, cl)
			}
		})
	}
	scan(a.slb)
	for _, g := range p.DirectCallees(a.slb) {
		if p.InModule(g) && g != a.slb && g.Pkg == a.slb.Pkg {
			scan(g)
		}
	}
	if len(idxCalls) != 1 || len(dataCalls) != 1 {
		a.problems = append(a.problems, fmt.Sprintf("expected one index search and one block search on the lookup path, found %d and %d", len(idxCalls), len(dataCalls)))
		return a
	}
	a.idxCall, a.idxM = idxCalls[0], idxCalls[0].Call.StaticCallee()
	a.dataCall, a.dataM = dataCalls[0], dataCalls[0].Call.StaticCallee()
	a.dataFn = a.dataCall.Parent()
	if a.idxCall.Parent() != a.slb {
		a.problems = append(a.problems, "the index search is not called from the table loop of "+p.FnName(a.slb))
	}
	if a.dataFn != a.slb {
		hc := callsTo(p, a.slb, a.dataFn)
		if len(hc) != 1 {
			a.problems = append(a.problems, fmt.Sprintf("%d calls of %s in %s", len(hc), p.FnName(a.dataFn), p.FnName(a.slb)))
			return a
		}
		a.helperCall = hc[0]
	}
	fc := callsTo(p, a.dataFn, a.fetch)
	if len(fc) != 1 {
		a.problems = append(a.problems, fmt.Sprintf("%d calls of fetch in %s", len(fc), p.FnName(a.dataFn)))
		return a
	}
	a.fetchCall = fc[0]
	return a
}

// inSlb maps a value of dataFn to the value it stands for in slb (parameters of the helper → arguments of its call).
func (a *lookupAnchors) inSlb(v ssa.Value) ssa.Value {
	v = stripValue(v)
	if a.helperCall == nil {
		return v
	}
	if pr, ok := v.(*ssa.Parameter); ok && pr.Parent() == a.dataFn {
		for i, q := range a.dataFn.Params {
			if q == pr && i < len(a.helperCall.Call.Args) {
				return stripValue(a.helperCall.Call.Args[i])
			}
		}
	}
	return v
}

func keyParam(f *ssa.Function) *ssa.Parameter {
	for i, pr := range f.Params {
		if i == 0 && f.Signature.Recv() != nil {
			continue
		}
		if bt, ok := pr.Type().Underlying().(*types.Basic); ok && bt.Info()&types.IsString != 0 {
			return pr
		}
	}
	return nil
}

// allocBase: for &x.f or a load of it, the base x.
func fieldBase(v ssa.Value) ssa.Value {
	v = stripValue(v)
	if u, ok := v.(*ssa.UnOp); ok && u.Op == token.MUL {
		v = u.X
	}
	if fa, ok := v.(*ssa.FieldAddr); ok {
		return fa.X
	}
	if f, ok := v.(*ssa.Field); ok {
		return f.X
	}
	return nil
}

func runLookupStages(c *Ctx, r *RuleRun) {
	p := c.P
	a := getLookupAnchors(c)
	if len(a.problems) > 0 {
		for _, m := range a.problems {
			r.Undecided("-", "lookup path", "", m)
		}
		return
	}
	fn := p.FnName(a.slb)
	key := keyParam(a.slb)
	if key == nil {
		r.Undecided(fn, "key parameter", "", "no key parameter")
		return
	}
	// 1. the index is searched with the versioned key itself
	r.Check(stripValue(a.idxCall.Call.Args[1]) == ssa.Value(key), fn, "index search key", p.Pos(instrPos(a.idxCall)),
		"the index is searched with the versioned key parameter", "the index search does not get the versioned key the lookup was called with")
	// 2. the block is searched with the same key
	r.Check(a.inSlb(a.dataCall.Call.Args[1]) == ssa.Value(key), p.FnName(a.dataFn), "block search key", p.Pos(instrPos(a.dataCall)),
		"the block is searched with the same versioned key", "the block search does not get the versioned key the lookup was called with")
	// 3. the block searched is the one fetch returned
	recvOK := p.dependsOn(a.dataCall.Call.Args[0], func(x ssa.Value) bool { return x == ssa.Value(a.fetchCall) })
	if !recvOK {
		// receiver is the address of a local cell holding the fetch result
		if al, ok := a.dataCall.Call.Args[0].(*ssa.Alloc); ok {
			for _, ref := range *al.Referrers() {
				if st, ok := ref.(*ssa.Store); ok && st.Addr == al && st.Val == ssa.Value(a.fetchCall) {
					recvOK = true
				}
			}
		}
	}
	r.Check(recvOK, p.FnName(a.dataFn), "block searched = block fetched", p.Pos(instrPos(a.dataCall)), "the search runs on fetch's result", "the block that is searched is not the block that was fetched")
	// 4. the fetched block is the one the index search named
	sig := a.fetch.Signature
	var hArg, lvlArg, idxArg ssa.Value
	ints := 0
	for i := 0; i < sig.Params().Len(); i++ {
		arg := a.fetchCall.Call.Args[i+1]
		if p.isModuleNamed(sig.Params().At(i).Type()) == p.Named("table", "BlockHandle") {
			hArg = arg
		} else if bt, ok := sig.Params().At(i).Type().Underlying().(*types.Basic); ok && bt.Kind() == types.Int {
			if ints == 0 {
				lvlArg = arg
			} else {
				idxArg = arg
			}
			ints++
		}
	}
	if hArg == nil || lvlArg == nil || idxArg == nil {
		r.Undecided(p.FnName(a.fetch), "fetch(level, idx, handle)", "", "unexpected signature")
		return
	}
	h := a.inSlb(hArg)
	ex, isEx := h.(*ssa.Extract)
	r.Check(isEx && ex.Tuple == ssa.Value(a.idxCall) && ex.Index == 0, fn, "block fetched = block named by the index search", p.Pos(instrPos(a.fetchCall)),
		"the handle passed to fetch is the index search's result", "the block handle that is fetched is not the one the index search returned")
	// 5. same table: the file index and the filter belong to the handle whose index was searched
	base := fieldBase(a.idxCall.Call.Args[0])
	lidx := p.Field("", "tableHandle", "levelIdx")
	iv := a.inSlb(idxArg)
	fv, b2 := loadedField(iv)
	r.Check(base != nil && fv == lidx && lidx != nil && b2 == base, fn, "file of the same table", p.Pos(instrPos(a.fetchCall)),
		"fetch reads the file of the table handle whose index was searched", "the block is fetched from another table's file than the one whose index was searched")
	filt := p.Fn("pkg/filter", "Filter", "Contains")
	nf := 0
	if filt != nil {
		for _, fc := range callsTo(p, a.slb, filt) {
			nf++
			r.Check(fieldBase(fc.Call.Args[0]) == base, fn, "filter of the same table", p.Pos(instrPos(fc)), "the filter consulted belongs to the same table handle",
				"the bloom filter consulted is not the one of the table that is then searched")
			r.Check(dominatesInstr(fc, a.idxCall), fn, "filter before search", p.Pos(instrPos(fc)), "consulted before the index search", "the filter is consulted after the search it is meant to save")
		}
	}
	if nf == 0 {
		r.Hold(fn, "filter of the same table", p.Pos(a.slb.Pos()), "no filter consulted (never a wrong denial)")
		r.Hold(fn, "filter before search", p.Pos(a.slb.Pos()), "no filter consulted")
	}
	// 6. level argument = the level whose list is walked
	lv := a.inSlb(lvlArg)
	levels := p.Field("", "levelManager", "levels")
	okLevel := false
	eachInstr(a.slb, func(ins ssa.Instruction) {
		if ia, ok := ins.(*ssa.IndexAddr); ok && isLoadOfField(ia.X, levels) && ia.Index == lv {
			if p.dependsOn(baseStored(base), func(x ssa.Value) bool { return x == ssa.Value(ia) }) || elementFrom(p, base, ia) {
				okLevel = true
			}
		}
	})
	r.Check(okLevel, fn, "file of the same level", p.Pos(instrPos(a.fetchCall)), "the level passed to fetch indexes the list being walked", "the level passed to fetch is not the level of the list the table handle came from")
	// 7. a hit returns the block search's entry
	tail := ssa.Value(a.dataCall)
	if a.helperCall != nil {
		tail = a.helperCall
	}
	nret := 0
	eachInstr(a.slb, func(ins ssa.Instruction) {
		ret, ok := ins.(*ssa.Return)
		if !ok || len(ret.Results) != 2 {
			return
		}
		okv := retOperand(ret, 1)
		if k, isC := okv.(*ssa.Const); !isC || k.Value == nil || k.Value.String() != "true" {
			return
		}
		nret++
		dep := p.dependsOn(retOperand(ret, 0), func(x ssa.Value) bool { return x == tail })
		r.Check(dep, fn, "hit returns the block search's entry", p.Pos(instrPos(ret)), "the entry returned is the result of the block search", "a found-return hands out an entry that is not the block search's result")
	})
	if nret == 0 {
		r.Undecided(fn, "hit returns the block search's entry", "", "no found-return recognised")
	}
	// 8. every level and every table is consulted until one answers: the loops of the lookup are left only through
	// their own condition (list/range exhausted) or by a found-return
	isFoundRet := func(b *ssa.BasicBlock) bool {
		if len(b.Instrs) == 0 {
			return false
		}
		ret, ok := b.Instrs[len(b.Instrs)-1].(*ssa.Return)
		if !ok || len(ret.Results) != 2 {
			return false
		}
		return isConstBool(retOperand(ret, 1), true)
	}
	nl := 0
	for _, lp := range naturalLoops(a.slb) {
		nl++
		bad := ""
		var badPos token.Pos
		for blk := range lp.body {
			for _, s := range blk.Succs {
				if lp.body[s] || blk == lp.header {
					continue
				}
				// follow plain jumps (rundefers blocks etc.) to see where this exit leads
				t, prev := s, blk
				for i := 0; i < 4 && len(t.Succs) == 1 && !isFoundRet(t); i++ {
					if _, isJump := t.Instrs[len(t.Instrs)-1].(*ssa.Jump); !isJump {
						break
					}
					prev, t = t, t.Succs[0]
				}
				if isFoundRet(t) || isFoundRet(s) {
					continue
				}
				// named results with one exit: on this way out the `found` result is the constant true
				if len(t.Instrs) > 0 {
					if ret, isRet := t.Instrs[len(t.Instrs)-1].(*ssa.Return); isRet && len(ret.Results) == 2 {
						if ph, isPhi := retOperand(ret, 1).(*ssa.Phi); isPhi && ph.Block() == t {
							viaTrue := false
							for k, pb := range t.Preds {
								if pb == prev && k < len(ph.Edges) && isConstBool(ph.Edges[k], true) {
									viaTrue = true
								}
							}
							if viaTrue {
								continue
							}
						}
						// … or (results kept in cells because the function defers) the block that leaves the loop has just
						// stored true into the `found` cell
						if ld, isLd := ret.Results[1].(*ssa.UnOp); isLd {
							if cell, isCell := ld.X.(*ssa.Alloc); isCell {
								setTrue := false
								// the blocks on the way from the loop to the return (the break block itself lies outside the
								// natural loop: it cannot come back)
								chain := []*ssa.BasicBlock{blk}
								for c := s; c != t && len(chain) < 6; c = c.Succs[0] {
									chain = append(chain, c)
									if len(c.Succs) != 1 {
										break
									}
								}
								for _, cb := range chain {
									for _, i2 := range cb.Instrs {
										if st, isSt := i2.(*ssa.Store); isSt && st.Addr == ssa.Value(cell) {
											setTrue = isConstBool(st.Val, true)
										}
									}
								}
								if setTrue {
									continue
								}
							}
						}
					}
				}
				if len(blk.Instrs) > 0 {
					if _, isPanic := blk.Instrs[len(blk.Instrs)-1].(*ssa.Panic); isPanic {
						continue
					}
				}
				bad = "the loop is left from " + blk.Comment + " without an answer"
				badPos = instrPos(blk.Instrs[len(blk.Instrs)-1])
			}
		}
		pos := instrPos(lp.header.Instrs[len(lp.header.Instrs)-1])
		if bad != "" {
			pos = badPos
		}
		r.Check(bad == "", fn, "every table is consulted until one answers", p.Pos(pos), "left only through the loop's own condition or a found-return",
			"the walk over levels/tables is cut short ("+bad+"): a table that holds the newest visible version further on is never consulted (e.g. after a bloom-filter false positive of an earlier table)")
	}
	if nl == 0 {
		r.Undecided(fn, "every table is consulted until one answers", "", "no loop over levels/tables found")
	}
}

type natLoop struct {
	header *ssa.BasicBlock
	body   map[*ssa.BasicBlock]bool
}

// naturalLoops of a function: for every back edge p→h (h dominates p) the blocks that reach p without passing h.
func naturalLoops(f *ssa.Function) []natLoop {
	byHeader := map[*ssa.BasicBlock]map[*ssa.BasicBlock]bool{}
	var order []*ssa.BasicBlock
	for _, b := range f.Blocks {
		for _, s := range b.Succs {
			if !s.Dominates(b) {
				continue
			}
			body := byHeader[s]
			if body == nil {
				body = map[*ssa.BasicBlock]bool{s: true}
				byHeader[s] = body
				order = append(order, s)
			}
			stack := []*ssa.BasicBlock{b}
			for len(stack) > 0 {
				x := stack[len(stack)-1]
				stack = stack[:len(stack)-1]
				if body[x] {
					continue
				}
				body[x] = true
				stack = append(stack, x.Preds...)
			}
		}
	}
	var out []natLoop
	for _, h := range order {
		out = append(out, natLoop{h, byHeader[h]})
	}
	return out
}

// baseStored: the value stored into a local cell (th := e.Value.(tableHandle)).
func baseStored(base ssa.Value) ssa.Value {
	if al, ok := base.(*ssa.Alloc); ok {
		for _, ref := range *al.Referrers() {
			if st, ok := ref.(*ssa.Store); ok && st.Addr == al {
				return st.Val
			}
		}
	}
	return base
}

// elementFrom: the table handle in base was taken from an element of the list loaded through ia.
func elementFrom(p *Prog, base ssa.Value, ia *ssa.IndexAddr) bool {
	v := baseStored(base)
	seen := map[ssa.Value]bool{}
	var walk func(x ssa.Value, d int) bool
	walk = func(x ssa.Value, d int) bool {
		if x == nil || d > 12 || seen[x] {
			return false
		}
		seen[x] = true
		if x == ssa.Value(ia) {
			return true
		}
		switch y := x.(type) {
		case *ssa.TypeAssert:
			return walk(y.X, d+1)
		case *ssa.UnOp:
			return walk(y.X, d+1)
		case *ssa.FieldAddr:
			return walk(y.X, d+1)
		case *ssa.Field:
			return walk(y.X, d+1)
		case *ssa.Phi:
			for _, e := range y.Edges {
				if walk(e, d+1) {
					return true
				}
			}
		case *ssa.Call:
			for _, arg := range y.Call.Args {
				if walk(arg, d+1) {
					return true
				}
			}
		case *ssa.Extract:
			return walk(y.Tuple, d+1)
		case *ssa.ChangeType:
			return walk(y.X, d+1)
		}
		return false
	}
	return walk(v, 0)
}

// ---- binary-search template ----

type bsearch struct {
	p         *Prog
	f         *ssa.Function
	r         *RuleRun
	fn        string
	role      string // "index" or "block"
	cont      *types.Var
	elemField *types.Var
	key       *ssa.Parameter
	// idxResult: the function hands out the position it found (int, bool); a wrapper turns it into the element
	idxResult bool
	// sentinel: the position is the only result and a negative value says "not found" (lowerBoundIndex(key) int)
	sentinel bool
}

func (b *bsearch) hold(construct string, pos token.Pos, detail string) {
	b.r.Hold(b.fn, b.role+": "+construct, b.p.Pos(pos), detail)
}
func (b *bsearch) viol(construct string, pos token.Pos, detail string) {
	b.r.Viol(b.fn, b.role+": "+construct, b.p.Pos(pos), detail)
}
func (b *bsearch) undecided(construct string, detail string) {
	b.r.Undecided(b.fn, b.role+": "+construct, b.p.Pos(b.f.Pos()), detail)
}
func (b *bsearch) check(ok bool, construct string, pos token.Pos, hold, viol string) {
	if ok {
		b.hold(construct, pos, hold)
	} else {
		b.viol(construct, pos, viol)
	}
}

// elem: v is X.cont[idx].field (or X.cont[idx] when field == nil is asked for) → idx.
func (b *bsearch) elem(v ssa.Value, wantField bool) (idx ssa.Value, fld *types.Var, ok bool) {
	v = stripValue(v)
	var addr ssa.Value
	if wantField {
		switch x := v.(type) {
		case *ssa.UnOp:
			if x.Op != token.MUL {
				return nil, nil, false
			}
			fa, isFA := x.X.(*ssa.FieldAddr)
			if !isFA {
				return nil, nil, false
			}
			fld, _ = fieldOfAddr(fa)
			addr = fa.X
			// field of a local copy of the element
			if al, isAl := fa.X.(*ssa.Alloc); isAl {
				sv := baseStored(al)
				if u, isU := sv.(*ssa.UnOp); isU && u.Op == token.MUL {
					addr = u.X
				}
			}
		case *ssa.Field:
			st := x.X.Type().Underlying().(*types.Struct)
			fld = st.Field(x.Field)
			u, isU := x.X.(*ssa.UnOp)
			if !isU || u.Op != token.MUL {
				return nil, nil, false
			}
			addr = u.X
		default:
			return nil, nil, false
		}
	} else {
		u, isU := v.(*ssa.UnOp)
		if !isU || u.Op != token.MUL {
			return nil, nil, false
		}
		addr = u.X
		if al, isAl := addr.(*ssa.Alloc); isAl { // result cell / local copy
			sv := baseStored(al)
			if u2, isU2 := sv.(*ssa.UnOp); isU2 && u2.Op == token.MUL {
				addr = u2.X
			}
		}
	}
	ia, isIA := addr.(*ssa.IndexAddr)
	if !isIA {
		return nil, nil, false
	}
	cf, _ := loadedField(ia.X)
	if cf != b.cont {
		return nil, nil, false
	}
	return ia.Index, fld, true
}

func (b *bsearch) isKey(v ssa.Value) bool {
	v = stripValue(v)
	if v == ssa.Value(b.key) {
		return true
	}
	// inside a closure: load of the captured key cell
	if u, ok := v.(*ssa.UnOp); ok && u.Op == token.MUL {
		if fv, ok := u.X.(*ssa.FreeVar); ok {
			if pt, ok := fv.Type().Underlying().(*types.Pointer); ok && types.Identical(pt.Elem(), b.key.Type()) {
				return true
			}
		}
		if al, ok := u.X.(*ssa.Alloc); ok && stripValue(baseStored(al)) == ssa.Value(b.key) {
			return true
		}
	}
	return false
}

// pred: cond is (CompareKeys(elem(idx), key) op 0) → canonical op with elem on the left, for cond being true.
func (b *bsearch) pred(cond ssa.Value) (op string, idx ssa.Value, fld *types.Var, ok bool) {
	cmpKeys := b.p.Fn("types", "", "CompareKeys")
	c := canonCond(cond, true)
	if c.Y == nil {
		return "", nil, nil, false
	}
	x, y := c.X, c.Y
	oper := c.Op
	call := callTo(b.p, x, cmpKeys)
	if call == nil {
		call = callTo(b.p, y, cmpKeys)
		x, y = y, x
		oper = flipCmp(oper)
	}
	if call == nil {
		return "", nil, nil, false
	}
	if k, isK := constInt(y); !isK || k != 0 {
		return "", nil, nil, false
	}
	a0, a1 := call.Call.Args[0], call.Call.Args[1]
	if i, f, okE := b.elem(a0, true); okE && b.isKey(a1) {
		return oper, i, f, true
	}
	if i, f, okE := b.elem(a1, true); okE && b.isKey(a0) {
		return flipCmp(oper), i, f, true
	}
	return "", nil, nil, false
}

func isMid(v, low, high ssa.Value) bool {
	v = stripValue(v)
	bo, ok := v.(*ssa.BinOp)
	if !ok {
		return false
	}
	half := func(x ssa.Value, inner func(ssa.Value) bool) bool {
		x = stripValue(x)
		h, ok := x.(*ssa.BinOp)
		if !ok {
			return false
		}
		k, isK := constInt(h.Y)
		if !(h.Op == token.SHR && isK && k == 1) && !(h.Op == token.QUO && isK && k == 2) {
			return false
		}
		return inner(stripValue(h.X))
	}
	diff := func(x ssa.Value) bool {
		d, ok := x.(*ssa.BinOp)
		return ok && d.Op == token.SUB && stripValue(d.X) == high && stripValue(d.Y) == low
	}
	sum := func(x ssa.Value) bool {
		s, ok := x.(*ssa.BinOp)
		return ok && s.Op == token.ADD && ((stripValue(s.X) == low && stripValue(s.Y) == high) || (stripValue(s.X) == high && stripValue(s.Y) == low))
	}
	if bo.Op == token.ADD {
		if stripValue(bo.X) == low && half(bo.Y, diff) {
			return true
		}
		if stripValue(bo.Y) == low && half(bo.X, diff) {
			return true
		}
	}
	return half(v, sum)
}

func isPlus(v, base ssa.Value, k int64) bool {
	bo, ok := stripValue(v).(*ssa.BinOp)
	if !ok {
		return false
	}
	c, isC := constInt(bo.Y)
	if !isC || stripValue(bo.X) != base {
		return false
	}
	return (bo.Op == token.ADD && c == k) || (bo.Op == token.SUB && c == -k)
}

type phiLeaf struct {
	val  ssa.Value
	pred *ssa.BasicBlock
}

// leaves of a loop-header phi: values flowing in over in-loop edges, with the block they come from (inner merge phis
// are looked through), and the values flowing in from outside the loop.
func phiLeaves(ph *ssa.Phi, header *ssa.BasicBlock) (inits []ssa.Value, body []phiLeaf) {
	seen := map[*ssa.Phi]bool{}
	var walk func(q *ssa.Phi)
	walk = func(q *ssa.Phi) {
		if seen[q] {
			return
		}
		seen[q] = true
		for i, e := range q.Edges {
			pred := q.Block().Preds[i]
			if !header.Dominates(pred) {
				inits = append(inits, e)
				continue
			}
			if q2, ok := e.(*ssa.Phi); ok && q2 != ph && q2.Block() != header && header.Dominates(q2.Block()) {
				walk(q2)
				continue
			}
			body = append(body, phiLeaf{e, pred})
		}
	}
	walk(ph)
	return
}

func inRegion(start, b *ssa.BasicBlock) bool { return start == b || start.Dominates(b) }

func (b *bsearch) run() {
	f := b.f
	if len(f.Blocks) == 0 {
		b.undecided("template", "no body")
		return
	}
	// (D) sort.Search form
	var ssCall *ssa.Call
	eachInstr(f, func(ins ssa.Instruction) {
		if cl, ok := ins.(*ssa.Call); ok {
			if obj := b.p.CalleeObj(cl); obj != nil && funcIs(obj, "sort", "", "Search") {
				ssCall = cl
			}
		}
	})
	if ssCall != nil {
		b.runSortSearch(ssCall)
		return
	}
	// loop header: low <= high (closed) or low < high (half-open)
	var header *ssa.BasicBlock
	var hif *ssa.If
	var low, high *ssa.Phi
	closed := true
	for _, blk := range f.Blocks {
		if len(blk.Instrs) == 0 {
			continue
		}
		iff, ok := blk.Instrs[len(blk.Instrs)-1].(*ssa.If)
		if !ok || !inLoop(blk) {
			continue
		}
		c := canonCond(iff.Cond, true)
		if c.Y == nil {
			continue
		}
		px, okx := c.X.(*ssa.Phi)
		py, oky := c.Y.(*ssa.Phi)
		if !okx || !oky || px.Block() != blk || py.Block() != blk {
			continue
		}
		switch c.Op {
		case "<=":
			low, high, closed = px, py, true
		case ">=":
			low, high, closed = py, px, true
		case "<":
			low, high, closed = px, py, false
		case ">":
			low, high, closed = py, px, false
		default:
			continue
		}
		header, hif = blk, iff
		break
	}
	if header == nil {
		b.undecided("template", "no loop of the form `for low <= high` / `for low < high` over two loop-carried bounds and no sort.Search call: the search is not written as a binary search this rule knows")
		return
	}
	form := "closed interval [low, high]"
	if !closed {
		form = "half-open interval [low, high)"
	}
	b.hold("loop condition", instrPos(hif), form)
	body := header.Succs[0]
	if !edgeOnly(header, body) {
		b.undecided("template", "loop body has other entries")
		return
	}
	// bounds
	lowInit, lowBody := phiLeaves(low, header)
	highInit, highBody := phiLeaves(high, header)
	okLow := len(lowInit) > 0
	for _, v := range lowInit {
		if k, isK := constInt(v); !isK || k != 0 {
			okLow = false
		}
	}
	b.check(okLow, "low starts at 0", low.Pos(), "low = 0", "the search does not start at the first element")
	okHigh := len(highInit) > 0
	for _, v := range highInit {
		v = stripValue(v)
		isLen := func(x ssa.Value) bool {
			cl, ok := stripValue(x).(*ssa.Call)
			if !ok {
				return false
			}
			bi, ok := cl.Call.Value.(*ssa.Builtin)
			if !ok || bi.Name() != "len" {
				return false
			}
			cf, _ := loadedField(cl.Call.Args[0])
			return cf == b.cont
		}
		if closed {
			bo, ok := v.(*ssa.BinOp)
			k := int64(0)
			if ok {
				k, _ = constInt(bo.Y)
			}
			if !ok || bo.Op != token.SUB || k != 1 || !isLen(bo.X) {
				okHigh = false
			}
		} else if !isLen(v) {
			okHigh = false
		}
	}
	want := "len(" + b.cont.Name() + ")-1"
	if !closed {
		want = "len(" + b.cont.Name() + ")"
	}
	b.check(okHigh, "high starts at the last element", high.Pos(), "high = "+want, "the upper bound does not start at "+want+": elements at the end are never looked at (or one past the end is)")
	// predicate at the end of the body's first block
	if len(body.Instrs) == 0 {
		b.undecided("template", "empty loop body")
		return
	}
	pif, ok := body.Instrs[len(body.Instrs)-1].(*ssa.If)
	if !ok {
		b.undecided("predicate", "the loop body does not start with the comparison of the middle element")
		return
	}
	op, idx, fld, ok := b.pred(pif.Cond)
	if !ok {
		cmpKeys := b.p.Fn("types", "", "CompareKeys")
		usesCmp := b.p.dependsOn(pif.Cond, func(x ssa.Value) bool { return callTo(b.p, x, cmpKeys) != nil })
		usesElem := b.p.dependsOn(pif.Cond, func(x ssa.Value) bool {
			fv, base := loadedField(x)
			if fv == nil {
				return false
			}
			ia, isIA := base.(*ssa.IndexAddr)
			if !isIA {
				return false
			}
			cf, _ := loadedField(ia.X)
			return cf == b.cont
		})
		if usesElem && !usesCmp {
			b.viol("predicate", instrPos(pif), "the search predicate orders the elements by something other than CompareKeys(elem, key) (e.g. user keys or raw text): versions of one key that straddle a block boundary are looked for in the wrong place")
			return
		}
		b.undecided("predicate", "the branch at the top of the loop body is not CompareKeys(<element>, key) <op> 0")
		return
	}
	mid := stripValue(idx)
	b.check(isMid(mid, low, high), "midpoint", instrPos(pif), "the element compared is the one in the middle of [low, high]", "the element compared is not at low+(high-low)/2")
	b.check(fld == b.elemField, "field compared", instrPos(pif), "compares "+b.elemField.Name(), fmt.Sprintf("compares %s instead of %s: the lower bound over the wrong key selects the wrong %s", fieldName(fld), b.elemField.Name(), b.role))
	var pt, pf *ssa.BasicBlock
	switch op {
	case ">=":
		pt, pf = body.Succs[0], body.Succs[1]
	case "<":
		pt, pf = body.Succs[1], body.Succs[0]
	default:
		b.viol("predicate", instrPos(pif), "the search predicate is `"+b.elemField.Name()+" "+op+" key` where the lower bound needs `>=` (or its negation `<`): an element equal to the key is put on the wrong side")
		return
	}
	b.hold("predicate", instrPos(pif), "CompareKeys(elem."+b.elemField.Name()+", key) >= 0 selects the left half")
	if !edgeOnly(body, pt) || !edgeOnly(body, pf) {
		b.undecided("updates", "branches of the predicate are not separate regions")
		return
	}
	// updates
	step := int64(-1)
	stepTxt := "mid-1"
	if !closed {
		step, stepTxt = 0, "mid"
	}
	okU, seenLow, seenHigh := true, false, false
	for _, lf := range lowBody {
		switch {
		case inRegion(pf, lf.pred):
			if isPlus(lf.val, mid, 1) {
				seenLow = true
			} else {
				okU = false
				b.viol("low = mid+1 when elem < key", low.Pos(), "on the branch where the middle element is below the key, low becomes something other than mid+1")
			}
		case inRegion(pt, lf.pred):
			if lf.val != ssa.Value(low) {
				okU = false
				b.viol("low unchanged when elem >= key", low.Pos(), "low moves although the middle element is not below the key: the first element at or above the key can be skipped")
			}
		default:
			okU = false
			b.viol("low = mid+1 when elem < key", low.Pos(), "low is updated outside the two branches of the predicate")
		}
	}
	for _, lf := range highBody {
		switch {
		case inRegion(pt, lf.pred):
			if (step == 0 && stripValue(lf.val) == mid) || (step != 0 && isPlus(lf.val, mid, step)) {
				seenHigh = true
			} else {
				okU = false
				b.viol("high = "+stepTxt+" when elem >= key", high.Pos(), "on the branch where the middle element is at or above the key, high becomes something other than "+stepTxt)
			}
		case inRegion(pf, lf.pred):
			if lf.val != ssa.Value(high) {
				okU = false
				b.viol("high unchanged when elem < key", high.Pos(), "high moves although the middle element is below the key")
			}
		default:
			okU = false
			b.viol("high = "+stepTxt+" when elem >= key", high.Pos(), "high is updated outside the two branches of the predicate")
		}
	}
	if okU {
		b.check(seenLow, "low = mid+1 when elem < key", low.Pos(), "low = mid+1 on that branch only", "low never advances past the middle element")
		b.check(seenHigh || b.returnsIn(pt), "high = "+stepTxt+" when elem >= key", high.Pos(), "high = "+stepTxt+" on that branch only", "high never moves below the middle element")
	}
	// result
	b.result(header, body, pt, pf, low, mid, closed)
}

func fieldName(v *types.Var) string {
	if v == nil {
		return "?"
	}
	return v.Name()
}

func (b *bsearch) returnsIn(region *ssa.BasicBlock) bool {
	found := false
	for _, blk := range b.f.Blocks {
		if inRegion(region, blk) && len(blk.Instrs) > 0 {
			if _, ok := blk.Instrs[len(blk.Instrs)-1].(*ssa.Return); ok {
				found = true
			}
		}
	}
	return found
}

// found-returns: (value, true)
// bret: one way a search answers - a return instruction, or, when the function has a single return of joined values
// (named results, a result variable), one way into that return with the values and facts of that way.
type bret struct {
	ret   *ssa.Return
	val   ssa.Value       // the first result on this way
	blk   *ssa.BasicBlock // the block this way comes from (the return's own block for a plain return)
	to    *ssa.BasicBlock // for a way into a joined return: the block the edge blk -> to leads to; nil otherwise
	facts []Cmp
	pos   token.Pos
}

func (b *bsearch) foundReturns() (found, notFound []bret) {
	for _, c := range returnCases(b.f) {
		if b.sentinel && len(c.Vals) == 1 && c.Ret.Block() != b.f.Recover {
			// a negative constant is the not-found answer, anything else a position
			br := bret{ret: c.Ret, val: c.Vals[0], blk: c.At.Block(), facts: c.Facts, pos: instrPos(c.At), to: c.To}
			if !br.pos.IsValid() {
				br.pos = instrPos(c.Ret)
			}
			if k, isK := constInt(c.Vals[0]); isK && k < 0 {
				notFound = append(notFound, br)
			} else {
				found = append(found, br)
			}
			continue
		}
		if len(c.Vals) != 2 || c.Ret.Block() == b.f.Recover {
			continue
		}
		k, isC := c.Vals[1].(*ssa.Const)
		if !isC || k.Value == nil {
			continue
		}
		br := bret{ret: c.Ret, val: c.Vals[0], blk: c.At.Block(), facts: c.Facts, pos: instrPos(c.At)}
		br.to = c.To
		if !br.pos.IsValid() {
			br.pos = instrPos(c.Ret)
		}
		if k.Value.String() == "true" {
			found = append(found, br)
		} else {
			notFound = append(notFound, br)
		}
	}
	return
}

// resultIndex: the index of the element a found-return hands out (whole element for the block search, its DataHandle
// for the index search).
func (b *bsearch) resultIndex(ret *ssa.Return) (ssa.Value, bool) {
	return b.resultIndexV(retOperand(ret, 0))
}

func (b *bsearch) resultIndexV(v ssa.Value) (ssa.Value, bool) {
	if b.idxResult {
		return stripValue(v), true
	}
	if b.role == "index" {
		i, fld, ok := b.elem(v, true)
		if !ok || fld == nil || fld.Name() != "DataHandle" {
			return nil, false
		}
		return stripValue(i), true
	}
	i, _, ok := b.elem(v, false)
	if !ok {
		return nil, false
	}
	return stripValue(i), true
}

// evalFacts: do the facts about v (comparisons with integer constants) hold for v = x?
func evalFacts(facts []Cmp, v ssa.Value, x int64) (holds bool, any bool) {
	holds = true
	for _, c := range facts {
		if c.Y == nil {
			continue
		}
		op, l, rr := c.Op, stripValue(c.X), stripValue(c.Y)
		if rr == v {
			l, rr = rr, l
			op = flipCmp(op)
		}
		if l != v {
			continue
		}
		k, isK := constInt(rr)
		if !isK {
			continue
		}
		any = true
		var t bool
		switch op {
		case "<":
			t = x < k
		case "<=":
			t = x <= k
		case ">":
			t = x > k
		case ">=":
			t = x >= k
		case "==":
			t = x == k
		case "!=":
			t = x != k
		}
		if !t {
			holds = false
		}
	}
	return
}

func (b *bsearch) result(header, body, pt, pf *ssa.BasicBlock, low *ssa.Phi, mid ssa.Value, closed bool) {
	found, notFound := b.foundReturns()
	if len(found) == 0 {
		b.undecided("result", "no (element, true) return")
		return
	}
	for _, ret := range found {
		idx, ok := b.resultIndexV(ret.val)
		if !ok {
			b.viol("result element", ret.pos, "a found-return does not hand out an element of "+b.cont.Name()+" (for the index search: its DataHandle)")
			continue
		}
		switch {
		case inRegion(pt, ret.blk) && idx == mid:
			// (B) early return of the middle element: needs "no smaller element is at or above the key"
			b.hold("result element", ret.pos, "the middle element, on the branch where it is at or above the key")
			b.neighbourCheck(ret, pt, mid)
		case inRegion(pf, ret.blk):
			b.viol("result element", ret.pos, "an element is returned on the branch where the middle element is below the key")
		case !inRegion(body, ret.blk):
			// after the loop
			if ph, isPhi := idx.(*ssa.Phi); isPhi && ph.Block() == header && ph != low {
				// (A) result variable
				inits, leaves := phiLeaves(ph, header)
				okR := len(inits) > 0
				for _, v := range inits {
					if k, isK := constInt(v); !isK || k >= 0 {
						okR = false
					}
				}
				setT := false
				for _, lf := range leaves {
					switch {
					case inRegion(pt, lf.pred):
						if stripValue(lf.val) == mid {
							setT = true
						} else {
							okR = false
						}
					case inRegion(pf, lf.pred):
						if lf.val != ssa.Value(ph) {
							okR = false
						}
					default:
						okR = false
					}
				}
				b.check(okR && setT, "result element", ret.pos, "the last middle element that was at or above the key (initially none)",
					"the result index is not `mid` recorded exactly on the branch where the middle element is at or above the key")
				facts := ret.facts
				h0, any0 := evalFacts(facts, idx, 0)
				h5, _ := evalFacts(facts, idx, 5)
				hm, _ := evalFacts(facts, idx, -1)
				b.check(any0 && h0 && h5 && !hm, "found exactly when an element was recorded", ret.pos, "guarded by result >= 0",
					"the found-return is not guarded by exactly `result index >= 0`: block 0 is treated as not found, or -1 is used as an index")
			} else if idx == ssa.Value(low) && !closed {
				// (C) half-open: low after the loop
				okG := false
				for _, c := range ret.facts {
					if c.Y == nil {
						continue
					}
					x, y, op := stripValue(c.X), stripValue(c.Y), c.Op
					if y == ssa.Value(low) {
						x, y, op = y, x, flipCmp(op)
					}
					if x == ssa.Value(low) && (op == "<" || op == "!=") && isLenOf(y, b.cont) {
						okG = true
					}
				}
				b.hold("result element", ret.pos, "low after the loop")
				b.check(okG, "found exactly when an element was recorded", ret.pos, "guarded by low < len", "the found-return is not guarded by low < len("+b.cont.Name()+")")
			} else {
				b.viol("result element", ret.pos, "the element returned after the loop is neither the recorded middle element nor the final lower bound")
			}
		default:
			b.viol("result element", ret.pos, "a found-return inside the loop hands out something other than the middle element")
		}
	}
	// not-found answers: after the loop (nothing qualified), or before it only when no element can qualify
	for _, ret := range notFound {
		rb := ret.blk
		switch {
		case inRegion(body, rb):
			b.viol("not found only when nothing qualifies", ret.pos, "not-found is answered inside the search loop, before the interval is exhausted")
		case header.Dominates(rb):
			b.hold("not found only when nothing qualifies", ret.pos, "after the loop")
		default:
			// before the loop: every way to this return establishes "empty" or "last element below the key"
			okAll, n := true, 0
			seen := map[*ssa.BasicBlock]bool{}
			var walk func(blk *ssa.BasicBlock)
			walk = func(blk *ssa.BasicBlock) {
				if seen[blk] {
					return
				}
				seen[blk] = true
				if len(blk.Preds) == 0 {
					okAll = false
				}
				for _, pr := range blk.Preds {
					if len(pr.Instrs) == 0 {
						okAll = false
						continue
					}
					switch last := pr.Instrs[len(pr.Instrs)-1].(type) {
					case *ssa.If:
						truth := pr.Succs[0] == blk
						n++
						if !b.nothingQualifies(canonCond(last.Cond, truth), last.Cond, truth) {
							okAll = false
						}
					case *ssa.Jump:
						walk(pr)
					default:
						okAll = false
					}
				}
			}
			if ret.to != nil {
				seen[ret.to] = true
				switch last := rb.Instrs[len(rb.Instrs)-1].(type) {
				case *ssa.If:
					truth := rb.Succs[0] == ret.to
					n++
					if !b.nothingQualifies(canonCond(last.Cond, truth), last.Cond, truth) {
						okAll = false
					}
				case *ssa.Jump:
					walk(rb)
				default:
					okAll = false
				}
			} else {
				walk(rb)
			}
			b.check(okAll && n > 0, "not found only when nothing qualifies", ret.pos, "early exit only for an empty container or when the last element is below the key",
				"not-found is answered before the search on a condition under which an element at or above the key can exist (e.g. `last <= key`): the entry equal to the key at the end of the container is missed")
		}
	}
}

func isLenOf(v ssa.Value, cont *types.Var) bool {
	cl, ok := stripValue(v).(*ssa.Call)
	if !ok {
		return false
	}
	bi, ok := cl.Call.Value.(*ssa.Builtin)
	if !ok || bi.Name() != "len" {
		return false
	}
	cf, _ := loadedField(cl.Call.Args[0])
	return cf == cont
}

// neighbourCheck: every edge into the early found-return establishes mid == 0 or elem(mid-1) < key.
func (b *bsearch) neighbourCheck(ret bret, pt *ssa.BasicBlock, mid ssa.Value) {
	// walk back from the return block through unconditional jumps to the conditional edges that lead here
	okAll, n := true, 0
	seen := map[*ssa.BasicBlock]bool{}
	var walk func(blk *ssa.BasicBlock)
	walk = func(blk *ssa.BasicBlock) {
		if seen[blk] {
			return
		}
		seen[blk] = true
		for _, pr := range blk.Preds {
			if len(pr.Instrs) == 0 {
				okAll = false
				continue
			}
			if blk == pt && !inRegion(pt, pr) {
				// the edge of the search predicate itself: a way to the return without a neighbour test
				okAll = false
				continue
			}
			switch last := pr.Instrs[len(pr.Instrs)-1].(type) {
			case *ssa.If:
				if pr.Succs[0] == pr.Succs[1] {
					okAll = false
					continue
				}
				truth := pr.Succs[0] == blk
				n++
				if !b.isNeighbourFact(canonCond(last.Cond, truth), last.Cond, truth, mid) {
					okAll = false
				}
			case *ssa.Jump:
				walk(pr)
			default:
				okAll = false
			}
		}
	}
	if ret.to != nil {
		// a way into a joined return: the edge ret.blk -> ret.to first
		seen[ret.to] = true
		switch last := ret.blk.Instrs[len(ret.blk.Instrs)-1].(type) {
		case *ssa.If:
			truth := ret.blk.Succs[0] == ret.to
			n++
			if ret.blk.Succs[0] == ret.blk.Succs[1] || !b.isNeighbourFact(canonCond(last.Cond, truth), last.Cond, truth, mid) {
				okAll = false
			}
		case *ssa.Jump:
			walk(ret.blk)
		default:
			okAll = false
		}
	} else {
		walk(ret.blk)
	}
	b.check(okAll && n > 0, "no smaller element qualifies", ret.pos, "every way to this return passes mid == 0 or CompareKeys(elem[mid-1], key) < 0",
		"the middle element is returned although an earlier element may also be at or above the key (the neighbour test is missing or different on some way to the return): a later key, or an older version than the newest allowed one, is returned")
}

// nothingQualifies: the fact says the container is empty, or that its last element is below the key.
func (b *bsearch) nothingQualifies(c Cmp, cond ssa.Value, truth bool) bool {
	if c.Y != nil {
		x, y, op := stripValue(c.X), stripValue(c.Y), c.Op
		if isLenOf(y, b.cont) {
			x, y, op = y, x, flipCmp(op)
		}
		if isLenOf(x, b.cont) {
			if k, isK := constInt(y); isK {
				return (op == "==" && k == 0) || (op == "<=" && k == 0) || (op == "<" && k == 1)
			}
		}
	}
	op, idx, fld, ok := b.pred(cond)
	if !ok {
		return false
	}
	if !truth {
		op = negateOp(op)
	}
	if op != "<" || fld != b.elemField {
		return false
	}
	bo, isBo := stripValue(idx).(*ssa.BinOp)
	if !isBo || bo.Op != token.SUB || !isLenOf(bo.X, b.cont) {
		return false
	}
	k, isK := constInt(bo.Y)
	return isK && k == 1
}

func (b *bsearch) isNeighbourFact(c Cmp, cond ssa.Value, truth bool, mid ssa.Value) bool {
	// mid == 0  (or mid <= 0, mid < 1)
	if c.Y != nil {
		x, y, op := stripValue(c.X), stripValue(c.Y), c.Op
		if y == mid {
			x, y, op = y, x, flipCmp(op)
		}
		if x == mid {
			if k, isK := constInt(y); isK {
				return (op == "==" && k == 0) || (op == "<=" && k == 0) || (op == "<" && k == 1)
			}
		}
	}
	// CompareKeys(elem[mid-1], key) < 0
	want := cond
	op, idx, fld, ok := b.pred(want)
	if !ok {
		return false
	}
	if !truth {
		op = negateOp(op)
	}
	return op == "<" && fld == b.elemField && isPlus(idx, mid, -1)
}

// (D) idx := sort.Search(len(cont), func(i int) bool { return CompareKeys(cont[i].F, key) >= 0 })
func (b *bsearch) runSortSearch(call *ssa.Call) {
	b.hold("loop condition", instrPos(call), "sort.Search (half-open binary search of the standard library)")
	b.hold("low starts at 0", instrPos(call), "sort.Search")
	b.check(isLenOf(call.Call.Args[0], b.cont), "high starts at the last element", instrPos(call), "n = len("+b.cont.Name()+")", "sort.Search is not given len("+b.cont.Name()+") as its range")
	mc, ok := call.Call.Args[1].(*ssa.MakeClosure)
	if !ok {
		b.undecided("predicate", "sort.Search predicate is not a function literal")
		return
	}
	cf := mc.Fn.(*ssa.Function)
	var rets []*ssa.Return
	eachInstr(cf, func(ins ssa.Instruction) {
		if ret, ok := ins.(*ssa.Return); ok {
			rets = append(rets, ret)
		}
	})
	if len(rets) != 1 || len(rets[0].Results) != 1 {
		b.undecided("predicate", "sort.Search predicate has more than one return")
		return
	}
	op, idx, fld, ok := b.pred(rets[0].Results[0])
	if !ok {
		b.undecided("predicate", "sort.Search predicate is not CompareKeys(<element>, key) <op> 0")
		return
	}
	b.check(stripValue(idx) == ssa.Value(cf.Params[0]), "midpoint", instrPos(rets[0]), "the element tested is the one sort.Search asks about", "the predicate tests another element than the one sort.Search asks about")
	b.check(fld == b.elemField, "field compared", instrPos(rets[0]), "compares "+b.elemField.Name(), fmt.Sprintf("compares %s instead of %s", fieldName(fld), b.elemField.Name()))
	b.check(op == ">=", "predicate", instrPos(rets[0]), "CompareKeys(elem."+b.elemField.Name()+", key) >= 0", "the sort.Search predicate is `"+op+"` where the lower bound needs `>=`")
	b.hold("low = mid+1 when elem < key", instrPos(call), "sort.Search")
	b.hold("high = mid when elem >= key", instrPos(call), "sort.Search")
	found, _ := b.foundReturns()
	if len(found) == 0 {
		b.undecided("result", "no (element, true) return")
		return
	}
	for _, ret := range found {
		ri, ok := b.resultIndexV(ret.val)
		if !ok || ri != ssa.Value(call) {
			b.viol("result element", ret.pos, "the element returned is not the one at the index sort.Search found")
			continue
		}
		b.hold("result element", ret.pos, "the element at the index sort.Search found")
		okG := false
		for _, c := range ret.facts {
			if c.Y == nil {
				continue
			}
			x, y, op := stripValue(c.X), stripValue(c.Y), c.Op
			if y == ssa.Value(call) {
				x, y, op = y, x, flipCmp(op)
			}
			if x == ssa.Value(call) && (op == "<" || op == "!=") && isLenOf(y, b.cont) {
				okG = true
			}
		}
		b.check(okG, "found exactly when an element was recorded", ret.pos, "guarded by idx < len", "the found-return is not guarded by idx < len("+b.cont.Name()+")")
	}
}

func runLookupBsearch(c *Ctx, r *RuleRun) {
	p := c.P
	a := getLookupAnchors(c)
	if len(a.problems) > 0 {
		for _, m := range a.problems {
			r.Undecided("-", "lookup path", "", m)
		}
		return
	}
	for _, t := range []struct {
		f                *ssa.Function
		role, typ, field string
	}{{a.idxM, "index", "Index", "EndKey"}, {a.dataM, "block", "Data", "Key"}} {
		cont := p.Field("table", t.typ, "Entries")
		var ef *types.Var
		if t.role == "index" {
			ef = p.Field("table", "IndexEntry", t.field)
		} else {
			ef = p.Field("types", "Entry", t.field)
		}
		key := keyParam(t.f)
		if cont == nil || ef == nil || key == nil {
			r.Undecided(p.FnName(t.f), t.role+": anchors", "", "Entries / "+t.field+" / key parameter not found")
			continue
		}
		b := &bsearch{p: p, f: t.f, r: r, fn: p.FnName(t.f), role: t.role, cont: cont, elemField: ef, key: key}
		// the search proper may live in a helper on the same receiver that hands out the position (idx, ok): the
		// wrapper must turn exactly that position into the element, and the helper is held to the template
		if h, call := positionHelper(p, t.f, key); h != nil && len(naturalLoops(t.f)) == 0 {
			hk := keyParam(h)
			if hk == nil {
				r.Undecided(p.FnName(t.f), t.role+": template", "", "the position helper has no key parameter")
				continue
			}
			idx, okv := extractOf(call, 0), extractOf(call, 1)
			sentinel := resultIs(h, types.Int)
			if sentinel {
				idx, okv = call, call
			}
			wrapped := idx != nil && okv != nil
			// with a sentinel: "found" is idx >= 0 (true for 0 and 5, false for -1), "not found" is idx < 0
			sentinelFact := func(at ssa.Instruction, want bool) bool {
				facts := factsAt(at)
				h0, any0 := evalFacts(facts, idx, 0)
				h5, _ := evalFacts(facts, idx, 5)
				hm, _ := evalFacts(facts, idx, -1)
				if want {
					return any0 && h0 && h5 && !hm
				}
				return any0 && !h0 && !h5 && hm
			}
			eachInstr(t.f, func(ins ssa.Instruction) {
				ret, isRet := ins.(*ssa.Return)
				if !isRet || len(ret.Results) != 2 || !wrapped {
					return
				}
				switch {
				case sentinel && isConstBool(retOperand(ret, 1), true):
					i, isIdx := b.resultIndex(ret)
					b.check(isIdx && i == stripValue(idx) && sentinelFact(ret, true), "wrapper hands out the element at the position found", instrPos(ret), "Entries[idx] under idx >= 0", "the wrapper of the position search does not return the element at the position the search found (or returns it although nothing was found)")
				case sentinel && isConstBool(retOperand(ret, 1), false):
					b.check(sentinelFact(ret, false), "wrapper answers not-found only when the search did", instrPos(ret), "not found under idx < 0", "the wrapper of the position search answers not-found although a position was found")
				case isConstBool(retOperand(ret, 1), true):
					i, isIdx := b.resultIndex(ret)
					under := boolFactIs(ret, func(v ssa.Value) bool { return v == okv }, true)
					b.check(isIdx && i == stripValue(idx) && under, "wrapper hands out the element at the position found", instrPos(ret), "Entries[idx] under ok", "the wrapper of the position search does not return the element at the position the search found (or returns it although nothing was found)")
				case isConstBool(retOperand(ret, 1), false):
					under := boolFactIs(ret, func(v ssa.Value) bool { return v == okv }, false)
					b.check(under, "wrapper answers not-found only when the search did", instrPos(ret), "not found under !ok", "the wrapper of the position search answers not-found although a position was found")
				default:
					wrapped = false
				}
			})
			if !wrapped {
				r.Undecided(p.FnName(t.f), t.role+": template", "", "the wrapper of the position search has a result this rule cannot read")
				continue
			}
			b = &bsearch{p: p, f: h, r: r, fn: p.FnName(h), role: t.role, cont: cont, elemField: ef, key: hk, idxResult: true, sentinel: sentinel}
		}
		b.run()
	}
}

// ---- Build: index entries describe their blocks ----

func runLookupIndexKeys(c *Ctx, r *RuleRun) {
	p := c.P
	build := p.Fn("table", "", "Build")
	startF, endF := p.Field("table", "IndexEntry", "StartKey"), p.Field("table", "IndexEntry", "EndKey")
	offF, lenF := p.Field("table", "BlockHandle", "Offset"), p.Field("table", "BlockHandle", "Length")
	dhF := p.Field("table", "IndexEntry", "DataHandle")
	entriesF := p.Field("table", "Data", "Entries")
	keyF := p.Field("types", "Entry", "Key")
	data := p.Named("table", "Data")
	if build == nil || startF == nil || endF == nil || offF == nil || lenF == nil || entriesF == nil || keyF == nil || dhF == nil || data == nil {
		r.Undecided("-", "table.Build", "", "anchors not found")
		return
	}
	fn := p.FnName(build)
	// the block being described: receiver of the Data.Encode call in the loop that stores IndexEntry fields
	var encCall *ssa.Call
	eachInstr(build, func(ins ssa.Instruction) {
		if cl, ok := ins.(*ssa.Call); ok {
			if g := cl.Call.StaticCallee(); g != nil && methodOn(p, g, data) && g.Name() == "Encode" && inLoop(cl.Block()) {
				encCall = cl
			}
		}
	})
	if encCall == nil {
		r.Undecided(fn, "block encode in the index loop", "", "no Data.Encode call in a loop")
		return
	}
	block := stripValue(encCall.Call.Args[0])
	// element key: load Key of IndexAddr(load Entries of block, idx)
	elemKey := func(v ssa.Value) (idx ssa.Value, ok bool) {
		fv, base := loadedField(stripValue(v))
		if fv != keyF {
			return nil, false
		}
		ia, isIA := base.(*ssa.IndexAddr)
		if !isIA {
			return nil, false
		}
		cf, cb := loadedField(ia.X)
		if cf != entriesF || cb != block {
			return nil, false
		}
		return ia.Index, true
	}
	var encBytes ssa.Value
	for _, ref := range *encCall.Referrers() {
		if ex, ok := ref.(*ssa.Extract); ok && ex.Index == 0 {
			encBytes = ex
			// handed through a checking wrapper (`encoded(block.Encode())` panics on the error and returns the bytes):
			// the bytes are known to the rest of the function as the wrapper's result
			for _, r2 := range *ex.Referrers() {
				if wc, isCall := r2.(*ssa.Call); isCall && p.passThrough(wc) == ssa.Value(ex) {
					encBytes = wc
				}
			}
		}
	}
	nStart, nEnd, nOff, nLen := 0, 0, 0, 0
	var lengthVal ssa.Value
	eachInstr(build, func(ins ssa.Instruction) {
		st, ok := ins.(*ssa.Store)
		if !ok {
			return
		}
		fv, base := fieldOfAddr(st.Addr)
		if fv == nil {
			return
		}
		// only fields of the IndexEntry under construction in the loop (or of its DataHandle)
		if !inLoop(st.Block()) {
			return
		}
		switch fv {
		case startF:
			nStart++
			idx, ok := elemKey(st.Val)
			k, isK := int64(-1), false
			if ok {
				k, isK = constInt(idx)
			}
			r.Check(ok && isK && k == 0, fn, "StartKey = first key of the block", p.Pos(instrPos(st)), "block.Entries[0].Key of the block being encoded",
				"the StartKey of an index entry is not the key of the first entry of the block it describes")
		case endF:
			nEnd++
			idx, ok := elemKey(st.Val)
			good := false
			if ok {
				if bo, isB := stripValue(idx).(*ssa.BinOp); isB && bo.Op == token.SUB {
					if k, isK := constInt(bo.Y); isK && k == 1 {
						if cl, isC := bo.X.(*ssa.Call); isC {
							if bi, isBi := cl.Call.Value.(*ssa.Builtin); isBi && bi.Name() == "len" {
								cf, cb := loadedField(cl.Call.Args[0])
								good = cf == entriesF && cb == block
							}
						}
					}
				}
			}
			r.Check(good, fn, "EndKey = last key of the block", p.Pos(instrPos(st)), "block.Entries[len(block.Entries)-1].Key of the block being encoded",
				"the EndKey of an index entry is not the key of the last entry of the block it describes: the index search skips or misroutes keys near block boundaries")
		case lenF:
			if !feedsField(base, dhF) {
				return
			}
			nLen++
			lengthVal = st.Val
			good := false
			if cl, isC := stripValue(st.Val).(*ssa.Call); isC {
				if bi, isBi := cl.Call.Value.(*ssa.Builtin); isBi && bi.Name() == "len" && cl.Call.Args[0] == encBytes {
					good = true
				}
			}
			r.Check(good, fn, "Length = bytes of this block", p.Pos(instrPos(st)), "len of the encoding of the block being described", "the Length of a block handle is not the length of the bytes encoded for that block")
		case offF:
			if !feedsField(base, dhF) {
				return
			}
			nOff++
			ph, isPhi := st.Val.(*ssa.Phi)
			good := false
			if isPhi {
				good = true
				sawAdd := false
				for i, e := range ph.Edges {
					pred := ph.Block().Preds[i]
					if !ph.Block().Dominates(pred) {
						if k, isK := constInt(e); !isK || k != 0 {
							good = false
						}
						continue
					}
					bo, isB := e.(*ssa.BinOp)
					if !isB || bo.Op != token.ADD || !((bo.X == ssa.Value(ph) && sameLen(bo.Y, encBytes)) || (bo.Y == ssa.Value(ph) && sameLen(bo.X, encBytes))) {
						good = false
					} else {
						sawAdd = true
					}
				}
				good = good && sawAdd
			}
			r.Check(good, fn, "Offset = sum of the previous lengths", p.Pos(instrPos(st)), "running sum starting at 0, advanced by this block's length every iteration", "the Offset of a block handle is not the running sum of the lengths of the blocks written before it")
		}
	})
	_ = lengthVal
	if nStart == 0 || nEnd == 0 || nOff == 0 || nLen == 0 {
		r.Undecided(fn, "index entry construction", "", fmt.Sprintf("stores found: StartKey %d, EndKey %d, Offset %d, Length %d", nStart, nEnd, nOff, nLen))
		return
	}
	// the bytes written for the block are the bytes measured, and they are written in the same iteration
	wrote := false
	eachInstr(build, func(ins ssa.Instruction) {
		cl, ok := ins.(*ssa.Call)
		if !ok || !inLoop(cl.Block()) {
			return
		}
		obj := p.CalleeObj(cl)
		if obj == nil || obj.Name() != "Write" {
			// a helper that always writes the bytes it is handed into the buffer
			if bufferWriteArg(p, build, cl) == encBytes && encBytes != nil {
				wrote = dominatesInstr(encCall, cl)
			}
			return
		}
		for _, arg := range cl.Call.Args {
			if arg == encBytes {
				wrote = dominatesInstr(encCall, cl)
			}
		}
	})
	r.Check(wrote, fn, "block bytes written in index order", p.Pos(instrPos(encCall)), "the encoding measured is the one written, in the same iteration", "the bytes written for a block are not the encoding whose length the index records (or are written outside the loop)")
	// entries go into blocks in input order: the append into the current block takes the range element
	appendOK := false
	// (the loop that cuts the entries into blocks may live in a helper of Build)
	eachInstrOf(localFns(p, build), func(ins ssa.Instruction) {
		st, ok := ins.(*ssa.Store)
		if !ok {
			return
		}
		if fv, _ := fieldOfAddr(st.Addr); fv == entriesF && inLoop(st.Block()) {
			if cl, isC := st.Val.(*ssa.Call); isC {
				if bi, isBi := cl.Call.Value.(*ssa.Builtin); isBi && bi.Name() == "append" {
					if cf, _ := loadedField(cl.Call.Args[0]); cf == entriesF {
						appendOK = true
					}
				}
			}
		}
	})
	r.Check(appendOK, fn, "entries appended to the current block in input order", p.Pos(build.Pos()), "data.Entries = append(data.Entries, entry)", "entries are not appended to the current block in input order")
}

// feedsField: base is &x.fld itself, or a local struct cell whose value is stored into a field fld.
func feedsField(base ssa.Value, fld *types.Var) bool {
	if bf, _ := fieldOfAddr(base); bf == fld {
		return true
	}
	al, ok := base.(*ssa.Alloc)
	if !ok {
		return false
	}
	for _, ref := range *al.Referrers() {
		u, ok := ref.(*ssa.UnOp)
		if !ok || u.Op != token.MUL {
			continue
		}
		for _, r2 := range *u.Referrers() {
			if st, ok := r2.(*ssa.Store); ok && st.Val == ssa.Value(u) {
				if f2, _ := fieldOfAddr(st.Addr); f2 == fld {
					return true
				}
			}
		}
	}
	return false
}

func sameLen(v ssa.Value, bytes ssa.Value) bool {
	v = stripValue(v)
	cl, ok := v.(*ssa.Call)
	if !ok {
		return false
	}
	bi, ok := cl.Call.Value.(*ssa.Builtin)
	return ok && bi.Name() == "len" && cl.Call.Args[0] == bytes
}

// ---- fetch ----

func runLookupFetch(c *Ctx, r *RuleRun) {
	p := c.P
	fetch := p.FnOr("", "levelManager", "fetch")
	offF, lenF := p.Field("table", "BlockHandle", "Offset"), p.Field("table", "BlockHandle", "Length")
	if fetch == nil || offF == nil || lenF == nil {
		r.Undecided("-", "levelManager.fetch", "", "anchors not found")
		return
	}
	fn := p.FnName(fetch)
	var hp *ssa.Parameter
	for _, pr := range fetch.Params {
		if p.isModuleNamed(pr.Type()) == p.Named("table", "BlockHandle") {
			hp = pr
		}
	}
	if hp == nil {
		r.Undecided(fn, "handle parameter", "", "not found")
		return
	}
	// the reading may be done by a helper that is handed the handle as it came in: follow the handle down
	for depth := 0; depth < 2; depth++ {
		var next *ssa.Function
		var nextParam *ssa.Parameter
		sized, n := false, 0
		eachInstr(fetch, func(ins ssa.Instruction) {
			switch x := ins.(type) {
			case *ssa.MakeSlice:
				sized = true
			case *ssa.Call:
				g := x.Call.StaticCallee()
				if g == nil || !p.InModule(g) || len(g.Blocks) == 0 {
					return
				}
				for i, a := range x.Call.Args {
					if a == ssa.Value(hp) && i < len(g.Params) {
						n++
						next, nextParam = g, g.Params[i]
					}
				}
			}
		})
		if sized || n != 1 || p.isExported(next) || len(p.CallersOf(next)) != 1 {
			break
		}
		fetch, hp = next, nextParam
		fn = p.FnName(fetch)
	}
	ofHandle := func(v ssa.Value, fld *types.Var) bool {
		v = stripValue(v)
		fv, base := loadedField(v)
		if fv != fld {
			return false
		}
		if base == ssa.Value(hp) {
			return true
		}
		if al, ok := base.(*ssa.Alloc); ok && baseStored(al) == ssa.Value(hp) {
			return true
		}
		return false
	}
	var buf ssa.Value
	eachInstr(fetch, func(ins ssa.Instruction) {
		if ms, ok := ins.(*ssa.MakeSlice); ok {
			if ofHandle(ms.Len, lenF) {
				buf = ms
				r.Hold(fn, "buffer of handle.Length bytes", p.Pos(instrPos(ms)), "make([]byte, handle.Length)")
			}
		}
	})
	if buf == nil {
		r.Viol(fn, "buffer of handle.Length bytes", p.Pos(fetch.Pos()), "fetch does not size its buffer by the Length of the handle it was given")
		return
	}
	seekOK, readOK, decOK := false, false, false
	var readCall ssa.Instruction
	eachInstr(fetch, func(ins ssa.Instruction) {
		cl, ok := ins.(*ssa.Call)
		if !ok {
			return
		}
		obj := p.CalleeObj(cl)
		if obj == nil {
			return
		}
		switch {
		case funcIs(obj, "os", "File", "Seek"):
			wh, isK := constInt(cl.Call.Args[2])
			// io.SeekStart; io.SeekCurrent is the same thing on a file this function has just opened and not yet read
			fresh := false
			if wh == 1 {
				origin := func(v ssa.Value) ssa.Value {
					if u, isU := v.(*ssa.UnOp); isU && u.Op == token.MUL {
						if al, isAl := u.X.(*ssa.Alloc); isAl {
							return baseStored(al)
						}
					}
					return v
				}
				fdv := origin(cl.Call.Args[0])
				if ex, isEx := fdv.(*ssa.Extract); isEx {
					if oc, isCall := ex.Tuple.(*ssa.Call); isCall {
						if oo := p.CalleeObj(oc); oo != nil && (funcIs(oo, "os", "", "Open") || funcIs(oo, "os", "", "OpenFile")) {
							fresh = true
							eachInstr(fetch, func(o ssa.Instruction) {
								if oc2, ok := o.(*ssa.Call); ok && oc2 != cl && len(oc2.Call.Args) > 0 && origin(oc2.Call.Args[0]) == fdv && dominatesInstr(oc2, cl) {
									fresh = false
								}
							})
						}
					}
				}
			}
			seekOK = ofHandle(cl.Call.Args[1], offF) && isK && (wh == 0 || fresh)
			if !seekOK {
				r.Viol(fn, "positioned at handle.Offset", p.Pos(instrPos(cl)), "Seek is not (handle.Offset, io.SeekStart)")
			}
		case funcIs(obj, "os", "File", "ReadAt"):
			if cl.Call.Args[1] == buf && ofHandle(cl.Call.Args[2], offF) {
				seekOK, readOK = true, true
				readCall = cl
			}
		case funcIs(obj, "os", "File", "Read"):
			if cl.Call.Args[1] == buf {
				readOK = true
				readCall = cl
			}
		case funcIs(obj, "io", "", "ReadFull"):
			if cl.Call.Args[1] == buf {
				readOK = true
				readCall = cl
			}
		case obj.Name() == "Decode" && methodOn(p, cl.Call.StaticCallee(), p.Named("table", "Data")):
			decOK = cl.Call.Args[1] == buf
			if !decOK {
				r.Viol(fn, "decodes the bytes read", p.Pos(instrPos(cl)), "Decode gets something other than the buffer that was read")
			}
		}
	})
	if seekOK {
		r.Hold(fn, "positioned at handle.Offset", p.Pos(fetch.Pos()), "Seek(handle.Offset, io.SeekStart) / ReadAt(handle.Offset)")
	} else {
		r.Viol(fn, "positioned at handle.Offset ", p.Pos(fetch.Pos()), "the file is not positioned at the Offset of the handle before reading")
	}
	r.Check(readOK, fn, "reads into that buffer", p.Pos(fetch.Pos()), "the buffer sized by the handle is the one read into", "the read does not fill the buffer sized by the handle")
	if decOK {
		r.Hold(fn, "decodes the bytes read", p.Pos(fetch.Pos()), "Decode(buffer)")
	}
	_ = readCall
}

// positionHelper: the one method on f's receiver type that f calls with its receiver and its key and that answers
// (int, bool).
func positionHelper(p *Prog, f *ssa.Function, key *ssa.Parameter) (*ssa.Function, *ssa.Call) {
	var hs []*ssa.Function
	var calls []*ssa.Call
	eachInstr(f, func(ins ssa.Instruction) {
		cl, ok := ins.(*ssa.Call)
		if !ok {
			return
		}
		h := cl.Call.StaticCallee()
		if h == nil || h.Pkg != f.Pkg || h.Signature.Recv() == nil || f.Signature.Recv() == nil || !(resultIs(h, types.Int, types.Bool) || resultIs(h, types.Int)) {
			return
		}
		if !types.Identical(h.Signature.Recv().Type(), f.Signature.Recv().Type()) || len(cl.Call.Args) < 2 || cl.Call.Args[0] != ssa.Value(f.Params[0]) {
			return
		}
		passesKey := false
		for _, a := range cl.Call.Args[1:] {
			if a == ssa.Value(key) {
				passesKey = true
			}
		}
		if passesKey {
			hs = append(hs, h)
			calls = append(calls, cl)
		}
	})
	if len(hs) == 1 {
		return hs[0], calls[0]
	}
	return nil, nil
}
