package main

// Error-aware must-events: "the call succeeded" is a point in the caller's CFG (the nil edge of the test of its error).

import (
	"golang.org/x/tools/go/ssa"
)

// errValueOf returns the SSA value holding the error result of a call (the call itself, or the Extract of the
// last tuple component), nil if the callee has no error result. found=false if the error result is dropped.
func errValueOf(call *ssa.Call) (v ssa.Value, hasErr bool) {
	sig := call.Call.Signature()
	idx := errResultIndex(sig)
	if idx < 0 {
		return nil, false
	}
	if sig.Results().Len() == 1 {
		return call, true
	}
	for _, ref := range *call.Referrers() {
		if ex, ok := ref.(*ssa.Extract); ok && ex.Index == idx {
			return ex, true
		}
	}
	return nil, true
}

// successPoints: instructions whose execution implies that the call returned a nil error.
//   - callee without error result: the call itself
//   - error tested against nil: first instruction of the block on the nil edge (if that block has a single predecessor)
//   - error returned directly by the enclosing function: the Return (a success return of the caller implies success)
//
// checked=false if the error result is dropped or never tested/returned: success is then unknown to the caller.
func successPoints(call *ssa.Call) (pts []ssa.Instruction, checked bool) {
	return successPointsP(nil, call)
}

// livePreds: predecessors of b from which control can actually arrive (blocks ending in a no-return call do not count).
func livePreds(p *Prog, b *ssa.BasicBlock) int {
	n := 0
	for _, pb := range b.Preds {
		dead := false
		if p != nil {
			for _, ins := range pb.Instrs {
				if c, ok := ins.(*ssa.Call); ok && p.CallNoReturn(c) {
					dead = true
				}
			}
		}
		if !dead {
			n++
		}
	}
	return n
}

func successPointsP(p *Prog, call *ssa.Call) (pts []ssa.Instruction, checked bool) {
	pts, _, checked = successPointsE(p, call)
	return
}

type edgeKey struct {
	b *ssa.BasicBlock
	i int
}

// successPointsE also returns success *edges*: nil edges whose target block has other live predecessors.
func successPointsE(p *Prog, call *ssa.Call) (pts []ssa.Instruction, edges []edgeKey, checked bool) {
	ev, hasErr := errValueOf(call)
	if !hasErr {
		return []ssa.Instruction{call}, nil, true
	}
	if ev == nil {
		return nil, nil, false
	}
	vals := []ssa.Value{ev}
	// follow phis and stores to local cells one step (err declared earlier, `_, err = f()`)
	seen := map[ssa.Value]bool{ev: true}
	for i := 0; i < len(vals); i++ {
		for _, ref := range *vals[i].Referrers() {
			switch x := ref.(type) {
			case *ssa.Phi:
				if !seen[x] {
					seen[x] = true
					vals = append(vals, x)
				}
			case *ssa.Store:
				// cell := alloc; *cell = err; later t = *cell
				if al, ok := x.Addr.(*ssa.Alloc); ok && x.Val == vals[i] {
					for _, r2 := range *al.Referrers() {
						if ld, ok := r2.(*ssa.UnOp); ok && ld.X == al && !seen[ld] && dominatesInstr(x, ld) {
							seen[ld] = true
							vals = append(vals, ld)
						}
					}
				}
			}
		}
	}
	for _, v := range vals {
		for _, ref := range *v.Referrers() {
			switch x := ref.(type) {
			case *ssa.BinOp:
				for _, r2 := range *x.Referrers() {
					iff, ok := r2.(*ssa.If)
					if !ok {
						continue
					}
					tv, nilSucc, ok := nilTestCond(iff.Cond)
					if !ok || tv != v {
						continue
					}
					checked = true
					succ := iff.Block().Succs[nilSucc]
					if succ == iff.Block().Succs[1-nilSucc] {
						continue
					}
					if livePreds(p, succ) == 1 && len(succ.Instrs) > 0 {
						pts = append(pts, succ.Instrs[0])
					} else {
						edges = append(edges, edgeKey{iff.Block(), nilSucc})
					}
				}
			case *ssa.Return:
				checked = true
				pts = append(pts, x)
			case *ssa.Call:
				// handed to a helper that does not come back when it is non-nil (`mt.failOn(err, "…")`): whatever follows
				// the helper call runs only after success
				if p == nil {
					continue
				}
				h := x.Call.StaticCallee()
				if h == nil || !p.InModule(h) || len(h.Blocks) == 0 {
					continue
				}
				for ai, arg := range x.Call.Args {
					if arg != v || ai >= len(h.Params) {
						continue
					}
					prm := h.Params[ai]
					// no path from the entry of h to a return that avoids every "prm == nil" edge (paths end at no-return
					// calls such as Panicf)
					tested := false
					q := PathQuery{P: p, Fn: h, Target: isReturn, EdgeOK: func(b *ssa.BasicBlock, i int) bool {
						iff, ok := b.Instrs[len(b.Instrs)-1].(*ssa.If)
						if !ok {
							return true
						}
						tv, nilSucc, ok := nilTestCond(iff.Cond)
						if !ok || tv != ssa.Value(prm) {
							return true
						}
						tested = true
						return i != nilSucc
					}}
					if q.FindPath() == nil && tested {
						checked = true
						if k := instrIndex(x); k+1 < len(x.Block().Instrs) {
							pts = append(pts, x.Block().Instrs[k+1])
						}
					}
				}
			}
		}
	}
	return pts, edges, checked
}

// Must: error-aware interprocedural must-analysis for one family of base events.
type Must struct {
	P *Prog
	// Base: the call instruction is a base event (e.g. fsync of a wal file). Its success points count.
	Base func(call *ssa.Call) bool
	// Plain: non-call instructions (or calls without meaningful error) that are events by themselves.
	Plain InstrPred
	memo  map[*ssa.Function]int
	pts   map[*ssa.Function]map[ssa.Instruction]bool
	edges map[*ssa.Function]map[edgeKey]bool
}

func NewMust(p *Prog, base func(call *ssa.Call) bool, plain InstrPred) *Must {
	return &Must{P: p, Base: base, Plain: plain, memo: map[*ssa.Function]int{}, pts: map[*ssa.Function]map[ssa.Instruction]bool{}, edges: map[*ssa.Function]map[edgeKey]bool{}}
}

// Points: the instructions of f at which the event is known to have happened.
func (m *Must) Points(f *ssa.Function) map[ssa.Instruction]bool {
	if r, ok := m.pts[f]; ok {
		return r
	}
	out := map[ssa.Instruction]bool{}
	m.pts[f] = out
	eout := map[edgeKey]bool{}
	m.edges[f] = eout
	for _, b := range f.Blocks {
		for _, ins := range b.Instrs {
			if m.Plain != nil && m.Plain(ins) {
				out[ins] = true
				continue
			}
			call, ok := ins.(*ssa.Call)
			if !ok {
				continue
			}
			is := m.Base != nil && m.Base(call)
			if !is {
				cs := m.P.Callees(call)
				if len(cs) > 0 {
					is = true
					for _, g := range cs {
						if !m.FuncSuccess(g) {
							is = false
						}
					}
				}
			}
			if !is {
				continue
			}
			pts, eds, _ := successPointsE(m.P, call)
			for _, pt := range pts {
				out[pt] = true
			}
			for _, e := range eds {
				eout[e] = true
			}
		}
	}
	return out
}

// SelfOnly: ins is an event point of f only because of the call ins itself (a call whose callees perform the event):
// no other call of f makes it one. Used where a call must not vouch for what it does itself before the event.
func (m *Must) SelfOnly(f *ssa.Function, ins ssa.Instruction) bool {
	if !m.Points(f)[ins] {
		return false
	}
	for _, b := range f.Blocks {
		for _, i2 := range b.Instrs {
			if i2 == ins {
				continue
			}
			if m.Plain != nil && m.Plain(i2) && i2 == ins {
				return false
			}
			call, ok := i2.(*ssa.Call)
			if !ok {
				continue
			}
			is := m.Base != nil && m.Base(call)
			if !is {
				cs := m.P.Callees(call)
				if len(cs) > 0 {
					is = true
					for _, g := range cs {
						if !m.FuncSuccess(g) {
							is = false
						}
					}
				}
			}
			if !is {
				continue
			}
			pts, _, _ := successPointsE(m.P, call)
			for _, pt := range pts {
				if pt == ins {
					return false
				}
			}
		}
	}
	return true
}

// FuncSuccess: every path from the entry of f to a success return passes an event point.
func (m *Must) FuncSuccess(f *ssa.Function) bool {
	switch m.memo[f] {
	case 1:
		return true
	case 2:
		return false
	case 3:
		return false
	}
	m.memo[f] = 3
	pts := m.Points(f)
	q := PathQuery{P: m.P, Fn: f, Avoid: func(ins ssa.Instruction) bool { return pts[ins] }, EdgeOK: m.EdgeOK(f), Target: isSuccessReturn, SuccessOnly: true}
	ok := q.FindPath() == nil
	if ok {
		m.memo[f] = 1
	} else {
		m.memo[f] = 2
	}
	return ok
}

// AvoidPred for PathQuery in function f.
func (m *Must) Avoid(f *ssa.Function) InstrPred {
	pts := m.Points(f)
	return func(ins ssa.Instruction) bool { return pts[ins] }
}

// EdgeOK for PathQuery in function f: success edges may not be traversed by a path that "avoids" the event.
func (m *Must) EdgeOK(f *ssa.Function) func(b *ssa.BasicBlock, i int) bool {
	m.Points(f)
	ed := m.edges[f]
	return func(b *ssa.BasicBlock, i int) bool { return !ed[edgeKey{b, i}] }
}

// inLoop: block b lies on a cycle of the CFG.
func inLoop(b *ssa.BasicBlock) bool {
	seen := map[*ssa.BasicBlock]bool{}
	var stack []*ssa.BasicBlock
	stack = append(stack, b.Succs...)
	for len(stack) > 0 {
		x := stack[len(stack)-1]
		stack = stack[:len(stack)-1]
		if x == b {
			return true
		}
		if seen[x] {
			continue
		}
		seen[x] = true
		stack = append(stack, x.Succs...)
	}
	return false
}
