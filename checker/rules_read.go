package main

// C01, C02, C09, C16, C17: read-path skeleton, close/reopen, compaction, bloom filter, skiplist.

import (
	"fmt"
	"go/ast"
	"go/token"
	"go/types"
	"sort"
	"strings"

	"golang.org/x/tools/go/ssa"
)

func init() {
	register(&Rule{ID: "READ.ORDER", Engine: "E-SIB", Min: 4,
		Desc: "age-ordered lists (DB.immutables, the tables of a level): elements are appended at one end, lookups walk from that end backwards (newest first), the flusher removes exactly the memtable it flushed; DB.search consults memtable, then immutables, then tables",
		Run:  runReadOrder})
	register(&Rule{ID: "READ.PUBLISH", Engine: "E-PATH", Min: 2,
		Desc: "memtable rotation: the frozen memtable is inserted into DB.immutables in the same DB.mu region that replaces DB.memtable, and before it is handed to the flusher",
		Run:  runReadPublish})
	register(&Rule{ID: "READ.FLUSHER", Engine: "E-CG+E-PATH", Min: 2,
		Desc: "one flusher goroutine; L0 tables are written in rotation order: outside the flusher a memtable is flushed only after the flusher has terminated (receive on DB.closed)",
		Run:  runReadFlusher})
	register(&Rule{ID: "READ.HIT", Engine: "E-GUARD", Min: 5,
		Desc: "a lookup result is accepted only when it is a version of the requested user key, the value is produced through types.Value (tombstone = not found), and a table that holds no visible version of the key does not end the table search",
		Run:  runReadHit})
	register(&Rule{ID: "READ.ENTRY", Engine: "E-SIB", Min: 1,
		Desc: "every types.Entry literal outside the skiplist that copies fields from another entry sets Key, Value, Tombstone and Version, each from the field of the same name",
		Run:  func(c *Ctx, r *RuleRun) { runReadEntry(c, r, false) }})
	register(&Rule{ID: "SKIP.COPY", Engine: "E-SIB", Min: 5,
		Desc: "every types.Entry literal in the skiplist (node creation and the copies handed out by Get, LowerBound, Scan, All) sets Key, Value, Tombstone and Version, each from the field of the same name",
		Run:  func(c *Ctx, r *RuleRun) { runReadEntry(c, r, true) }})
	register(&Rule{ID: "CLOSE.ORDER", Engine: "E-PATH", Min: 3,
		Desc: "Close: the active memtable is frozen and then either flushed to a table or (empty) its wal removed, on every path; the closed state is published last",
		Run:  runCloseOrder})
	register(&Rule{ID: "ORACLE.RESTART", Engine: "E-DEP", Min: 5,
		Desc: "Open restarts the oracle strictly above max(version recovered from the wals, version recovered from the tables) and finishes both watermarks at that maximum; both recoveries take the maximum over every entry they read",
		Run:  runOracleRestart})
	register(&Rule{ID: "CMP.ORDER", Engine: "E-DEP", Min: 4,
		Desc: "outside the skiplist, versioned keys are ordered only by types.CompareKeys: no raw string comparison (<, >, strings.Compare) is applied to a value that is a versioned key",
		Run:  func(c *Ctx, r *RuleRun) { runCmpOrder(c, r, false) }})
	register(&Rule{ID: "SKIP.CMP", Engine: "E-DEP", Min: 0,
		Desc: "inside the skiplist package keys are ordered only by types.CompareKeys (no raw string comparison of keys)",
		Run:  func(c *Ctx, r *RuleRun) { runCmpOrder(c, r, true) }})
	register(&Rule{ID: "CMP.TOMB", Engine: "E-GUARD+E-CG", Min: 2,
		Desc: "nothing reachable from a compaction decides on Entry.Tombstone whether an entry is kept (only the codec reads the flag): deletions survive merges",
		Run:  runCmpTomb})
	register(&Rule{ID: "CMP.SIB", Engine: "E-SIB", Min: 3,
		Desc: "compactL0 and compactLN perform the same steps in the same order from the merge on, feed the merge older level first, and remove from the lists and from disk the same tables they merged",
		Run:  runCmpSib})
	register(&Rule{ID: "KWAY.ORDER", Engine: "E-SIB", Min: 2, Spec: true,
		Desc: "k-way merge: the heap orders by CompareKeys and, for equal keys, by list index ascending, so the entry of the newest list is written last and wins",
		Run:  runKwayOrder})
	register(&Rule{ID: "BLOOM.SIB", Engine: "E-SIB", Min: 3,
		Desc: "filter.Add and filter.Contains compute the same bit index from the same hash functions in the same order; bits are only ever set",
		Run:  runBloomSib})
	register(&Rule{ID: "BLOOM.RESET", Engine: "E-PATH", Min: 1,
		Desc: "after fn.Write the hash state is Reset before the function can return or reuse the function",
		Run:  runBloomReset})
	register(&Rule{ID: "BLOOM.KEY", Engine: "E-DEP", Min: 4,
		Desc: "filters are built from and queried with the same projection of the key (types.ParseKey); every table handle's filter is built from the entries of that table",
		Run:  runBloomKey})
	register(&Rule{ID: "BLOOM.SIGN", Engine: "types.Sizes", Min: 0,
		Desc: "no unsigned 32-bit hash is converted to a 32-bit int before the modulo/index (only decided under GOARCH with 32-bit int)",
		Run:  runBloomSign})
	register(&Rule{ID: "SKIP.DESCENT", Engine: "E-SIB", Min: 6,
		Desc: "all skiplist descents (Set, Get, LowerBound, Scan, Delete) use the same loop bounds and the same advance predicate next != nil && CompareKeys(next.Key, target) < 0; exact matches test CompareKeys == 0",
		Run:  runSkipDescent})
	register(&Rule{ID: "SKIP.UPDATE", Engine: "E-PATH", Min: 2,
		Desc: "Set on an existing versioned key stores the new value and tombstone flag into the node and inserts nothing",
		Run:  runSkipUpdate})
}

// ---- list traversal facts ----

type listUse struct {
	ins  *ssa.Call
	fn   *ssa.Function
	name string // PushBack, Front, Back, Next, Prev, Remove ...
}

func listUses(p *Prog, root *types.Var) []listUse {
	var out []listUse
	for _, f := range p.Funcs {
		if strings.HasSuffix(p.Fset.Position(f.Pos()).Filename, "_test.go") {
			continue
		}
		eachInstr(f, func(ins ssa.Instruction) {
			call, ok := ins.(*ssa.Call)
			if !ok {
				return
			}
			obj := p.ExtCallee(call)
			if obj == nil || obj.Pkg() == nil || obj.Pkg().Path() != "container/list" || len(call.Call.Args) == 0 {
				return
			}
			if p.containerRoot(call.Call.Args[0], 0) == root {
				out = append(out, listUse{call, f, obj.Name()})
			}
		})
	}
	return out
}

func runReadOrder(c *Ctx, r *RuleRun) {
	p := c.P
	la := c.Locks()
	search := p.FnOr("", "DB", "search")
	if search == nil {
		r.Undecided("-", "DB.search", "", "anchor (*DB).search not found")
		return
	}
	searchReach := la.roleReach([]*ssa.Function{search})
	for _, spec := range []struct{ typ, field string }{{"DB", "immutables"}, {"levelManager", "levels"}} {
		fv := p.Field("", spec.typ, spec.field)
		if fv == nil {
			r.Undecided("-", spec.typ+"."+spec.field, "", "anchor field not found")
			continue
		}
		uses := listUses(p, fv)
		ins := map[string]bool{}
		for _, u := range uses {
			if u.name == "PushBack" || u.name == "PushFront" {
				ins[u.name] = true
				r.Hold(p.FnName(u.fn), spec.field+" insert "+u.name, p.Pos(instrPos(u.ins)), "insertion end")
			}
		}
		if len(ins) != 1 {
			r.Viol(spec.typ, spec.field+" insertion end", "", fmt.Sprintf("elements are inserted with %v: the list no longer encodes age", keys(ins)))
			continue
		}
		wantStart, wantStep := "Back", "Prev"
		if ins["PushFront"] {
			wantStart, wantStep = "Front", "Next"
		}
		// lookups: functions reachable from DB.search that walk the list
		walked := map[*ssa.Function]map[string]*ssa.Call{}
		for _, u := range uses {
			if !searchReach[u.fn] {
				continue
			}
			switch u.name {
			case "Front", "Back", "Next", "Prev":
				if walked[u.fn] == nil {
					walked[u.fn] = map[string]*ssa.Call{}
				}
				walked[u.fn][u.name] = u.ins
			}
		}
		if len(walked) == 0 {
			r.Undecided(p.FnName(search), spec.field+" lookup walk", p.Pos(search.Pos()), "no list walk reachable from DB.search")
		}
		for f, w := range walked {
			var names []string
			for n := range w {
				names = append(names, n)
			}
			sort.Strings(names)
			ok := len(w) == 2 && w[wantStart] != nil && w[wantStep] != nil
			var pos token.Pos = f.Pos()
			for _, cl := range w {
				pos = instrPos(cl)
			}
			r.Check(ok, p.FnName(f), spec.field+" lookup walk", p.Pos(pos), "newest first: "+wantStart+"() then "+wantStep+"()",
				fmt.Sprintf("the lookup walks the list with %v although elements are appended with %s: an older element answers before a newer one", names, keys(ins)[0]))
		}
	}
	// the flusher removes the memtable it flushed
	imm := p.Field("", "DB", "immutables")
	flushC := p.Field("", "DB", "flushC")
	if imm != nil && flushC != nil {
		n := 0
		for _, u := range listUses(p, imm) {
			if u.name != "Remove" {
				continue
			}
			n++
			// the removed element e satisfies e.Value.(*memtable) == <value received from flushC>
			elem := u.ins.Call.Args[1]
			received := func(v ssa.Value) bool {
				return p.dependsOn(v, func(x ssa.Value) bool {
					if sel, ok := x.(*ssa.Select); ok {
						for _, st := range sel.States {
							if fv, _ := loadedField(st.Chan); fv == flushC {
								return true
							}
						}
					}
					if u, ok := x.(*ssa.UnOp); ok && u.Op == token.ARROW {
						fv, _ := loadedField(u.X)
						return fv == flushC
					}
					return false
				})
			}
			ofElem := func(v ssa.Value) bool {
				return p.dependsOn(v, func(x ssa.Value) bool { return x == elem })
			}
			// the removal may live in a helper that is handed the flushed memtable
			recv := func(v ssa.Value) bool { return p.through(v, received) }
			ok := hasFact(u.ins, func(cm Cmp) bool {
				return cm.Op == "==" && cm.Y != nil && ((ofElem(cm.X) && recv(cm.Y)) || (ofElem(cm.Y) && recv(cm.X)))
			})
			if !ok {
				// a search loop written out: for e != nil && e.Value != imt { e = e.Next() }; if e != nil { Remove(e) } - every
				// way into the non-nil test either has e == nil (and does not get past it) or has found the memtable
				for _, ce := range dominatingConds(u.ins) {
					cm := canonCond(ce.If.Cond, ce.Truth)
					if !(cm.Op == "!=" && cm.Y != nil && cm.X == elem && isNilConst(cm.Y)) {
						continue
					}
					tb := ce.If.Block()
					if len(tb.Preds) < 2 {
						continue
					}
					all := true
					for _, pb := range tb.Preds {
						way := false
						for _, f0 := range edgeFacts(pb, tb) {
							for _, c2 := range []Cmp{f0, f0.Flip()} {
								if c2.Op != "==" || c2.Y == nil {
									continue
								}
								if c2.X == elem && isNilConst(c2.Y) {
									way = true
								}
								if ofElem(c2.X) && recv(c2.Y) {
									way = true
								}
							}
						}
						if !way {
							all = false
						}
					}
					if all {
						ok = true
					}
				}
			}
			if hc, isCall := elem.(*ssa.Call); isCall && !ok {
				// the element was looked up by a helper: elementOf(list, mt) answers nil or the element whose value is mt,
				// and the removal happens only for a non-nil answer
				if h := hc.Call.StaticCallee(); h != nil && h.Pkg == u.fn.Pkg && len(h.Blocks) > 0 {
					byValue := -1
					good := true
					nret := 0
					eachInstr(h, func(i2 ssa.Instruction) {
						ret, isRet := i2.(*ssa.Return)
						if !isRet || len(ret.Results) != 1 {
							return
						}
						nret++
						rv := retOperand(ret, 0)
						var ways [][]Cmp
						if len(ret.Block().Preds) > 1 && instrIndex(ret) <= 1 {
							for _, pb := range ret.Block().Preds {
								ways = append(ways, edgeFacts(pb, ret.Block()))
							}
						} else {
							ways = append(ways, factsAt(ret))
						}
						for _, facts := range ways {
							okWay := isNilConst(rv)
							for _, f0 := range facts {
								for _, cm := range []Cmp{f0, f0.Flip()} {
									if cm.Op != "==" || cm.Y == nil {
										continue
									}
									if cm.X == rv && isNilConst(cm.Y) {
										okWay = true
									}
									if pr, isParam := cm.Y.(*ssa.Parameter); isParam && p.dependsOn(cm.X, func(x ssa.Value) bool { return x == rv }) {
										for k, q := range h.Params {
											if q == pr {
												byValue = k
												okWay = true
											}
										}
									}
								}
							}
							if !okWay {
								good = false
							}
						}
					})
					nonNil := hasFact(u.ins, func(cm Cmp) bool { return cm.Op == "!=" && cm.X == elem && cm.Y != nil && isNilConst(cm.Y) })
					if good && nret > 0 && byValue >= 0 && byValue < len(hc.Call.Args) && nonNil && recv(hc.Call.Args[byValue]) {
						ok = true
					}
				}
			}
			r.Check(ok, p.FnName(u.fn), "immutables remove flushed", p.Pos(instrPos(u.ins)), "removes the element holding the memtable received from flushC",
				"the element removed from DB.immutables is not tied to the memtable that was just flushed: with several memtables queued an unflushed one becomes unreachable and its committed keys read as not-found")
		}
		if n == 0 {
			r.Viol("DB", "immutables remove flushed", "", "flushed memtables are never removed from DB.immutables")
		}
	}
	// DB.search: memtable, then immutables, then tables
	mem := p.Field("", "DB", "memtable")
	mgr := p.Field("", "DB", "manager")
	var first [3]ssa.Instruction
	fields3 := []*types.Var{mem, imm, mgr}
	for _, b := range search.DomPreorder() {
		for _, ins := range b.Instrs {
			for idx, fv := range fields3 {
				if first[idx] != nil {
					continue
				}
				if p.loadsField(fv)(ins) {
					first[idx] = ins
				} else if call, ok := ins.(*ssa.Call); ok && idx > 0 && p.SiteMayReach(call, p.loadsField(fv)) {
					// the source is consulted inside a helper
					first[idx] = ins
				}
			}
		}
	}
	if first[0] == nil || first[1] == nil || first[2] == nil {
		r.Undecided(p.FnName(search), "source order", p.Pos(search.Pos()), "DB.search does not consult memtable, immutables and manager")
	} else {
		ok := dominatesInstr(first[0], first[1]) && dominatesInstr(first[1], first[2])
		r.Check(ok, p.FnName(search), "source order", p.Pos(instrPos(first[0])), "memtable before immutables before tables", "DB.search does not consult the active memtable first, then the immutables, then the tables: an older source answers first")
	}
}

func keys(m map[string]bool) []string {
	var out []string
	for k := range m {
		out = append(out, k)
	}
	sort.Strings(out)
	return out
}

func runReadPublish(c *Ctx, r *RuleRun) {
	p := c.P
	la := c.Locks()
	mem := p.Field("", "DB", "memtable")
	imm := p.Field("", "DB", "immutables")
	flushC := p.Field("", "DB", "flushC")
	if mem == nil || imm == nil || flushC == nil {
		r.Undecided("-", "DB fields", "", "anchor fields not found")
		return
	}
	n := 0
	for _, f := range p.Funcs {
		if !hasNonInitRole(la, f) {
			continue
		}
		for _, st := range storesToField(f, mem) {
			n++
			fn := p.FnName(f)
			var inserts []ssa.Instruction
			for _, u := range listUses(p, imm) {
				if u.fn == f && (u.name == "PushBack" || u.name == "PushFront") {
					inserts = append(inserts, u.ins)
				}
			}
			if len(inserts) == 0 {
				r.Viol(fn, "rotation inserts the frozen memtable", p.Pos(instrPos(st)), "DB.memtable is replaced without inserting the old memtable into DB.immutables: its keys are unreachable until it is flushed")
				continue
			}
			// same DB.mu region: no Unlock of DB.mu between insert and store (either order)
			unlock := func(i ssa.Instruction) bool {
				op := la.opAt[i]
				return op != nil && op.Unlock && op.Lock == "DB.mu"
			}
			split := false
			for _, in := range inserts {
				for _, pair := range [][2]ssa.Instruction{{in, st}, {st, in}} {
					q := PathQuery{P: p, Fn: f, Starts: []ssa.Instruction{pair[0]}, Target: unlock, Avoid: func(i ssa.Instruction) bool { return i == pair[1] }}
					if w := q.FindPath(); w != nil {
						// an unlock reachable from the first without passing the second
						q2 := PathQuery{P: p, Fn: f, Starts: []ssa.Instruction{w[len(w)-1]}, Target: func(i ssa.Instruction) bool { return i == pair[1] }}
						if q2.FindPath() != nil {
							split = true
						}
					}
				}
				_, h1 := la.Must[in]["DB.mu"]
				_, h2 := la.Must[st]["DB.mu"]
				if !h1 || !h2 {
					split = true
				}
			}
			r.Check(!split, fn, "insert and swap in one DB.mu region", p.Pos(instrPos(st)), "readers see the frozen memtable either as active or in immutables, never in neither",
				"the insertion into DB.immutables and the replacement of DB.memtable are not in one DB.mu critical section: a reader in between misses the frozen memtable's keys")
		}
	}
	// insert before the flusher is notified: every send on flushC (in any function) is preceded, on every path from
	// the entry of its function - or of the callers, if the function itself does not insert - by the insertion
	isInsertCall := func(i ssa.Instruction) bool {
		call, ok := i.(*ssa.Call)
		if !ok {
			return false
		}
		obj := p.ExtCallee(call)
		if obj == nil || obj.Pkg() == nil || obj.Pkg().Path() != "container/list" || !(obj.Name() == "PushBack" || obj.Name() == "PushFront") {
			return false
		}
		return p.containerRoot(call.Call.Args[0], 0) == imm
	}
	ins := NewMustDo(p, isInsertCall)
	var preceded func(target ssa.Instruction, depth int) bool
	preceded = func(target ssa.Instruction, depth int) bool {
		f := target.Parent()
		q := PathQuery{P: p, Fn: f, Avoid: ins.Instr, Target: func(i ssa.Instruction) bool { return i == target }}
		if q.FindPath() == nil {
			return true
		}
		if depth >= 3 {
			return false
		}
		sites := p.CallersOf(f)
		if len(sites) == 0 {
			return false
		}
		for _, cs := range sites {
			if !preceded(cs, depth+1) {
				return false
			}
		}
		return true
	}
	sends := 0
	for _, f := range p.Funcs {
		if !hasNonInitRole(la, f) {
			continue
		}
		eachInstr(f, func(i ssa.Instruction) {
			snd, ok := i.(*ssa.Send)
			if !ok {
				return
			}
			if fv, _ := loadedField(snd.Chan); fv != flushC {
				return
			}
			sends++
			r.Check(preceded(i, 0), p.FnName(f), "insert before notifying the flusher", p.Pos(instrPos(snd)), "the memtable is in DB.immutables before the flusher can see it",
				"the frozen memtable is sent to the flusher before it is inserted into DB.immutables: the flusher can finish and try to remove an element that is not there yet")
		})
	}
	if sends == 0 && n > 0 {
		r.Viol("DB", "notify the flusher", "", "the frozen memtable is never handed to the flusher")
	}
	if n == 0 {
		r.Undecided("-", "rotation", "", "no store to DB.memtable outside initialisation")
	}
}

func runReadFlusher(c *Ctx, r *RuleRun) {
	p := c.P
	la := c.Locks()
	d := c.Dur()
	open := p.Fn("", "", "Open")
	if open == nil {
		r.Undecided("-", "Open", "", "anchor Open not found")
		return
	}
	gos := 0
	eachInstr(open, func(ins ssa.Instruction) {
		if g, ok := ins.(*ssa.Go); ok {
			gos++
			r.Check(!inLoop(g.Block()), "Open", "one flusher", p.Pos(instrPos(g)), "started once", "the flusher is started in a loop: several flushers write L0 tables out of order")
		}
	})
	if gos != 1 {
		r.Viol("Open", "one flusher", p.Pos(open.Pos()), fmt.Sprintf("%d goroutines are started by Open (expected exactly one flusher)", gos))
	}
	// who may publish a table? call sites (outside role F) that reach a table publish
	closed := p.Field("", "DB", "closed")
	publishes := func(ins ssa.Instruction) bool {
		fe := d.effects[ins]
		return fe != nil && fe.Kind == "rename" && fe.To == "table"
	}
	n := 0
	for _, f := range p.Funcs {
		roles := la.Roles[f]
		if len(roles) == 0 || roles["F"] && len(roles) == 1 {
			continue
		}
		// only the outermost non-flusher functions: role roots of C and U
		isRoot := false
		for _, role := range []string{"C", "U"} {
			for _, rt := range la.RoleRoots[role] {
				if rt == f {
					isRoot = true
				}
			}
		}
		if !isRoot {
			continue
		}
		eachInstr(f, func(ins ssa.Instruction) {
			call, ok := ins.(*ssa.Call)
			if !ok || !p.SiteMayReach(call, publishes) {
				return
			}
			// reachable without a go statement in between?
			reach := false
			for g := range la.roleReach(p.Callees(call)) {
				eachInstr(g, func(i2 ssa.Instruction) {
					if publishes(i2) {
						reach = true
					}
				})
			}
			if !reach {
				return
			}
			n++
			recv := func(i ssa.Instruction) bool {
				u, ok := i.(*ssa.UnOp)
				if !ok || u.Op != token.ARROW {
					return false
				}
				fv, _ := loadedField(u.X)
				return fv == closed
			}
			if closed == nil {
				r.Undecided(p.FnName(f), "flush after the flusher stopped", p.Pos(instrPos(call)), "anchor field DB.closed not found")
				return
			}
			// the wait may live in a helper (stopFlusher): a call that receives from db.closed on every path counts
			q := PathQuery{P: p, Fn: f, Avoid: NewMustDo(p, recv).Instr, Target: func(i ssa.Instruction) bool { return i == ins }}
			r.Check(q.FindPath() == nil, p.FnName(f), "flush after the flusher stopped", p.Pos(instrPos(call)), "dominated by <-db.closed",
				"a table is written outside the flusher while the flusher may still be flushing older memtables: the newest data can get the lower table index and lose lookups after a restart")
		})
	}
	if n == 0 {
		r.Hold("-", "flush outside the flusher", "", "only the flusher writes tables")
	}
}

// sameKeyArgs: IsSameKey(a, b) compares the key asked for (a parameter, or a variable of the enclosing function a
// closure captured) with the key of an entry.
func sameKeyArgs(call *ssa.Call) bool {
	isAsked := func(v ssa.Value) bool {
		switch x := v.(type) {
		case *ssa.Parameter:
			return true
		case *ssa.FreeVar:
			return true
		case *ssa.UnOp:
			_, fv := x.X.(*ssa.FreeVar)
			return fv && x.Op == token.MUL
		}
		return false
	}
	if len(call.Call.Args) != 2 {
		return false
	}
	return isAsked(call.Call.Args[0]) != isAsked(call.Call.Args[1])
}

// sameKeyFilter: every way on which the lookup helper (or closure) h answers "found" carries the same-user-key test:
// the answer is the test itself (`return entry, ok && IsSameKey(key, entry.Key)`), or a fact of that way, or - via
// deeper - what a helper of h established.
func sameKeyFilter(p *Prog, h, isSame *ssa.Function, deeper func(*ssa.Return) bool) bool {
	all, n := true, 0
	for _, rc := range returnCases(h) {
		if len(rc.Vals) != 2 || isConstBool(rc.Vals[1], false) {
			continue
		}
		n++
		if call := callTo(p, rc.Vals[1], isSame); call != nil && sameKeyArgs(call) {
			continue
		}
		if caseBoolFact(rc, func(v ssa.Value) bool {
			call := callTo(p, v, isSame)
			return call != nil && sameKeyArgs(call)
		}, true) {
			continue
		}
		if deeper == nil || !deeper(rc.Ret) {
			all = false
		}
	}
	return all && n > 0
}

func runReadHit(c *Ctx, r *RuleRun) {
	p := c.P
	search := p.FnOr("", "DB", "search")
	isSame := p.Fn("types", "", "IsSameKey")
	valueFn := p.Fn("types", "", "Value")
	slb := p.FnOr("", "levelManager", "searchLowerBound")
	if search == nil || isSame == nil || valueFn == nil || slb == nil {
		r.Undecided("-", "anchors", "", "DB.search / types.IsSameKey / types.Value / levelManager.searchLowerBound not found")
		return
	}
	var sameKeyFactD func(ins ssa.Instruction, depth int) bool
	sameKeyFactD = func(ins ssa.Instruction, depth int) bool {
		if boolFactIs(ins, func(v ssa.Value) bool {
			call := callTo(p, v, isSame)
			if call == nil {
				return false
			}
			return sameKeyArgs(call)
		}, true) {
			return true
		}
		if depth > 1 {
			return false
		}
		// the "found" result of a helper of the package whose own found-returns all carry the same-key test
		return boolFactIs(ins, func(v ssa.Value) bool {
			ex, ok := v.(*ssa.Extract)
			if !ok || ex.Index != 1 {
				return false
			}
			cl, ok := ex.Tuple.(*ssa.Call)
			if !ok {
				return false
			}
			h := cl.Call.StaticCallee()
			if h == nil || !isEntryLookup(p, h) || h.Pkg != search.Pkg {
				return false
			}
			return sameKeyFilter(p, h, isSame, func(ret *ssa.Return) bool { return sameKeyFactD(ret, depth+1) })
		}, true)
	}
	sameKeyFact := func(ins ssa.Instruction) bool { return sameKeyFactD(ins, 0) }
	// DB.search: found-returns
	for _, rc := range returnCases(search) {
		if len(rc.Vals) != 2 {
			continue
		}
		// (named results of a deferring function live in cells: one case per assignment that can be the last one)
		found := rc.Vals[1]
		var ret ssa.Instruction = rc.At
		if isConstBool(found, false) {
			continue
		}
		viaValue := false
		if ex, ok := found.(*ssa.Extract); ok {
			viaValue = callTo(p, ex.Tuple, valueFn) != nil
		}
		if viaValue && !sameKeyFact(ret) {
			// the hit is decided by a boolean helper or closure of the package that this rule does not read into (it may
			// well carry the same-key test): undecided, not a violation
			if boolFactIs(ret, func(v ssa.Value) bool {
				cl, ok := v.(*ssa.Call)
				if !ok {
					return false
				}
				h := cl.Call.StaticCallee()
				return h != nil && h.Pkg == search.Pkg && resultIs(h, types.Bool) && p.FuncMayDo(h, func(i ssa.Instruction) bool {
					c2, ok := i.(*ssa.Call)
					return ok && c2.Call.StaticCallee() == isSame
				})
			}, true) {
				r.Undecided(p.FnName(search), "found-return", p.Pos(instrPos(ret)), "the hit is decided inside a boolean helper that calls IsSameKey; this rule reads the test only in DB.search and its lookup helpers")
				continue
			}
		}
		r.Check(viaValue && sameKeyFact(ret), p.FnName(search), "found-return", p.Pos(instrPos(ret)), "same user key, value through types.Value",
			"a lookup result is returned without the same-user-key test or without going through types.Value: a neighbouring key's value or a deleted value is returned")
	}
	// table search: found-returns need the same-key test (so that the walk continues otherwise)
	eachInstr(slb, func(ins ssa.Instruction) {
		ret, ok := ins.(*ssa.Return)
		if !ok || !isConstBool(retOperand(ret, 1), true) {
			return
		}
		r.Check(sameKeyFact(ret), p.FnName(slb), "found-return", p.Pos(instrPos(ret)), "a table answers only with a version of the requested key, otherwise the next table is searched",
			"the table search ends with the first lower bound of any key: a newer table that holds only newer versions (or a neighbouring key) hides the visible version in an older table")
	})
	// types.Value: tombstone means not found
	tomb := p.Field("types", "Entry", "Tombstone")
	for _, rc := range returnCases(valueFn) {
		ret := rc.Ret
		if len(rc.Vals) != 2 {
			continue
		}
		// `return e.Value, !e.Tombstone` says the same
		if u, isNot := rc.Vals[1].(*ssa.UnOp); isNot && u.Op == token.NOT {
			if fv, _ := loadedField(u.X); fv == tomb && tomb != nil {
				r.Hold(p.FnName(valueFn), "found only if not deleted", p.Pos(instrPos(ret)), "found = !Tombstone")
				continue
			}
		}
		if isConstBool(rc.Vals[1], true) {
			g := caseBoolFact(rc, func(v ssa.Value) bool {
				fv, _ := loadedField(v)
				if fv == tomb {
					return true
				}
				if fx, ok := v.(*ssa.Field); ok {
					return fx.X.Type().Underlying().(*types.Struct).Field(fx.Field) == tomb
				}
				return false
			}, false)
			r.Check(g, p.FnName(valueFn), "found only if not deleted", p.Pos(instrPos(ret)), "returns found only when Tombstone is false", "types.Value reports a deleted entry as found")
		}
	}
	// Txn.Get buffer hit: tombstone in the own write buffer means not found
	get := p.Fn("", "Txn", "Get")
	if get != nil {
		isTomb := func(v ssa.Value) bool {
			if fv, _ := loadedField(v); fv == tomb {
				return true
			}
			if fx, ok := v.(*ssa.Field); ok {
				return fx.X.Type().Underlying().(*types.Struct).Field(fx.Field) == tomb
			}
			return false
		}
		entryT := p.Named("types", "Entry")
		takesEntry := func(h *ssa.Function) bool {
			for _, q := range h.Params {
				t := q.Type()
				if pt, ok := t.Underlying().(*types.Pointer); ok {
					t = pt.Elem()
				}
				if n := p.isModuleNamed(t); n != nil && n == entryT {
					return true
				}
			}
			return false
		}
		var foundReturns func(g *ssa.Function, depth int)
		foundReturns = func(g *ssa.Function, depth int) {
			eachInstr(g, func(ins ssa.Instruction) {
				ret, ok := ins.(*ssa.Return)
				if !ok || len(ret.Results) != 2 {
					return
				}
				// `return v.Value, !v.Tombstone` says the same thing as the guarded form
				if u, isNot := retOperand(ret, 1).(*ssa.UnOp); isNot && u.Op == token.NOT && isTomb(u.X) {
					r.Hold(p.FnName(get), "own delete reads as not found", p.Pos(instrPos(ret)), "found = !Tombstone of the buffered entry")
					return
				}
				// the answer of a helper that is handed the buffered entry: the helper is held to the same rule
				if ex, isEx := retOperand(ret, 1).(*ssa.Extract); isEx && depth < 3 {
					if call, isCall := ex.Tuple.(*ssa.Call); isCall {
						if h := call.Call.StaticCallee(); h != nil && takesEntry(h) && len(h.Blocks) > 0 {
							if h == valueFn {
								r.Hold(p.FnName(get), "own delete reads as not found", p.Pos(instrPos(ret)), "answered by types.Value, which is held to 'found only if not deleted'")
							} else if h.Pkg == get.Pkg {
								foundReturns(h, depth+1)
							}
						}
					}
					return
				}
				if !isConstBool(retOperand(ret, 1), true) {
					return
				}
				g := hasFact(ret, func(cm Cmp) bool {
					if cm.Y != nil || cm.Op != "false" {
						return false
					}
					return isTomb(cm.X)
				})
				r.Check(g, p.FnName(get), "own delete reads as not found", p.Pos(instrPos(ret)), "a buffered entry is returned only when it is not a tombstone", "a key deleted earlier in the same transaction is returned as found")
			})
		}
		foundReturns(get, 0)
	}
}

func runReadEntry(c *Ctx, r *RuleRun, skiplistOnly bool) {
	p := c.P
	entry := p.Named("types", "Entry")
	if entry == nil {
		r.Undecided("-", "types.Entry", "", "anchor not found")
		return
	}
	isEntryLike := func(t types.Type) bool {
		if pt, ok := t.Underlying().(*types.Pointer); ok {
			t = pt.Elem()
		}
		n, ok := types.Unalias(t).(*types.Named)
		if !ok {
			return false
		}
		if n == entry {
			return true
		}
		// structs embedding Entry (skiplist.Element, kway.Element)
		if st, ok := n.Underlying().(*types.Struct); ok {
			for i := 0; i < st.NumFields(); i++ {
				if st.Field(i).Embedded() && types.Unalias(st.Field(i).Type()) == types.Type(entry) {
					return true
				}
			}
		}
		return false
	}
	for _, pk := range p.Pkgs {
		for _, file := range pk.Syntax {
			fname := p.Fset.Position(file.Pos()).Filename
			if strings.HasSuffix(fname, "_test.go") || strings.HasSuffix(fname, "types/entry.go") {
				continue
			}
			if strings.HasSuffix(pk.PkgPath, "/skiplist") != skiplistOnly {
				continue
			}
			var encl string
			ast.Inspect(file, func(n ast.Node) bool {
				if fd, ok := n.(*ast.FuncDecl); ok {
					encl = fd.Name.Name
					if fd.Recv != nil && len(fd.Recv.List) > 0 {
						encl = types.ExprString(fd.Recv.List[0].Type) + "." + encl
					}
				}
				cl, ok := n.(*ast.CompositeLit)
				if !ok {
					return true
				}
				tv, ok := pk.TypesInfo.Types[cl]
				if ok && types.Unalias(tv.Type) != types.Type(entry) && isEntryLike(tv.Type) {
					// a node built around the entry as a whole (`&Element{Entry: entry, …}`): nothing can be left out
					for _, el := range cl.Elts {
						kv, isKV := el.(*ast.KeyValueExpr)
						if !isKV {
							continue
						}
						id, isID := kv.Key.(*ast.Ident)
						if !isID || id.Name != "Entry" {
							continue
						}
						if _, isLit := kv.Value.(*ast.CompositeLit); isLit {
							continue
						}
						if vt, ok := pk.TypesInfo.Types[kv.Value]; ok && types.Unalias(vt.Type) == types.Type(entry) {
							r.Hold(encl, "Entry literal", p.Pos(kv.Pos()), "the entry is copied as a whole")
						}
					}
					return true
				}
				if !ok || types.Unalias(tv.Type) != types.Type(entry) {
					return true
				}
				set := map[string]ast.Expr{}
				for _, el := range cl.Elts {
					if kv, ok := el.(*ast.KeyValueExpr); ok {
						if id, ok := kv.Key.(*ast.Ident); ok {
							set[id.Name] = kv.Value
						}
					}
				}
				// does it copy from another entry?
				copies := false
				cross := ""
				for name, val := range set {
					ast.Inspect(val, func(m ast.Node) bool {
						sel, ok := m.(*ast.SelectorExpr)
						if !ok {
							return true
						}
						if xt, ok := pk.TypesInfo.Types[sel.X]; ok && isEntryLike(xt.Type) {
							switch sel.Sel.Name {
							case "Key", "Value", "Tombstone", "Version":
								copies = true
								// direct copy X.G into field F requires F == G
								if val == ast.Expr(sel) && sel.Sel.Name != name {
									cross = fmt.Sprintf("%s is filled from .%s", name, sel.Sel.Name)
								}
							}
						}
						return true
					})
				}
				if !copies {
					return true
				}
				var missing []string
				for _, f := range []string{"Key", "Value", "Tombstone", "Version"} {
					if set[f] == nil {
						missing = append(missing, f)
					}
				}
				pos := p.Pos(cl.Pos())
				switch {
				case len(missing) > 0:
					r.Viol(encl, "Entry literal", pos, fmt.Sprintf("an entry is copied without %v: a dropped Tombstone resurrects deleted keys, a dropped Version breaks recovery of the oracle", missing))
				case cross != "":
					r.Viol(encl, "Entry literal", pos, "an entry is copied with crossed fields: "+cross)
				default:
					r.Hold(encl, "Entry literal", pos, "all four fields copied")
				}
				return true
			})
		}
	}
}

func runCloseOrder(c *Ctx, r *RuleRun) {
	p := c.P
	d := c.Dur()
	cf := p.Fn("", "DB", "Close")
	if cf == nil {
		r.Undecided("-", "DB.Close", "", "anchor not found")
		return
	}
	fn := p.FnName(cf)
	readOnly := p.Field("", "memtable", "readOnly")
	freezes := func(ins ssa.Instruction) bool {
		call, ok := ins.(*ssa.Call)
		if !ok {
			return false
		}
		return p.SiteMayReach(call, func(i ssa.Instruction) bool {
			st, ok := i.(*ssa.Store)
			if !ok {
				return false
			}
			fv, _ := fieldOfAddr(st.Addr)
			return fv == readOnly && isConstBool(st.Val, true)
		})
	}
	publishes := func(ins ssa.Instruction) bool {
		fe := d.effects[ins]
		return fe != nil && fe.Kind == "rename" && fe.To == "table"
	}
	removesWal := func(ins ssa.Instruction) bool {
		fe := d.effects[ins]
		return fe != nil && fe.Kind == "remove" && fe.Class == "wal"
	}
	settle := func(ins ssa.Instruction) bool {
		call, ok := ins.(*ssa.Call)
		return ok && (p.SiteMayReach(call, publishes) || p.SiteMayReach(call, removesWal))
	}
	q := PathQuery{P: p, Fn: cf, Avoid: settle, Target: isReturn}
	if w := q.FindPath(); w != nil {
		r.Viol(fn, "active memtable settled", p.Pos(cf.Pos()), "Close can return without flushing the active memtable or removing its (empty) wal", p.describePath(w)...)
	} else {
		r.Hold(fn, "active memtable settled", p.Pos(cf.Pos()), "every return is preceded by a flush to a table or the removal of the empty wal")
	}
	// freeze before flush
	n := 0
	eachInstr(cf, func(ins ssa.Instruction) {
		call, ok := ins.(*ssa.Call)
		if !ok || !p.SiteMayReach(call, publishes) {
			return
		}
		n++
		q := PathQuery{P: p, Fn: cf, Avoid: freezes, Target: func(i ssa.Instruction) bool { return i == ins }}
		r.Check(q.FindPath() == nil, fn, "freeze before flush", p.Pos(instrPos(call)), "the memtable is frozen (wal closed, read-only) before it is flushed", "the active memtable is flushed without being frozen first")
	})
	if n == 0 {
		r.Viol(fn, "flush", p.Pos(cf.Pos()), "Close never flushes the active memtable")
	}
	runCloseState(c, r)
}

// runCloseState: Close publishes StateClosed on every path, after its work.
func runCloseState(c *Ctx, r *RuleRun) {
	p := c.P
	d := c.Dur()
	cf := p.Fn("", "DB", "Close")
	if cf == nil {
		r.Undecided("-", "DB.Close", "", "anchor not found")
		return
	}
	fn := p.FnName(cf)
	publishes := func(ins ssa.Instruction) bool {
		fe := d.effects[ins]
		return fe != nil && fe.Kind == "rename" && fe.To == "table"
	}
	removesWal := func(ins ssa.Instruction) bool {
		fe := d.effects[ins]
		return fe != nil && fe.Kind == "remove" && fe.Class == "wal"
	}
	settle := func(ins ssa.Instruction) bool {
		call, ok := ins.(*ssa.Call)
		return ok && (p.SiteMayReach(call, publishes) || p.SiteMayReach(call, removesWal))
	}
	// state closed published last: a deferred or final atomic store of StateClosed(3) to DB.state
	state := p.Field("", "DB", "state")
	isStateStore := func(ins ssa.Instruction) bool {
		ci, ok := ins.(ssa.CallInstruction)
		if !ok {
			return false
		}
		obj := p.CalleeObj(ci)
		if obj == nil || !funcIs(obj, "sync/atomic", "", "StoreUint32") {
			return false
		}
		args := ci.Common().Args
		if fv, _ := fieldOfAddr(args[0]); fv != state {
			return false
		}
		k, ok := constInt(args[1])
		return ok && k == 3
	}
	qs := PathQuery{P: p, Fn: cf, Avoid: isStateStore, Target: isReturn}
	if w := qs.FindPath(); w != nil {
		r.Viol(fn, "StateClosed on every path", p.Pos(instrPos(w[len(w)-1])), "Close can return without storing StateClosed: View/Update keep running transactions against the closed engine instead of returning ErrDBClosed", p.describePath(w)...)
	} else {
		r.Hold(fn, "StateClosed on every path", p.Pos(cf.Pos()), "every return is preceded by (a deferred) store of StateClosed")
	}
	last := false
	eachInstr(cf, func(ins ssa.Instruction) {
		ci, ok := ins.(ssa.CallInstruction)
		if !ok {
			return
		}
		obj := p.CalleeObj(ci)
		if obj == nil || !funcIs(obj, "sync/atomic", "", "StoreUint32") {
			return
		}
		args := ci.Common().Args
		if fv, _ := fieldOfAddr(args[0]); fv != state {
			return
		}
		if k, ok := constInt(args[1]); !ok || k != 3 {
			return
		}
		if _, isDefer := ins.(*ssa.Defer); isDefer {
			last = true
			return
		}
		// a plain store: nothing that settles may follow
		q := PathQuery{P: p, Fn: cf, Starts: []ssa.Instruction{ins}, Target: settle}
		if q.FindPath() == nil {
			last = true
		}
	})
	r.Check(last, fn, "StateClosed last", p.Pos(cf.Pos()), "the closed state is stored after the memtable was settled (deferred store)", "Close does not publish StateClosed after its work: View/Update keep accepting transactions, or report closed while the flush is still running")
}

func runOracleRestart(c *Ctx, r *RuleRun) {
	p := c.P
	a := c.Txn()
	if !a.ok(r) {
		return
	}
	open := p.Fn("", "", "Open")
	mrec, lrec := p.FnOr("", "memtable", "recover"), p.FnOr("", "levelManager", "recover")
	if open == nil || mrec == nil || lrec == nil {
		r.Undecided("-", "Open/recover", "", "anchors not found")
		return
	}
	fromM := func(v ssa.Value) bool { return callTo(p, v, mrec) != nil }
	fromL := func(v ssa.Value) bool { return callTo(p, v, lrec) != nil }
	isMax := func(v ssa.Value) bool {
		if isOpenCodedMax(p, v) {
			return true
		}
		call, ok := v.(*ssa.Call)
		if !ok {
			return false
		}
		bi, ok := call.Call.Value.(*ssa.Builtin)
		return ok && bi.Name() == "max"
	}
	isMin := func(v ssa.Value) bool {
		call, ok := v.(*ssa.Call)
		if !ok {
			return false
		}
		bi, ok := call.Call.Value.(*ssa.Builtin)
		return ok && bi.Name() == "min"
	}
	var base ssa.Value
	// the restart itself may live in a helper of Open: the checks run where nextTs is stored
	holder := p.directHolder(open, p.storesField(a.fNextTs))
	if holder == nil {
		holder = open
	}
	_, _ = isMax, isMin
	for _, st := range storesToField(holder, a.fNextTs) {
		bo, ok := st.Val.(*ssa.BinOp)
		k := int64(0)
		if ok {
			k, _ = constInt(bo.Y)
		}
		good := ok && bo.Op == token.ADD && k >= 1 && p.geq(bo.X, factsAt(st), fromM, 0) && p.geq(bo.X, factsAt(st), fromL, 0)
		r.Check(good, "Open", "nextTs = max(wal, tables) + 1", p.Pos(instrPos(st)), "strictly above both recovered maxima",
			"nextTs is not set strictly above max(version recovered from the wals, version recovered from the tables): new commits can get timestamps at or below stored versions and lose against them")
		if good {
			base = bo.X
		}
	}
	if base == nil {
		if len(storesToField(holder, a.fNextTs)) == 0 {
			r.Viol("Open", "nextTs restored", p.Pos(open.Pos()), "Open never restores oracle.nextTs")
		}
	} else {
		for _, mk := range []*types.Var{a.fReadMark, a.fCommitMark} {
			done := markCalls(p, mk, "Done")
			n := 0
			eachInstr(holder, func(ins ssa.Instruction) {
				if !done(ins) {
					return
				}
				call, isCall := ins.(*ssa.Call)
				if !isCall {
					return
				}
				n++
				arg := call.Call.Args[1]
				r.Check(arg == base, "Open", mk.Name()+".Done(maxTs)", p.Pos(instrPos(ins)), "finished at exactly nextTs-1", mk.Name()+" is finished at a timestamp other than the recovered maximum: the first snapshot (nextTs-1) waits forever or reads before recovery's data")
			})
			if n == 0 {
				r.Viol("Open", mk.Name()+".Done(maxTs)", p.Pos(open.Pos()), mk.Name()+" is never finished at the recovered timestamp")
			}
		}
	}
	ver := p.Field("types", "Entry", "Version")
	for _, rf := range []*ssa.Function{mrec, lrec} {
		good := false
		eachInstr(rf, func(ins ssa.Instruction) {
			ret, ok := ins.(*ssa.Return)
			if !ok {
				return
			}
			v := retOperand(ret, 0)
			if _, isConst := v.(*ssa.Const); isConst {
				return
			}
			if p.dependsOn(v, isMax) && !p.dependsOn(v, isMin) && p.dependsOn(v, func(x ssa.Value) bool { return isLoadOfField(x, ver) }) {
				good = true
			}
		})
		r.Check(good, p.FnName(rf), "returns max(entry.Version)", p.Pos(rf.Pos()), "the maximum over the versions of all entries read", "the recovery does not return the maximum version of the entries it read")
		// the update happens for every entry: it is in the loop and not under a further condition that depends on the entry
	}
}

// ---- C09 ----

func runCmpOrder(c *Ctx, r *RuleRun, skiplistOnly bool) {
	p := c.P
	cmpKeys := p.Fn("types", "", "CompareKeys")
	parseKey := p.Fn("types", "", "ParseKey")
	keyWithTs := p.Fn("types", "", "KeyWithTs")
	if cmpKeys == nil || parseKey == nil || keyWithTs == nil {
		r.Undecided("-", "types.CompareKeys", "", "anchors not found")
		return
	}
	keyFields := map[*types.Var]bool{}
	for _, kf := range [][3]string{{"types", "Entry", "Key"}, {"table", "IndexEntry", "StartKey"}, {"table", "IndexEntry", "EndKey"}} {
		if fv := p.Field(kf[0], kf[1], kf[2]); fv != nil {
			keyFields[fv] = true
		}
	}
	var isKeyD func(v ssa.Value, depth int, seen map[ssa.Value]bool) bool
	isKeyD = func(v ssa.Value, depth int, seen map[ssa.Value]bool) bool {
		if v == nil || depth > 8 || seen[v] {
			return false
		}
		seen[v] = true
		if callTo(p, v, parseKey) != nil {
			return false // sanitised: a user key
		}
		if callTo(p, v, keyWithTs) != nil {
			return true
		}
		if fv, _ := loadedField(v); fv != nil && keyFields[fv] {
			return true
		}
		switch x := v.(type) {
		case *ssa.Phi:
			for _, e := range x.Edges {
				if isKeyD(e, depth+1, seen) {
					return true
				}
			}
		case *ssa.UnOp:
			if x.Op == token.MUL {
				if al, ok := x.X.(*ssa.Alloc); ok {
					for _, ref := range *al.Referrers() {
						if st, ok := ref.(*ssa.Store); ok && st.Addr == al && isKeyD(st.Val, depth+1, seen) {
							return true
						}
					}
				}
				if ia, ok := x.X.(*ssa.IndexAddr); ok {
					return isKeyD(ia.X, depth+1, seen)
				}
			}
		case *ssa.Extract:
			return isKeyD(x.Tuple, depth+1, seen)
		case *ssa.Call:
			for _, g := range p.Callees(x) {
				found := false
				eachInstr(g, func(ins ssa.Instruction) {
					if ret, ok := ins.(*ssa.Return); ok {
						for i := range ret.Results {
							if types.Identical(ret.Results[i].Type().Underlying(), types.Typ[types.String]) && isKeyD(retOperand(ret, i), depth+1, seen) {
								found = true
							}
						}
					}
				})
				if found {
					return true
				}
			}
		case *ssa.Parameter:
			f := x.Parent()
			idx := -1
			for i, pr := range f.Params {
				if pr == x {
					idx = i
				}
			}
			for _, site := range p.CallersOf(f) {
				args := site.Common().Args
				if idx >= 0 && idx < len(args) && isKeyD(args[idx], depth+1, seen) {
					return true
				}
			}
		}
		return false
	}
	isKey := func(v ssa.Value) bool { return isKeyD(v, 0, map[ssa.Value]bool{}) }
	for _, f := range p.Funcs {
		fname := p.Fset.Position(f.Pos()).Filename
		if strings.HasSuffix(fname, "_test.go") || f == cmpKeys {
			continue
		}
		if (f.Pkg == p.SSAPkg[p.pkgPath("pkg/skiplist")]) != skiplistOnly {
			continue
		}
		eachInstr(f, func(ins ssa.Instruction) {
			var ops []ssa.Value
			what := ""
			switch x := ins.(type) {
			case *ssa.BinOp:
				switch x.Op {
				case token.LSS, token.LEQ, token.GTR, token.GEQ:
					if bt, ok := x.X.Type().Underlying().(*types.Basic); ok && bt.Info()&types.IsString != 0 {
						ops = []ssa.Value{x.X, x.Y}
						what = "string " + x.Op.String()
					}
				}
			case *ssa.Call:
				if obj := p.CalleeObj(x); obj != nil && obj.Pkg() != nil {
					switch {
					case funcIs(obj, "strings", "", "Compare") && len(x.Call.Args) == 2:
						ops = []ssa.Value{x.Call.Args[0], x.Call.Args[1]}
						what = "strings.Compare"
					case obj.Pkg().Path() == "cmp" && obj.Name() == "Compare" && len(x.Call.Args) == 2:
						if bt, ok := x.Call.Args[0].Type().Underlying().(*types.Basic); ok && bt.Info()&types.IsString != 0 {
							ops = []ssa.Value{x.Call.Args[0], x.Call.Args[1]}
							what = "cmp.Compare"
						}
					}
				}
			}
			if ops == nil {
				return
			}
			bad := isKey(ops[0]) || isKey(ops[1])
			r.Check(!bad, p.FnName(f), what, p.Pos(instrPos(ins)), "operands are not versioned keys (or are user keys obtained with ParseKey)",
				"versioned keys are compared as raw text: for user keys containing bytes below '@' (a, a!) the text order differs from CompareKeys, ranges come out empty and overlapping tables are missed")
		})
	}
}

func compactors(c *Ctx) []*ssa.Function {
	p := c.P
	d := c.Dur()
	mv := p.Fn("pkg/kway", "", "MergeVersions")
	mg := p.Fn("pkg/kway", "", "Merge")
	var out []*ssa.Function
	for _, f := range p.Funcs {
		if f.Pkg != p.SSAPkg[p.ModPath] {
			continue
		}
		merges, removes := false, false
		eachInstr(f, func(ins ssa.Instruction) {
			if call, ok := ins.(*ssa.Call); ok {
				for _, g := range p.Callees(call) {
					if g == mv || g == mg {
						merges = true
					}
				}
			}
			if fe := d.effects[ins]; fe != nil && fe.Kind == "remove" && fe.Class == "table" {
				removes = true
			}
			// … or through a helper of the package
			if ci, ok := ins.(ssa.CallInstruction); ok && !removes {
				if p.SiteMayReach(ci, func(i ssa.Instruction) bool {
					fe := d.effects[i]
					return fe != nil && fe.Kind == "remove" && fe.Class == "table"
				}) {
					removes = true
				}
			}
		})
		if merges && removes {
			out = append(out, f)
		}
	}
	sort.Slice(out, func(i, j int) bool { return out[i].Name() < out[j].Name() })
	return out
}

func runCmpTomb(c *Ctx, r *RuleRun) {
	p := c.P
	la := c.Locks()
	tomb := p.Field("types", "Entry", "Tombstone")
	cs := compactors(c)
	if len(cs) < 2 || tomb == nil {
		r.Undecided("-", "compactors", "", fmt.Sprintf("%d compaction functions found (functions that merge entries and remove table files)", len(cs)))
		return
	}
	tablePkg := p.SSAPkg[p.pkgPath("table")]
	for _, cf := range cs {
		bad := ""
		var badPos token.Pos
		for g := range la.roleReach([]*ssa.Function{cf}) {
			if g.Pkg == tablePkg {
				continue // the codec may read the flag to write it
			}
			eachInstr(g, func(ins ssa.Instruction) {
				iff, ok := ins.(*ssa.If)
				if !ok || bad != "" {
					return
				}
				dep := p.dependsOn(iff.Cond, func(v ssa.Value) bool {
					if fv, _ := loadedField(v); fv == tomb {
						return true
					}
					if fx, ok := v.(*ssa.Field); ok {
						return fx.X.Type().Underlying().(*types.Struct).Field(fx.Field) == tomb
					}
					return false
				})
				if dep {
					bad = p.FnName(g)
					badPos = instrPos(iff)
				}
			})
		}
		if bad != "" {
			r.Viol(p.FnName(cf), "no decision on Tombstone", p.Pos(badPos), "reachable from the compaction, "+bad+" branches on Entry.Tombstone: deletions are dropped by the merge and older values in deeper levels become visible again")
		} else {
			r.Hold(p.FnName(cf), "no decision on Tombstone", p.Pos(cf.Pos()), "no branch on Entry.Tombstone reachable outside the codec")
		}
	}
}

func runCmpSib(c *Ctx, r *RuleRun) {
	p := c.P
	cs := compactors(c)
	if len(cs) < 2 {
		r.Undecided("-", "compactors", "", "fewer than two compaction functions found")
		return
	}
	mv := p.Fn("pkg/kway", "", "MergeVersions")
	d := c.Dur()
	build := p.Fn("table", "", "Build")
	discard := p.FnOr("", "levelManager", "discardStaleEntries")
	levelsF := p.Field("", "levelManager", "levels")
	// the steps of a compaction as kinds of effects, in source order, looking through helpers of the package
	var kindsOf func(f *ssa.Function, depth int) []string
	kindsOf = func(f *ssa.Function, depth int) []string {
		type st struct {
			pos   token.Pos
			kinds []string
		}
		var all []st
		eachInstr(f, func(ins ssa.Instruction) {
			call, ok := ins.(*ssa.Call)
			if !ok {
				return
			}
			g := call.Call.StaticCallee()
			var ks []string
			switch {
			case g != nil && g == mv:
				ks = []string{"merge"}
			case g != nil && g == discard:
				ks = []string{"discard"}
			case g != nil && g == build:
				ks = []string{"build"}
			default:
				if fe := d.effects[ins]; fe != nil {
					switch {
					case fe.Kind == "remove" && fe.Class == "table":
						ks = []string{"delete"}
					case fe.Kind == "rename" && fe.To == "table":
						ks = []string{"publish"}
					}
				}
				if obj := p.ExtCallee(call); obj != nil && obj.Pkg() != nil && obj.Pkg().Path() == "container/list" && len(call.Call.Args) > 0 {
					if u, ok := call.Call.Args[0].(*ssa.UnOp); ok {
						if ia, ok := u.X.(*ssa.IndexAddr); ok && isLoadOfField(ia.X, levelsF) {
							switch obj.Name() {
							case "PushBack", "PushFront":
								ks = []string{"insert"}
							case "Remove":
								ks = []string{"unlink"}
							}
						}
					}
				}
				if ks == nil && g != nil && p.InModule(g) && g.Pkg == f.Pkg && depth < 2 {
					ks = kindsOf(g, depth+1)
				}
			}
			if len(ks) > 0 {
				all = append(all, st{instrPos(call), ks})
			}
		})
		sort.SliceStable(all, func(i, j int) bool { return all[i].pos < all[j].pos })
		var seq []string
		for _, s := range all {
			for _, k := range s.kinds {
				if len(seq) == 0 || seq[len(seq)-1] != k {
					seq = append(seq, k)
				}
			}
		}
		return seq
	}
	steps := func(f *ssa.Function) (string, bool) {
		seq := kindsOf(f, 0)
		from := -1
		for i, k := range seq {
			if k == "merge" && from < 0 {
				from = i
			}
		}
		if from < 0 {
			return "", false
		}
		// unlink and delete may be interleaved per level in one compaction and grouped in the other: what matters is that
		// both come after the publish and the insert
		var out []string
		for _, k := range seq[from:] {
			if k == "unlink" || k == "delete" {
				k = "unlink/delete"
			}
			if len(out) == 0 || out[len(out)-1] != k {
				out = append(out, k)
			}
		}
		return strings.Join(out, " → "), true
	}
	ref, ok := steps(cs[0])
	if !ok {
		r.Viol(p.FnName(cs[0]), "merge keeps versions", p.Pos(cs[0].Pos()), "the compaction does not merge with kway.MergeVersions (the tombstone-keeping merge)")
	}
	for _, f := range cs {
		s, ok2 := steps(f)
		if !ok2 {
			r.Viol(p.FnName(f), "merge keeps versions", p.Pos(f.Pos()), "the compaction does not merge with kway.MergeVersions (the tombstone-keeping merge)")
			continue
		}
		r.Check(s == ref, p.FnName(f), "step sequence", p.Pos(f.Pos()), s, fmt.Sprintf("the compactions disagree on their steps: %s does [%s], %s does [%s]", p.FnName(cs[0]), ref, p.FnName(f), s))
		// older level is fed to the merge first: fetch(level deeper) before fetch(level shallower)
		fetch := p.FnOr("", "levelManager", "fetch")
		fetches := fetchSitesOf(p, f, fetch)
		if len(fetches) == 2 {
			lv := func(v ssa.Value) (int64, bool) {
				if k, ok := constInt(v); ok {
					return k, true
				}
				if bo, ok := v.(*ssa.BinOp); ok && bo.Op == token.ADD {
					if k, ok := constInt(bo.Y); ok {
						return k, true
					}
				}
				if _, ok := v.(*ssa.Parameter); ok {
					return 0, true
				}
				return 0, false
			}
			a1, ok1 := lv(fetches[0].Level)
			a2, ok2 := lv(fetches[1].Level)
			r.Check(ok1 && ok2 && a1 > a2, p.FnName(f), "older level merged first", p.Pos(instrPos(fetches[0].Site)), "the deeper (older) level's entries precede the shallower level's in the merge input, so the newer ones win ties",
				"the merge input lists the newer level before the older one: on equal versioned keys the older entry overwrites the newer")
		} else {
			r.Undecided(p.FnName(f), "older level merged first", p.Pos(f.Pos()), fmt.Sprintf("%d fetch call sites", len(fetches)))
		}
		// the tables removed from the lists and from disk are the ones that were fetched: each ranged slice that feeds
		// fetch also feeds list.Remove and os.Remove
		var srcFetch, srcListRm, srcFileRm []string
		o := nfOpts{p: p, depth: 6}
		rootOf := func(v ssa.Value) string {
			// walk back to the overlap*/Front() call that produced the element(s)
			var found string
			p.dependsOn(v, func(x ssa.Value) bool {
				if call, ok := x.(*ssa.Call); ok {
					if g := call.Call.StaticCallee(); g != nil && p.InModule(g) && strings.HasPrefix(g.Name(), "overlap") {
						found = o.nf(call)
						return true
					}
					if obj := p.ExtCallee(call); obj != nil && funcIs(obj, "container/list", "List", "Front") {
						found = "Front()"
						return true
					}
				}
				return false
			})
			return found
		}
		type frame struct {
			fn   *ssa.Function
			site *ssa.Call
			up   *frame
		}
		var rootIn func(v ssa.Value, fr *frame) string
		rootIn = func(v ssa.Value, fr *frame) string {
			if res := rootOf(v); res != "" {
				return res
			}
			if fr == nil || fr.site == nil {
				return ""
			}
			// the value comes from a parameter of the helper: continue with the argument at the call site
			res := ""
			p.dependsOn(v, func(x ssa.Value) bool {
				pr, ok := x.(*ssa.Parameter)
				if !ok || pr.Parent() != fr.fn {
					return false
				}
				for i, q := range fr.fn.Params {
					if q == pr && i < len(fr.site.Call.Args) {
						res = rootIn(fr.site.Call.Args[i], fr.up)
					}
				}
				return res != ""
			})
			return res
		}
		var visit func(g *ssa.Function, fr *frame, depth int)
		visit = func(g *ssa.Function, fr *frame, depth int) {
			eachInstr(g, func(ins ssa.Instruction) {
				call, ok := ins.(*ssa.Call)
				if !ok {
					return
				}
				if fetch != nil && callTo(p, call, fetch) != nil && len(call.Call.Args) > 2 {
					srcFetch = append(srcFetch, rootIn(call.Call.Args[2], fr))
					return
				}
				if obj := p.ExtCallee(call); obj != nil {
					if funcIs(obj, "container/list", "List", "Remove") && len(call.Call.Args) > 1 {
						srcListRm = append(srcListRm, rootIn(call.Call.Args[1], fr))
					}
					if funcIs(obj, "os", "", "Remove") {
						srcFileRm = append(srcFileRm, rootIn(call.Call.Args[0], fr))
					}
					return
				}
				if h := call.Call.StaticCallee(); h != nil && p.InModule(h) && h.Pkg == f.Pkg && depth < 2 && !strings.HasPrefix(h.Name(), "overlap") && h != discard {
					visit(h, &frame{h, call, fr}, depth+1)
				}
			})
		}
		visit(f, &frame{fn: f}, 0)
		sort.Strings(srcFetch)
		sort.Strings(srcListRm)
		sort.Strings(srcFileRm)
		same := strings.Join(srcFetch, ";") == strings.Join(srcListRm, ";") && strings.Join(srcFetch, ";") == strings.Join(srcFileRm, ";") && len(srcFetch) > 0 && srcFetch[0] != ""
		r.Check(same, p.FnName(f), "merged = unlinked = deleted", p.Pos(f.Pos()), "the same table sets are fetched, removed from the level lists and deleted",
			fmt.Sprintf("the tables merged %v, removed from the lists %v and deleted from disk %v are not the same sets: data is deleted without having been merged, or stays listed after deletion", srcFetch, srcListRm, srcFileRm))
	}
}

func runKwayOrder(c *Ctx, r *RuleRun) {
	p := c.P
	less := p.Fn("pkg/kway", "Heap", "Less")
	cmpKeys := p.Fn("types", "", "CompareKeys")
	li := p.Field("pkg/kway", "Element", "LI")
	mv := p.Fn("pkg/kway", "", "MergeVersions")
	if less == nil || cmpKeys == nil || li == nil || mv == nil {
		r.Undecided("-", "kway", "", "anchors not found")
		return
	}
	// index parameter of an element expression h[i]...
	idxOf := func(v ssa.Value) int {
		res := -1
		p.dependsOn(v, func(x ssa.Value) bool {
			if ia, ok := x.(*ssa.IndexAddr); ok {
				for i, pr := range less.Params {
					if ia.Index == ssa.Value(pr) {
						res = i
						return true
					}
				}
			}
			return false
		})
		return res
	}
	// Less(i, j) must be: c < 0, or c == 0 and LI(i) < LI(j), with c = CompareKeys(h[i].Key, h[j].Key). Every return is
	// judged under what the branches on c establish (a subset of {<, =, >}), whatever the control flow looks like.
	okKey, okTie := false, false
	allValid := true
	isC := func(v ssa.Value) (flipped, ok bool) {
		call := callTo(p, v, cmpKeys)
		if call == nil {
			return false, false
		}
		a0, a1 := idxOf(call.Call.Args[0]), idxOf(call.Call.Args[1])
		switch {
		case a0 == 1 && a1 == 2:
			return false, true
		case a0 == 2 && a1 == 1:
			return true, true
		}
		return false, false
	}
	allow := map[string][]string{"<": {"<"}, "<=": {"<", "="}, "==": {"="}, "!=": {"<", ">"}, ">=": {"=", ">"}, ">": {">"}}
	eachInstr(less, func(ins ssa.Instruction) {
		ret, ok := ins.(*ssa.Return)
		if !ok || len(ret.Results) != 1 {
			return
		}
		rel := map[string]bool{"<": true, "=": true, ">": true}
		for _, f0 := range factsAt(ret) {
			for _, cm := range []Cmp{f0, f0.Flip()} {
				if cm.Y == nil {
					continue
				}
				k, isK := constInt(cm.Y)
				fl, isc := isC(cm.X)
				if !isK || k != 0 || !isc {
					continue
				}
				op := cm.Op
				if fl {
					op = flipCmp(op)
				}
				next := map[string]bool{}
				for _, a := range allow[op] {
					if rel[a] {
						next[a] = true
					}
				}
				rel = next
				break
			}
		}
		only := func(w string) bool { return len(rel) == 1 && rel[w] }
		v := retOperand(ret, 0)
		switch {
		case isConstBool(v, true):
			if only("<") {
				okKey = true
			} else {
				allValid = false
			}
			return
		case isConstBool(v, false):
			if !only(">") {
				allValid = false
			}
			return
		}
		bo, ok := v.(*ssa.BinOp)
		if !ok {
			allValid = false
			return
		}
		if fl, isc := isC(bo.X); isc {
			k, isK := constInt(bo.Y)
			op := bo.Op.String()
			if fl {
				op = flipCmp(op)
			}
			// `return c < 0` is the whole answer only where c == 0 is excluded
			if isK && k == 0 && op == "<" && !rel["="] {
				if rel["<"] {
					okKey = true
				}
			} else {
				allValid = false
			}
			return
		}
		if fv, _ := loadedField(bo.X); fv == li {
			fy, _ := loadedField(bo.Y)
			if fy == li && ((bo.Op == token.LSS && idxOf(bo.X) == 1 && idxOf(bo.Y) == 2) || (bo.Op == token.GTR && idxOf(bo.X) == 2 && idxOf(bo.Y) == 1)) && only("=") {
				okTie = true
				return
			}
		}
		allValid = false
	})
	okKey = okKey && allValid
	okTie = okTie && allValid
	r.Check(okKey, p.FnName(less), "orders by CompareKeys", p.Pos(less.Pos()), "Less(i,j) = CompareKeys(h[i].Key, h[j].Key) < 0 for different keys", "the merge heap does not order by CompareKeys(h[i].Key, h[j].Key) < 0")
	r.Check(okTie, p.FnName(less), "ties by list index ascending", p.Pos(less.Pos()), "equal keys pop in list order, the newest list last", "equal keys are not popped in ascending list index: the entry of an older list overwrites the one of a newer list")
	// MergeVersions: every popped entry is written into the result map under its key (last write wins)
	wrote := false
	eachInstr(mv, func(ins ssa.Instruction) {
		if mu, ok := ins.(*ssa.MapUpdate); ok && inLoop(mu.Block()) {
			if !hasFactAny(mu) {
				wrote = true
			}
		}
	})
	r.Check(wrote, p.FnName(mv), "last popped wins", p.Pos(mv.Pos()), "each popped entry unconditionally replaces the previous one with the same key", "the merge does not let the later-popped (newer) entry replace an earlier one with the same key")
}

// hasFactAny: is the instruction under any branch condition that is not a loop condition? (approximation: any fact whose
// If is inside the same innermost loop body and is not the loop test)
func hasFactAny(ins ssa.Instruction) bool {
	for _, ce := range dominatingConds(ins) {
		// loop tests: the If block is a loop header (one of its successors leads back to it)
		if inLoop(ce.If.Block()) {
			hdr := ce.If.Block()
			isHeader := false
			for _, pr := range hdr.Preds {
				if hdr.Dominates(pr) {
					isHeader = true
				}
			}
			if isHeader {
				continue
			}
			return true
		}
	}
	return false
}

// ---- C16 ----

func runBloomSib(c *Ctx, r *RuleRun) {
	p := c.P
	add, con := p.Fn("pkg/filter", "Filter", "Add"), p.Fn("pkg/filter", "Filter", "Contains")
	bitset := p.Field("pkg/filter", "Filter", "bitset")
	if add == nil || con == nil || bitset == nil {
		r.Undecided("-", "filter", "", "anchors not found")
		return
	}
	o := nfOpts{p: p, depth: 10}
	index := func(f *ssa.Function) []string {
		var out []string
		eachInstr(f, func(ins ssa.Instruction) {
			ia, ok := ins.(*ssa.IndexAddr)
			if !ok {
				return
			}
			if fv, _ := loadedField(ia.X); fv == bitset {
				out = append(out, o.nf(ia.Index))
			}
		})
		return out
	}
	ai, ci := index(add), index(con)
	ok := len(ai) == 1 && len(ci) == 1 && ai[0] == ci[0]
	detail := ""
	if len(ai) > 0 {
		detail = ai[0]
	}
	r.Check(ok, "Filter", "Add/Contains index", p.Pos(add.Pos()), "both compute "+detail, fmt.Sprintf("Add indexes the bitset with %v, Contains with %v: a key that was added can be denied", ai, ci))
	// bits are only set
	n := 0
	for _, f := range p.Funcs {
		if f.Pkg != add.Pkg {
			continue
		}
		eachInstr(f, func(ins ssa.Instruction) {
			st, ok := ins.(*ssa.Store)
			if !ok {
				return
			}
			ia, ok := st.Addr.(*ssa.IndexAddr)
			if !ok {
				return
			}
			if fv, _ := loadedField(ia.X); fv != bitset {
				return
			}
			n++
			r.Check(isConstBool(st.Val, true), p.FnName(f), "bitset store", p.Pos(instrPos(st)), "stores true", "a bit of the filter is cleared or set from a computed value")
		})
	}
	if n == 0 {
		r.Viol("Filter", "bitset store", p.Pos(add.Pos()), "Add never sets a bit")
	}
	// Contains answers false only on a clear bit and true otherwise
	for _, rc := range returnCases(con) {
		ret := rc.Ret
		if len(rc.Vals) != 1 {
			continue
		}
		v := rc.Vals[0]
		if isConstBool(v, false) {
			g := caseHasFact(rc, func(cm Cmp) bool {
				if cm.Y != nil || cm.Op != "false" {
					return false
				}
				ld, ok := cm.X.(*ssa.UnOp)
				if !ok {
					return false
				}
				ia, ok := ld.X.(*ssa.IndexAddr)
				if !ok {
					return false
				}
				fv, _ := loadedField(ia.X)
				return fv == bitset
			})
			r.Check(g, p.FnName(con), "denies only on a clear bit", p.Pos(instrPos(ret)), "false only when an indexed bit is clear", "Contains can answer false although every indexed bit is set")
		}
	}
}

func runBloomReset(c *Ctx, r *RuleRun) {
	p := c.P
	pk := p.SSAPkg[p.pkgPath("pkg/filter")]
	if pk == nil {
		r.Undecided("-", "pkg/filter", "", "package not found")
		return
	}
	n := 0
	for _, f := range p.Funcs {
		if f.Pkg != pk {
			continue
		}
		eachInstr(f, func(ins ssa.Instruction) {
			call, ok := ins.(*ssa.Call)
			if !ok || !call.Call.IsInvoke() || call.Call.Method.Name() != "Write" {
				return
			}
			n++
			recv := call.Call.Value
			reset := func(i ssa.Instruction) bool {
				c2, ok := i.(ssa.CallInstruction)
				return ok && c2.Common().IsInvoke() && c2.Common().Method.Name() == "Reset" && c2.Common().Value == recv
			}
			// a deferred Reset registered before the Write runs at every return
			deferred := false
			eachInstr(f, func(i2 ssa.Instruction) {
				if d, ok := i2.(*ssa.Defer); ok && reset(d) && dominatesInstr(d, call) {
					deferred = true
				}
			})
			if deferred {
				r.Hold(p.FnName(f), "Write…Reset", p.Pos(instrPos(call)), "deferred Reset")
				return
			}
			q := PathQuery{P: p, Fn: f, Starts: []ssa.Instruction{call}, Avoid: reset, Target: func(i ssa.Instruction) bool {
				return isReturn(i) || i == ssa.Instruction(call)
			}}
			if w := q.FindPath(); w != nil {
				r.Viol(p.FnName(f), "Write…Reset", p.Pos(instrPos(call)), "the hash function is not Reset on this path after Write: the next key is hashed on top of leftover state, so a member key can be denied later", p.describePath(w)...)
			} else {
				r.Hold(p.FnName(f), "Write…Reset", p.Pos(instrPos(call)), "Reset on every path before the function returns or hashes again")
			}
		})
	}
	if n == 0 {
		r.Undecided("pkg/filter", "Write", "", "no hash Write found in the filter package")
	}
}

func runBloomKey(c *Ctx, r *RuleRun) {
	p := c.P
	parseKey := p.Fn("types", "", "ParseKey")
	add, con := p.Fn("pkg/filter", "Filter", "Add"), p.Fn("pkg/filter", "Filter", "Contains")
	build := p.Fn("pkg/filter", "", "Build")
	tbuild := p.Fn("table", "", "Build")
	if parseKey == nil || add == nil || con == nil || build == nil || tbuild == nil {
		r.Undecided("-", "filter", "", "anchors not found")
		return
	}
	for _, callee := range []*ssa.Function{add, con} {
		for _, site := range p.CallersOf(callee) {
			call, ok := site.(*ssa.Call)
			if !ok || strings.HasSuffix(p.Fset.Position(call.Pos()).Filename, "_test.go") {
				continue
			}
			arg := call.Call.Args[1]
			r.Check(callTo(p, arg, parseKey) != nil, p.FnName(call.Parent()), callee.Name()+"(ParseKey(k))", p.Pos(instrPos(call)), "user key projection",
				"the filter is "+map[string]string{"Add": "built from", "Contains": "queried with"}[callee.Name()]+" something other than types.ParseKey(key): members are denied because the other side uses the user key")
		}
	}
	// every tableHandle.filter comes from filter.Build(x) with x the entries of that table
	fField := p.Field("", "tableHandle", "filter")
	if fField == nil {
		r.Undecided("-", "tableHandle.filter", "", "anchor not found")
		return
	}
	dataEntries := p.Field("table", "Data", "Entries")
	for _, f := range p.Funcs {
		for _, st := range storesToField(f, fField) {
			// value = *bf, bf = filter.Build(x)
			var bcall *ssa.Call
			p.dependsOn(st.Val, func(v ssa.Value) bool {
				if cl := callTo(p, v, build); cl != nil {
					bcall = cl
					return true
				}
				return false
			})
			if bcall == nil {
				r.Viol(p.FnName(f), "handle filter from Build", p.Pos(instrPos(st)), "a table handle's filter is not produced by filter.Build")
				continue
			}
			x := bcall.Call.Args[0]
			ok := false
			for _, tb := range callsTo(p, f, tbuild) {
				if tb.Call.Args[0] == x {
					ok = true
				}
			}
			if fv, _ := loadedField(x); fv == dataEntries && dataEntries != nil {
				ok = true // recovery: the decoded entries of the table file
			}
			r.Check(ok, p.FnName(f), "handle filter from the table's entries", p.Pos(instrPos(st)), "filter.Build gets the same entries as table.Build (or the decoded entries at recovery)",
				"the filter of a table handle is built from a different entry set than the table itself: keys of the table are denied")
		}
	}
}

func runBloomSign(c *Ctx, r *RuleRun) {
	p := c.P
	sizes := p.Pkgs[0].TypesSizes
	intSize := sizes.Sizeof(types.Typ[types.Int])
	pk := p.SSAPkg[p.pkgPath("pkg/filter")]
	if pk == nil {
		return
	}
	for _, f := range p.Funcs {
		if f.Pkg != pk {
			continue
		}
		eachInstr(f, func(ins ssa.Instruction) {
			cv, ok := ins.(*ssa.Convert)
			if !ok {
				return
			}
			from, ok1 := cv.X.Type().Underlying().(*types.Basic)
			to, ok2 := cv.Type().Underlying().(*types.Basic)
			if !ok1 || !ok2 || from.Info()&types.IsUnsigned == 0 || to.Info()&types.IsInteger == 0 || to.Info()&types.IsUnsigned != 0 {
				return
			}
			if _, isConst := cv.X.(*ssa.Const); isConst {
				return
			}
			// used by % or as index?
			used := false
			for _, ref := range *cv.Referrers() {
				switch x := ref.(type) {
				case *ssa.BinOp:
					if x.Op == token.REM {
						used = true
					}
				case *ssa.IndexAddr:
					used = true
				}
			}
			if !used {
				return
			}
			// a hash value (full range) loses its sign bit only if the target is not wider than the source
			bad := sizes.Sizeof(to) <= sizes.Sizeof(from)
			// a value already reduced modulo the length is in range
			if bo, ok := cv.X.(*ssa.BinOp); ok && bo.Op == token.REM {
				bad = false
			}
			r.Check(!bad, p.FnName(f), "unsigned→"+to.Name(), p.Pos(instrPos(cv)), fmt.Sprintf("int has %d bytes here: the conversion cannot go negative", intSize),
				"a full-range unsigned hash is converted to a signed integer of the same width before % / indexing: half of all keys give a negative index and panic")
		})
	}
}

// ---- C17 ----

func runSkipDescent(c *Ctx, r *RuleRun) {
	p := c.P
	cmpKeys := p.Fn("types", "", "CompareKeys")
	pk := p.SSAPkg[p.pkgPath("pkg/skiplist")]
	if cmpKeys == nil || pk == nil {
		r.Undecided("-", "skiplist", "", "anchors not found")
		return
	}
	keyField := p.Field("types", "Entry", "Key")
	// the search target: a string parameter, or the Key of an entry parameter
	var descentNF nfOpts
	congBusy := map[*ssa.Phi]bool{}
	abstract := func(v ssa.Value) string {
		if pr, ok := v.(*ssa.Parameter); ok {
			if bt, ok := pr.Type().Underlying().(*types.Basic); ok && bt.Info()&types.IsString != 0 {
				return "TARGET"
			}
		}
		if fv, base := loadedField(v); fv == keyField {
			switch b := base.(type) {
			case *ssa.Parameter:
				return "TARGET"
			case *ssa.Alloc:
				for _, ref := range *b.Referrers() {
					if st, ok := ref.(*ssa.Store); ok && st.Addr == b {
						if _, isParam := st.Val.(*ssa.Parameter); isParam {
							return "TARGET"
						}
					}
				}
			}
		}
		// the cursor of a walk: a loop-carried pointer to a list element, whatever it is called
		if ph, ok := v.(*ssa.Phi); ok {
			if pt, isPtr := ph.Type().Underlying().(*types.Pointer); isPtr {
				if n := p.isModuleNamed(pt.Elem()); n != nil && n.Obj().Name() == "Element" && n.Obj().Pkg() == pk.Pkg {
					// not the cursor itself but a variable that mirrors `cursor.next[i]`: read as that expression
					if !congBusy[ph] {
						congBusy[ph] = true
						_, isCong := descentNF.phiCongruent(ph, 0, map[ssa.Value]bool{})
						delete(congBusy, ph)
						if isCong {
							return ""
						}
					}
					return "CURR"
				}
			}
		}
		return ""
	}
	o := nfOpts{p: p, abstract: abstract, depth: 8}
	descentNF = o
	type site struct {
		f    *ssa.Function
		nf   string
		kind string
		pos  token.Pos
	}
	var sites []site
	for _, f := range p.Funcs {
		if f.Pkg != pk || strings.HasSuffix(p.Fset.Position(f.Pos()).Filename, "_test.go") {
			continue
		}
		eachInstr(f, func(ins ssa.Instruction) {
			bo, ok := ins.(*ssa.BinOp)
			if !ok {
				return
			}
			call := callTo(p, bo.X, cmpKeys)
			if call == nil {
				return
			}
			// only comparisons against the search target
			if !strings.Contains(o.nf(call), "TARGET") {
				return
			}
			kind := "other"
			k, isK := constInt(bo.Y)
			// which way does the loop go on when the comparison is true / false?
			staysOn := func(truth bool) bool {
				for _, ref := range *bo.Referrers() {
					iff, isIf := ref.(*ssa.If)
					if !isIf {
						continue
					}
					blk := iff.Block()
					t := blk.Succs[0]
					if !truth {
						t = blk.Succs[1]
					}
					// within the innermost loop around the test (a `break` that leaves the walk of one level comes back
					// through the loop over the levels, but not within the walk)
					var inner map[*ssa.BasicBlock]bool
					for _, nl := range naturalLoops(blk.Parent()) {
						if nl.body[blk] && (inner == nil || len(nl.body) < len(inner)) {
							inner = nl.body
						}
					}
					if inner != nil {
						return inner[t]
					}
					return t == blk || reaches(t, blk)
				}
				return false
			}
			nfText := o.nf(bo)
			switch {
			case isK && k == 0 && bo.Op == token.LSS && inLoop(bo.Block()):
				kind = "advance"
			case isK && k == 0 && bo.Op == token.GEQ && inLoop(bo.Block()) && staysOn(false) && !staysOn(true):
				// the same test written negated (`if cmp >= 0 { break }`)
				kind = "advance"
				nfText = "(" + o.nf(call) + " < 0)"
			case isK && k == 0 && (bo.Op == token.EQL || bo.Op == token.NEQ):
				kind = "match"
			}
			if kind == "advance" && bo.Op == token.LSS {
				nfText = "(" + o.nf(call) + " < 0)"
			}
			sites = append(sites, site{f, nfText, kind, instrPos(bo)})
		})
	}
	// descents: advance sites whose loop is nested (level loop) — all must agree
	var ref string
	nAdv := 0
	for _, s := range sites {
		if s.kind != "advance" {
			continue
		}
		// the scan loop of Scan compares with `end`, not a descent: it walks level 0 only: curr.next[0]
		if !strings.Contains(s.nf, ".next[") || strings.Contains(s.nf, ".next[0]") {
			continue
		}
		nAdv++
		if ref == "" {
			ref = s.nf
		}
		r.Check(s.nf == ref, p.FnName(s.f), "descent predicate", p.Pos(s.pos), s.nf, "this descent advances with ["+s.nf+"] while the others use ["+ref+"]: writer and readers disagree on where a key lives")
	}
	for _, s := range sites {
		switch s.kind {
		case "match":
			r.Hold(p.FnName(s.f), "exact match", p.Pos(s.pos), s.nf)
		case "other":
			r.Viol(p.FnName(s.f), "key comparison", p.Pos(s.pos), "a comparison against the search target is neither the advance predicate (< 0 in the descent loop) nor the exact-match test (== 0): "+s.nf)
		}
	}
	// every search operation of the list goes through a descent (its own, or a shared helper's)
	isDescent := map[*ssa.Function]bool{}
	for _, s := range sites {
		if s.kind == "advance" && strings.Contains(s.nf, ".next[") && !strings.Contains(s.nf, ".next[0]") {
			isDescent[s.f] = true
		}
	}
	for _, name := range []string{"Set", "Get", "LowerBound", "Scan", "Delete"} {
		f := p.Fn("pkg/skiplist", "SkipList", name)
		if f == nil {
			continue
		}
		reached := false
		for g := range p.Reach(f) {
			if isDescent[g] {
				reached = true
			}
		}
		r.Check(reached, p.FnName(f), "searches by descent", p.Pos(f.Pos()), "reaches a tower descent", "this operation does not locate its key by the common tower descent")
	}
	if nAdv == 0 {
		r.Undecided("skiplist", "descents", "", "no tower descent found")
	}
	// level loop bounds agree: phi init maxLevel-1, step -1, cond >= 0 : compare NF of the loop counter phi in each descent function
	var lref string
	for _, f := range p.Funcs {
		if f.Pkg != pk || f.Signature.Recv() == nil {
			continue
		}
		eachInstr(f, func(ins ssa.Instruction) {
			ph, ok := ins.(*ssa.Phi)
			if !ok || ph.Comment != "i" {
				return
			}
			if bt, ok := ph.Type().Underlying().(*types.Basic); !ok || bt.Kind() != types.Int {
				return
			}
			// only descending loops (descents): some edge is i-1
			desc := false
			for _, e := range ph.Edges {
				if bo, ok := e.(*ssa.BinOp); ok && bo.Op == token.SUB && bo.X == ssa.Value(ph) {
					desc = true
				}
			}
			if !desc {
				return
			}
			var cond string
			for _, ref := range *ph.Referrers() {
				if bo, ok := ref.(*ssa.BinOp); ok {
					if _, isIf := firstIfUser(bo); isIf {
						cond = o.nf(bo)
					}
				}
			}
			s := o.nf(ph) + " while " + cond
			s = strings.ReplaceAll(s, "loop", "i")
			if lref == "" {
				lref = s
			}
			r.Check(s == lref, p.FnName(f), "level loop", p.Pos(instrPos(ph)), s, "the level loop of this descent ["+s+"] differs from the others ["+lref+"]")
		})
	}
}

func firstIfUser(v ssa.Value) (*ssa.If, bool) {
	for _, ref := range *v.Referrers() {
		if iff, ok := ref.(*ssa.If); ok {
			return iff, true
		}
	}
	return nil, false
}

func runSkipUpdate(c *Ctx, r *RuleRun) {
	p := c.P
	set := p.Fn("pkg/skiplist", "SkipList", "Set")
	cmpKeys := p.Fn("types", "", "CompareKeys")
	if set == nil || cmpKeys == nil {
		r.Undecided("-", "SkipList.Set", "", "anchor not found")
		return
	}
	valF, tombF := p.Field("types", "Entry", "Value"), p.Field("types", "Entry", "Tombstone")
	equalFact := func(ins ssa.Instruction) bool {
		return hasFact(ins, func(cm Cmp) bool {
			k, isK := constInt(cm.Y)
			return cm.Op == "==" && cm.Y != nil && isK && k == 0 && callTo(p, cm.X, cmpKeys) != nil
		})
	}
	fromParam := func(v ssa.Value, fv *types.Var) bool {
		f, base := loadedField(v)
		if f != fv {
			return false
		}
		switch b := base.(type) {
		case *ssa.Parameter:
			return true
		case *ssa.Alloc:
			for _, ref := range *b.Referrers() {
				if st, ok := ref.(*ssa.Store); ok && st.Addr == b {
					_, isParam := st.Val.(*ssa.Parameter)
					return isParam
				}
			}
		}
		return false
	}
	gotV, gotT := false, false
	var eqRet *ssa.Return
	eachInstr(set, func(ins ssa.Instruction) {
		switch x := ins.(type) {
		case *ssa.Store:
			if !equalFact(x) {
				return
			}
			if fv, _ := fieldOfAddr(x.Addr); fv == valF && fromParam(x.Val, valF) {
				gotV = true
			}
			if fv, _ := fieldOfAddr(x.Addr); fv == tombF && fromParam(x.Val, tombF) {
				gotT = true
			}
		case *ssa.Return:
			if equalFact(x) {
				eqRet = x
			}
		}
	})
	// on every path: from the equal-key edge no return is reachable that avoids one of the two stores
	if gotV && gotT {
		for _, fv := range []*types.Var{valF, tombF} {
			isStore := func(i ssa.Instruction) bool {
				st, ok := i.(*ssa.Store)
				if !ok {
					return false
				}
				f2, _ := fieldOfAddr(st.Addr)
				return f2 == fv && fromParam(st.Val, fv)
			}
			for _, b := range set.Blocks {
				if len(b.Instrs) == 0 {
					continue
				}
				iff, ok := b.Instrs[len(b.Instrs)-1].(*ssa.If)
				if !ok {
					continue
				}
				for si := range b.Succs {
					cm := canonCond(iff.Cond, si == 0)
					k, isK := constInt(cm.Y)
					if cm.Op == "==" && cm.Y != nil && isK && k == 0 && callTo(p, cm.X, cmpKeys) != nil && len(b.Succs[si].Instrs) > 0 {
						first := b.Succs[si].Instrs[0]
						if isStore(first) {
							continue
						}
						q := PathQuery{P: p, Fn: set, Starts: []ssa.Instruction{first}, Avoid: isStore, Target: isReturn}
						if q.FindPath() != nil {
							if fv == valF {
								gotV = false
							} else {
								gotT = false
							}
						}
					}
				}
			}
		}
	}
	r.Check(gotV && gotT, p.FnName(set), "existing key: value and tombstone replaced", p.Pos(set.Pos()), "both fields are stored from the argument on the equal-key path",
		"setting an existing versioned key does not replace both the value and the tombstone flag: a re-logged delete (recovery) or overwrite keeps the old state")
	// nothing is inserted on the equal path: it returns before any node is allocated
	noInsert := eqRet != nil
	if eqRet != nil {
		eachInstr(set, func(ins ssa.Instruction) {
			if al, ok := ins.(*ssa.Alloc); ok && al.Heap && dominatesInstr(al, eqRet) {
				if n := p.isModuleNamed(al.Type()); n != nil && n.Obj().Name() == "Element" {
					noInsert = false
				}
			}
		})
	}
	r.Check(noInsert, p.FnName(set), "existing key: no second node", p.Pos(set.Pos()), "the equal-key path returns without linking a new node", "the equal-key path does not return before a node is inserted: the list holds the same versioned key twice")
}

// fetchSite: one place where a function reads the tables of a level - a call of levelManager.fetch in the function
// itself, or a call of a helper of the package that fetches with the level and the table set it is handed. Level and
// Set are values of the function the site is in; Handle is the handle argument where fetch is called.
type fetchSite struct {
	Site   *ssa.Call
	Fetch  *ssa.Call
	Level  ssa.Value
	Set    ssa.Value
	Handle ssa.Value
}

func fetchSitesOf(p *Prog, f, fetch *ssa.Function) []fetchSite {
	var out []fetchSite
	if f == nil || fetch == nil {
		return nil
	}
	eachInstr(f, func(ins ssa.Instruction) {
		call, ok := ins.(*ssa.Call)
		if !ok {
			return
		}
		if callTo(p, call, fetch) != nil && len(call.Call.Args) > 2 {
			out = append(out, fetchSite{call, call, call.Call.Args[1], call.Call.Args[2], call.Call.Args[len(call.Call.Args)-1]})
			return
		}
		h := call.Call.StaticCallee()
		if h == nil || h == f || h.Pkg != f.Pkg || len(h.Blocks) == 0 {
			return
		}
		argOf := func(v ssa.Value) ssa.Value {
			for i, q := range h.Params {
				if ssa.Value(q) == v && i < len(call.Call.Args) {
					return call.Call.Args[i]
				}
			}
			return nil
		}
		for _, fc := range callsTo(p, h, fetch) {
			if len(fc.Call.Args) <= 2 {
				continue
			}
			st := fetchSite{Site: call, Fetch: fc, Handle: fc.Call.Args[len(fc.Call.Args)-1]}
			lv := unconv(fc.Call.Args[1])
			if _, isConst := lv.(*ssa.Const); isConst {
				st.Level = lv
			} else {
				st.Level = argOf(lv)
			}
			// the parameter (not the receiver) the fetched element comes from
			for i, q := range h.Params {
				if i == 0 && h.Signature.Recv() != nil {
					continue
				}
				if ssa.Value(q) == lv {
					continue
				}
				if p.dependsOn(fc.Call.Args[2], func(x ssa.Value) bool { return x == ssa.Value(q) }) {
					st.Set = argOf(q)
					break
				}
			}
			if st.Level != nil && st.Set != nil {
				out = append(out, st)
			}
		}
	})
	sort.SliceStable(out, func(i, j int) bool { return instrPos(out[i].Site) < instrPos(out[j].Site) })
	return out
}

// isOpenCodedMax: a merge phi that takes a new value only on an edge on which that value was seen to be greater than
// (or not smaller than) the value it replaces - `if v > m { m = v }`.
func isOpenCodedMax(p *Prog, v ssa.Value) bool {
	if isMaxCell(p, v) {
		return true
	}
	ph, ok := v.(*ssa.Phi)
	if !ok || len(ph.Edges) < 2 {
		return false
	}
	for i, e := range ph.Edges {
		x := unconv(e)
		for _, f0 := range edgeFacts(ph.Block().Preds[i], ph.Block()) {
			for _, cm := range []Cmp{f0, f0.Flip()} {
				if (cm.Op != ">" && cm.Op != ">=") || cm.Y == nil {
					continue
				}
				// the value compared and the value assigned: the same value, or two reads of one field with nothing in
				// between (`if entry.Version > m { m = entry.Version }`)
				if unconv(cm.X) != x && !sameReRead(p, unconv(cm.X), x) {
					continue
				}
				for j, o := range ph.Edges {
					if j != i && unconv(o) == unconv(cm.Y) {
						return true
					}
				}
			}
		}
	}
	return false
}
