package main

// "Must" rules: most rules say "X only if Y". These say that the step a property depends on actually happens on every
// path - a hit is answered, a frozen memtable is flushed before it is dropped - so that removing the step (or making it
// conditional on something else) is reported and not merely the absence of a wrong step.

import (
	"go/types"

	"golang.org/x/tools/go/ssa"
)

func init() {
	register(&Rule{ID: "READ.MUSTHIT", Engine: "E-PATH", Min: 4,
		Desc: "a source that holds a version of the requested key answers the read: from the edge on which the same-key test of a lookup succeeded, every path returns that source's answer before any other source is consulted and before not-found is answered",
		Run:  runReadMustHit})
	register(&Rule{ID: "FLUSH.MUST", Engine: "E-PATH", Min: 1,
		Desc: "a frozen memtable leaves the list of immutables only after it was written to a table: every removal in the flusher is preceded, on every path from the receive, by a call that always reaches the table writer",
		Run:  runFlushMust})
}

// isEntryLookup: g is a module function/method returning (types.Entry, bool).
func isEntryLookup(p *Prog, g *ssa.Function) bool {
	if g == nil || !p.InModule(g) {
		return false
	}
	res := g.Signature.Results()
	if res.Len() != 2 || p.isModuleNamed(res.At(0).Type()) != p.Named("types", "Entry") {
		return false
	}
	bt, ok := res.At(1).Type().Underlying().(*types.Basic)
	return ok && bt.Kind() == types.Bool
}

func runReadMustHit(c *Ctx, r *RuleRun) {
	p := c.P
	same := p.Fn("types", "", "IsSameKey")
	if same == nil {
		r.Undecided("-", "types.IsSameKey", "", "anchor not found")
		return
	}
	var fns []*ssa.Function
	if f := p.FnOr("", "DB", "search"); f != nil {
		fns = append(fns, f)
	}
	if f := p.FnOr("", "levelManager", "searchLowerBound"); f != nil {
		fns = append(fns, f)
	}
	if len(fns) != 2 {
		r.Undecided("-", "DB.search / levelManager.searchLowerBound", "", "anchors not found")
		return
	}
	for _, f := range fns {
		fn := p.FnName(f)
		isLookup := func(ins ssa.Instruction) bool {
			cl, ok := ins.(*ssa.Call)
			return ok && isEntryLookup(p, cl.Call.StaticCallee())
		}
		n := 0
		for _, b := range f.Blocks {
			if len(b.Instrs) == 0 {
				continue
			}
			iff, ok := b.Instrs[len(b.Instrs)-1].(*ssa.If)
			if !ok {
				continue
			}
			cm := canonCond(iff.Cond, true)
			call := callTo(p, cm.X, same)
			if call == nil || cm.Y != nil {
				continue
			}
			hitEdge := 0
			if cm.Op == "false" {
				hitEdge = 1
			}
			n++
			// answers: returns whose "found" result is not the constant false
			isAnswer := func(ins ssa.Instruction) bool {
				ret, ok := ins.(*ssa.Return)
				if !ok || len(ret.Results) != 2 {
					return false
				}
				return !isConstBool(retOperand(ret, 1), false)
			}
			q := PathQuery{P: p, Fn: f, Starts: []ssa.Instruction{iff},
				EdgeOK: func(bb *ssa.BasicBlock, i int) bool { return bb != b || i == hitEdge },
				Avoid:  isAnswer,
				Target: func(ins ssa.Instruction) bool {
					if isLookup(ins) {
						return true
					}
					ret, ok := ins.(*ssa.Return)
					return ok && len(ret.Results) == 2
				}}
			w := q.FindPath()
			if w == nil {
				r.Hold(fn, "a hit is answered", p.Pos(instrPos(iff)), "after the same-key test succeeds every path returns the answer")
			} else {
				r.Viol(fn, "a hit is answered", p.Pos(instrPos(iff)), "after the lookup found a version of the requested key there is a way on to the next source or to the not-found answer: the hit can be lost and an older value (or nothing) is returned", p.describePath(w)...)
			}
		}
		if n == 0 {
			r.Undecided(fn, "a hit is answered", "", "no same-key test found")
		}
	}
}

func runFlushMust(c *Ctx, r *RuleRun) {
	p := c.P
	la := c.Locks()
	imm := p.Field("", "DB", "immutables")
	flush := p.Fn("", "levelManager", "flushToL0")
	if imm == nil || flush == nil || len(la.RoleRoots["F"]) == 0 {
		r.Undecided("-", "flusher", "", "DB.immutables / levelManager.flushToL0 / the goroutine started by Open not found")
		return
	}
	isFlush := func(ins ssa.Instruction) bool {
		cl, ok := ins.(*ssa.Call)
		return ok && cl.Call.StaticCallee() == flush
	}
	md := NewMustDo(p, isFlush)
	n := 0
	for _, f := range la.RoleRoots["F"] {
		fn := p.FnName(f)
		var recvs []ssa.Instruction
		eachInstr(f, func(ins ssa.Instruction) {
			switch x := ins.(type) {
			case *ssa.Select:
				recvs = append(recvs, x)
			case *ssa.UnOp:
				if _, isChan := x.X.Type().Underlying().(*types.Chan); isChan {
					recvs = append(recvs, x)
				}
			}
		})
		eachInstr(f, func(ins ssa.Instruction) {
			cl, ok := ins.(*ssa.Call)
			if !ok {
				return
			}
			obj := p.CalleeObj(cl)
			if obj == nil || !funcIs(obj, "container/list", "List", "Remove") || !isLoadOfField(cl.Call.Args[0], imm) {
				return
			}
			n++
			q := PathQuery{P: p, Fn: f, Starts: recvs, Avoid: md.Instr, Target: func(i ssa.Instruction) bool { return i == ssa.Instruction(cl) }}
			if len(recvs) == 0 {
				q.Starts = nil
			}
			w := q.FindPath()
			if w == nil {
				r.Hold(fn, "flushed before it is dropped", p.Pos(instrPos(cl)), "every path from the receive to the removal writes the table first")
			} else {
				r.Viol(fn, "flushed before it is dropped", p.Pos(instrPos(cl)), "a frozen memtable is removed from the list of immutables on a path that never wrote it to a table: its entries are in no memtable and no table any more (and its wal may already be gone)", p.describePath(w)...)
			}
		})
	}
	if n == 0 {
		r.Undecided("flusher", "flushed before it is dropped", "", "no removal from DB.immutables in the flusher")
	}
}
