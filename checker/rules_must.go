package main

// "Must" rules: most rules say "X only if Y". These say that the step a property depends on actually happens on every
// path - a hit is answered, a frozen memtable is flushed before it is dropped - so that removing the step (or making it
// conditional on something else) is reported and not merely the absence of a wrong step.

import (
	"go/constant"
	"go/token"
	"go/types"

	"golang.org/x/tools/go/ssa"
)

func init() {
	register(&Rule{ID: "READ.MUSTHIT", Engine: "E-PATH", Min: 3,
		Desc: "a source that holds a version of the requested key answers the read: from the edge on which the same-key test of a lookup succeeded, every path returns that source's answer before any other source is consulted and before not-found is answered",
		Run:  runReadMustHit})
	register(&Rule{ID: "FLUSH.MUST", Engine: "E-PATH", Min: 1,
		Desc: "a frozen memtable leaves the list of immutables only after it was written to a table: every removal in the flusher is preceded, on every path from the receive, by a call that always reaches the table writer",
		Run:  runFlushMust})
}

// isEntryLookup: g is a module function/method returning (types.Entry, bool).
func isEntryLookup(p *Prog, g *ssa.Function) bool {
	if g == nil || !p.InModule(g) {
		return false
	}
	res := g.Signature.Results()
	if res.Len() != 2 || p.isModuleNamed(res.At(0).Type()) != p.Named("types", "Entry") {
		return false
	}
	bt, ok := res.At(1).Type().Underlying().(*types.Basic)
	return ok && bt.Kind() == types.Bool
}

func runReadMustHit(c *Ctx, r *RuleRun) {
	p := c.P
	same := p.Fn("types", "", "IsSameKey")
	if same == nil {
		r.Undecided("-", "types.IsSameKey", "", "anchor not found")
		return
	}
	var fns []*ssa.Function
	if f := p.FnOr("", "DB", "search"); f != nil {
		fns = append(fns, f)
	}
	if f := p.FnOr("", "levelManager", "searchLowerBound"); f != nil {
		fns = append(fns, f)
	}
	if len(fns) != 2 {
		r.Undecided("-", "DB.search / levelManager.searchLowerBound", "", "anchors not found")
		return
	}
	// helpers of the package that look a key up on behalf of DB.search
	for _, g := range p.DirectCallees(fns[0]) {
		if isEntryLookup(p, g) && g.Pkg == fns[0].Pkg && g != fns[1] && g.Signature.Recv() != nil && p.recvIs(g, "DB") {
			fns = append(fns, g)
		}
	}
	for _, f := range fns {
		fn := p.FnName(f)
		isLookup := func(ins ssa.Instruction) bool {
			cl, ok := ins.(*ssa.Call)
			return ok && isEntryLookup(p, cl.Call.StaticCallee())
		}
		n := 0
		for _, b := range f.Blocks {
			if len(b.Instrs) == 0 {
				continue
			}
			iff, ok := b.Instrs[len(b.Instrs)-1].(*ssa.If)
			if !ok {
				continue
			}
			cm := canonCond(iff.Cond, true)
			if cm.Y != nil {
				continue
			}
			if call := callTo(p, cm.X, same); call == nil {
				// the "found" answer of a wrapper of the package that narrows a lookup down to the same user key
				ex, isEx := cm.X.(*ssa.Extract)
				if !isEx || ex.Index != 1 {
					continue
				}
				wc, isCall := ex.Tuple.(*ssa.Call)
				if !isCall {
					continue
				}
				h := wc.Call.StaticCallee()
				if h == nil || h.Pkg != f.Pkg || !isEntryLookup(p, h) || len(h.Blocks) == 0 || len(callsTo(p, h, same)) == 0 || !sameKeyFilter(p, h, same, nil) {
					continue
				}
				// a wrapper is handed the lookup's answer (an entry); a lookup of its own is judged where it tests
				takesEntry := false
				for _, pr := range h.Params {
					if p.isModuleNamed(pr.Type()) == p.Named("types", "Entry") {
						takesEntry = true
					}
				}
				if !takesEntry {
					continue
				}
			}
			hitEdge := 0
			if cm.Op == "false" {
				hitEdge = 1
			}
			n++
			// answers: returns whose "found" result is not the constant false
			isAnswer := func(ins ssa.Instruction) bool {
				ret, ok := ins.(*ssa.Return)
				if !ok || len(ret.Results) != 2 {
					return false
				}
				return !isConstBool(retOperand(ret, 1), false)
			}
			q := PathQuery{P: p, Fn: f, Starts: []ssa.Instruction{iff},
				EdgeOK: func(bb *ssa.BasicBlock, i int) bool { return bb != b || i == hitEdge },
				Avoid:  isAnswer,
				Target: func(ins ssa.Instruction) bool {
					if isLookup(ins) {
						return true
					}
					ret, ok := ins.(*ssa.Return)
					return ok && len(ret.Results) == 2
				}}
			w := q.FindPath()
			if w == nil {
				r.Hold(fn, "a hit is answered", p.Pos(instrPos(iff)), "after the same-key test succeeds every path returns the answer")
			} else {
				r.Viol(fn, "a hit is answered", p.Pos(instrPos(iff)), "after the lookup found a version of the requested key there is a way on to the next source or to the not-found answer: the hit can be lost and an older value (or nothing) is returned", p.describePath(w)...)
			}
		}
		if n == 0 {
			r.Undecided(fn, "a hit is answered", "", "no same-key test found")
		}
	}
}

func runFlushMust(c *Ctx, r *RuleRun) {
	p := c.P
	la := c.Locks()
	imm := p.Field("", "DB", "immutables")
	flush := p.Fn("", "levelManager", "flushToL0")
	if imm == nil || flush == nil || len(la.RoleRoots["F"]) == 0 {
		r.Undecided("-", "flusher", "", "DB.immutables / levelManager.flushToL0 / the goroutine started by Open not found")
		return
	}
	d := c.Dur()
	n := 0
	for _, f := range flusherLoops(c) {
		fn := p.FnName(f)
		var recvs []ssa.Instruction
		eachInstr(f, func(ins ssa.Instruction) {
			switch x := ins.(type) {
			case *ssa.Select:
				recvs = append(recvs, x)
			case *ssa.UnOp:
				if _, isChan := x.X.Type().Underlying().(*types.Chan); isChan {
					recvs = append(recvs, x)
				}
			}
		})
		directRemove := func(ins ssa.Instruction) bool {
			cl, ok := ins.(*ssa.Call)
			if !ok {
				return false
			}
			obj := p.CalleeObj(cl)
			return obj != nil && funcIs(obj, "container/list", "List", "Remove") && isLoadOfField(cl.Call.Args[0], imm)
		}
		// the removal may live in a helper of the flusher: it counts at the call of the helper
		removes := p.liftMay(directRemove)
		eachInstr(f, func(ins ssa.Instruction) {
			cl, ok := ins.(*ssa.Call)
			if !ok || !removes(ins) {
				return
			}
			n++
			// "a table was written, fsynced and renamed into place, with every error on the way checked" (error-aware: a
			// flush whose failure is only logged does not count)
			q := PathQuery{P: p, Fn: f, Starts: recvs, Avoid: d.tablePub.Avoid(f), EdgeOK: d.tablePub.EdgeOK(f), Target: func(i ssa.Instruction) bool { return i == ssa.Instruction(cl) }}
			if len(recvs) == 0 {
				q.Starts = nil
			}
			w := q.FindPath()
			if w == nil {
				r.Hold(fn, "flushed before it is dropped", p.Pos(instrPos(cl)), "every path from the receive to the removal has published the table, errors checked")
			} else {
				r.Viol(fn, "flushed before it is dropped", p.Pos(instrPos(cl)), "a frozen memtable is removed from the list of immutables on a path on which its table was not (successfully) written and published - e.g. after a flush error that is only logged: its entries are in no memtable and no table any more", p.describePath(w)...)
			}
		})
	}
	if n == 0 {
		r.Undecided("flusher", "flushed before it is dropped", "", "no removal from DB.immutables in the flusher")
	}
}

func init() {
	register(&Rule{ID: "ERR.POLARITY", Engine: "E-GUARD", Min: 10,
		Desc: "failure handlers run on failure: a call that reports an error value (Panicf/Errorf/… with the error as an argument) is never dominated by the fact that this very error is nil",
		Run:  runErrPolarity})
	register(&Rule{ID: "RECOVER.SECTIONS", Engine: "E-DEP", Min: 8,
		Desc: "table recovery reads each section from where the previous one says it is: footer = the last <footer size> bytes, index = Length bytes at footer.IndexBlock.Offset, data = Length bytes at index.DataBlock.Offset, each read into the buffer that is then decoded",
		Run:  runRecoverSections})
	register(&Rule{ID: "RECOVER.MUST", Engine: "E-GUARD", Min: 2,
		Desc: "table recovery loads every regular *.db file: the file filter does not select directories, and recovery returns before its file loop only when there is no table file",
		Run:  runRecoverMust})
}

// errorArgs: error-typed values handed to a call, directly or through its variadic ...any slice.
func errorArgs(cl ssa.CallInstruction) []ssa.Value {
	var out []ssa.Value
	add := func(v ssa.Value) {
		if mi, ok := v.(*ssa.MakeInterface); ok {
			v = mi.X
		}
		if ci, ok := v.(*ssa.ChangeInterface); ok {
			v = ci.X
		}
		if v != nil && isErrorType(v.Type()) {
			out = append(out, v)
		}
	}
	for _, a := range cl.Common().Args {
		add(a)
		if sl, ok := a.(*ssa.Slice); ok {
			if al, ok := sl.X.(*ssa.Alloc); ok {
				for _, ref := range *al.Referrers() {
					if ia, ok := ref.(*ssa.IndexAddr); ok {
						for _, r2 := range *ia.Referrers() {
							if st, ok := r2.(*ssa.Store); ok {
								add(st.Val)
							}
						}
					}
				}
			}
		}
	}
	return out
}

func runErrPolarity(c *Ctx, r *RuleRun) {
	p := c.P
	for _, f := range p.Funcs {
		fn := p.FnName(f)
		eachInstr(f, func(ins ssa.Instruction) {
			ci, ok := ins.(ssa.CallInstruction)
			if !ok {
				return
			}
			if _, isDefer := ins.(*ssa.Defer); isDefer {
				return
			}
			name := ""
			if ci.Common().IsInvoke() {
				name = ci.Common().Method.Name()
			} else if obj := p.CalleeObj(ci); obj != nil {
				name = obj.Name()
			}
			switch name {
			case "Panicf", "Panic", "Fatalf", "Fatal", "Errorf", "Warnf", "Error":
			default:
				return
			}
			for _, ev := range errorArgs(ci) {
				if _, isConst := ev.(*ssa.Const); isConst {
					continue
				}
				if _, isGlobal := ev.(*ssa.UnOp); isGlobal && globalLoaded(ev) != nil {
					continue
				}
				bad := hasFact(ins, func(cm Cmp) bool {
					return cm.Y != nil && cm.Op == "==" && ((cm.X == ev && isNilConst(cm.Y)) || (cm.Y == ev && isNilConst(cm.X)))
				})
				r.Check(!bad, fn, "handler on the failure branch", p.Pos(instrPos(ins)), name+" reports an error on a branch where it can be non-nil",
					name+" reports an error on the branch where that error is known to be nil: the failure handler runs when the operation succeeded (and not when it failed)")
			}
		})
	}
}

func runRecoverSections(c *Ctx, r *RuleRun) {
	p := c.P
	rec := p.FnOr("", "levelManager", "recover")
	if rec == nil {
		r.Undecided("-", "levelManager.recover", "", "anchor not found")
		return
	}
	fn := p.FnName(rec)
	type fileCall struct {
		call *ssa.Call
		kind string // seek, read
	}
	var fcalls []fileCall
	decodes := map[string]*ssa.Call{}
	eachInstr(rec, func(ins ssa.Instruction) {
		cl, ok := ins.(*ssa.Call)
		if !ok {
			return
		}
		obj := p.CalleeObj(cl)
		if obj == nil {
			return
		}
		switch {
		case funcIs(obj, "os", "File", "Seek"):
			fcalls = append(fcalls, fileCall{cl, "seek"})
		case funcIs(obj, "os", "File", "Read"), funcIs(obj, "io", "", "ReadFull"), funcIs(obj, "os", "File", "ReadAt"):
			fcalls = append(fcalls, fileCall{cl, "read"})
		case obj.Name() == "Decode":
			if g := cl.Call.StaticCallee(); g != nil && g.Signature.Recv() != nil {
				if n := p.isModuleNamed(g.Signature.Recv().Type()); n != nil && n.Obj().Pkg().Path() == p.pkgPath("table") {
					decodes[n.Obj().Name()] = cl
				}
			}
		}
	})
	// field path of a value: e.g. footer.IndexBlock.Offset → base alloc + ["IndexBlock","Offset"]
	fieldPath := func(v ssa.Value) (ssa.Value, []string) {
		v = stripValue(v)
		var names []string
		u, ok := v.(*ssa.UnOp)
		if !ok {
			return nil, nil
		}
		cur := u.X
		for {
			fa, ok := cur.(*ssa.FieldAddr)
			if !ok {
				break
			}
			fv, _ := fieldOfAddr(fa)
			names = append([]string{fv.Name()}, names...)
			cur = fa.X
		}
		return cur, names
	}
	bufLen := func(b ssa.Value) ssa.Value {
		switch x := b.(type) {
		case *ssa.MakeSlice:
			return x.Len
		case *ssa.Slice:
			if al, ok := x.X.(*ssa.Alloc); ok {
				if at, ok := al.Type().Underlying().(*types.Pointer).Elem().Underlying().(*types.Array); ok {
					return ssa.NewConst(constantInt(at.Len()), types.Typ[types.Int])
				}
			}
		}
		return nil
	}
	sections := []struct{ typ, parentTyp, handle string }{{"Footer", "", ""}, {"Index", "Footer", "IndexBlock"}, {"Data", "Index", "DataBlock"}}
	for _, s := range sections {
		d := decodes[s.typ]
		label := func(x string) string { return s.typ + ": " + x }
		if d == nil {
			r.Viol(fn, label("decoded"), p.Pos(rec.Pos()), "recovery does not decode the "+s.typ+" section of a table file")
			continue
		}
		buf := d.Call.Args[1]
		// the read that fills the buffer and the last seek before it - in recover itself, or in a helper that
		// positions the file, reads one section and returns the buffer
		locate := func(fcalls []fileCall, buf ssa.Value, before ssa.Instruction) (rd, sk *ssa.Call, clean bool) {
			for _, fc := range fcalls {
				if fc.kind != "read" || (before != nil && !dominatesInstr(fc.call, before)) {
					continue
				}
				for _, a := range fc.call.Call.Args {
					if a == buf {
						rd = fc.call
					}
				}
			}
			if rd == nil {
				return
			}
			for _, fc := range fcalls {
				if fc.kind == "seek" && dominatesInstr(fc.call, rd) && (sk == nil || dominatesInstr(sk, fc.call)) {
					sk = fc.call
				}
			}
			// no other read between the seek and this read
			clean = sk != nil
			if sk != nil {
				for _, fc := range fcalls {
					if fc.kind == "read" && fc.call != rd && dominatesInstr(sk, fc.call) && dominatesInstr(fc.call, rd) {
						clean = false
					}
				}
			}
			if obj := p.CalleeObj(rd); obj != nil && funcIs(obj, "os", "File", "ReadAt") {
				sk, clean = rd, true
			}
			return
		}
		subst := func(v ssa.Value) ssa.Value { return v }
		lenOf := bufLen(buf)
		var rd, sk *ssa.Call
		var clean bool
		if hc, isCall := buf.(*ssa.Call); isCall && hc.Call.StaticCallee() != nil && hc.Call.StaticCallee().Pkg == rec.Pkg && len(hc.Call.StaticCallee().Blocks) > 0 {
			h := hc.Call.StaticCallee()
			var hcalls []fileCall
			eachInstr(h, func(ins ssa.Instruction) {
				cl, ok := ins.(*ssa.Call)
				if !ok {
					return
				}
				obj := p.CalleeObj(cl)
				if obj == nil {
					return
				}
				switch {
				case funcIs(obj, "os", "File", "Seek"):
					hcalls = append(hcalls, fileCall{cl, "seek"})
				case funcIs(obj, "os", "File", "Read"), funcIs(obj, "io", "", "ReadFull"), funcIs(obj, "os", "File", "ReadAt"):
					hcalls = append(hcalls, fileCall{cl, "read"})
				}
			})
			// the one buffer every return of the helper hands out
			var hbuf ssa.Value
			one := true
			eachInstr(h, func(ins ssa.Instruction) {
				if ret, ok := ins.(*ssa.Return); ok && len(ret.Results) >= 1 {
					if hbuf != nil && retOperand(ret, 0) != hbuf {
						one = false
					}
					hbuf = retOperand(ret, 0)
				}
			})
			if hbuf != nil && one {
				rd, sk, clean = locate(hcalls, hbuf, nil)
				lenOf = bufLen(hbuf)
				subst = func(v ssa.Value) ssa.Value {
					if pr, ok := unconv(v).(*ssa.Parameter); ok {
						for i, q := range h.Params {
							if q == pr && i < len(hc.Call.Args) {
								return hc.Call.Args[i]
							}
						}
					}
					return v
				}
			}
		} else {
			rd, sk, clean = locate(fcalls, buf, d)
		}
		r.Check(rd != nil, fn, label("read into the decoded buffer"), p.Pos(instrPos(d)), "the buffer that is decoded was filled from the file", "the buffer handed to "+s.typ+".Decode is never filled from the file (the read is missing or fills another buffer)")
		if rd == nil {
			continue
		}
		if sk == nil || !clean {
			r.Viol(fn, label("positioned"), p.Pos(instrPos(rd)), "the read of the "+s.typ+" section is not preceded by a seek of its own: it reads wherever the previous read left the file offset")
			continue
		}
		offArg, whence := subst(sk.Call.Args[1]), int64(0)
		if sk != rd {
			whence, _ = constInt(subst(sk.Call.Args[2]))
		} else {
			offArg = subst(rd.Call.Args[2])
		}
		bl := lenOf
		if bl != nil {
			bl = subst(bl)
		}
		if s.typ == "Footer" {
			off, isK := constInt(offArg)
			n, isN := int64(0), false
			if bl != nil {
				n, isN = constInt(bl)
			}
			r.Check(isK && isN && whence == 2 && off == -n, fn, label("positioned"), p.Pos(instrPos(sk)), "the last len(buffer) bytes of the file",
				"the footer is not read from the last len(buffer) bytes of the file (Seek(-size, io.SeekEnd) with the size of the buffer that is decoded)")
			continue
		}
		base, names := fieldPath(offArg)
		parent := decodes[s.parentTyp]
		okOff := parent != nil && len(names) == 2 && names[0] == s.handle && names[1] == "Offset" && base == parent.Call.Args[0] && whence == 0
		r.Check(okOff, fn, label("positioned"), p.Pos(instrPos(sk)), "Seek("+s.parentTyp+"."+s.handle+".Offset, io.SeekStart)",
			"the "+s.typ+" section is not read from "+s.parentTyp+"."+s.handle+".Offset (from the start of the file)")
		var lb ssa.Value
		var ln []string
		if bl != nil {
			lb, ln = fieldPath(bl)
		}
		okLen := parent != nil && len(ln) == 2 && ln[0] == s.handle && ln[1] == "Length" && lb == parent.Call.Args[0]
		r.Check(okLen, fn, label("buffer size"), p.Pos(instrPos(d)), "make([]byte, "+s.parentTyp+"."+s.handle+".Length)", "the buffer for the "+s.typ+" section is not sized by "+s.parentTyp+"."+s.handle+".Length")
	}
}

func runRecoverMust(c *Ctx, r *RuleRun) {
	p := c.P
	rec := p.FnOr("", "levelManager", "recover")
	if rec == nil {
		r.Undecided("-", "levelManager.recover", "", "anchor not found")
		return
	}
	fn := p.FnName(rec)
	// the collection of table file names: append of a string to a []string in a loop
	n := 0
	// the collection may live in a helper of recover (sortedTableFiles)
	eachInstrOf(localFns(p, rec), func(ins ssa.Instruction) {
		cl, ok := ins.(*ssa.Call)
		if !ok || !inLoop(cl.Block()) {
			return
		}
		bi, ok := cl.Call.Value.(*ssa.Builtin)
		if !ok || bi.Name() != "append" {
			return
		}
		sl, ok := cl.Type().Underlying().(*types.Slice)
		if !ok {
			return
		}
		if bt, ok := sl.Elem().Underlying().(*types.Basic); !ok || bt.Info()&types.IsString == 0 {
			// … or of a small struct that carries the name of a directory entry
			fromDir := len(cl.Call.Args) > 1 && p.dependsOn(cl.Call.Args[1], func(x ssa.Value) bool {
				c2, ok := x.(*ssa.Call)
				return ok && c2.Call.IsInvoke() && c2.Call.Method.Name() == "Name"
			})
			if _, isStruct := sl.Elem().Underlying().(*types.Struct); !isStruct || !fromDir {
				return
			}
		}
		n++
		dirOnly := hasFact(cl, func(cm Cmp) bool {
			if cm.Y != nil || cm.Op != "true" {
				return false
			}
			ci, ok := cm.X.(ssa.CallInstruction)
			return ok && ci.Common().IsInvoke() && ci.Common().Method.Name() == "IsDir"
		})
		r.Check(!dirOnly, fn, "regular files are collected", p.Pos(instrPos(cl)), "the file filter does not require IsDir()", "only directory entries for which IsDir() is true are collected: no table file is ever recovered")
	})
	if n == 0 {
		r.Undecided(fn, "regular files are collected", "", "no collection of file names found")
	}
	// the loop that loads the files: the one containing a Decode call
	var loopHeader *ssa.BasicBlock
	for _, lp := range naturalLoops(rec) {
		for b := range lp.body {
			for _, ins := range b.Instrs {
				if cl, ok := ins.(*ssa.Call); ok {
					if obj := p.CalleeObj(cl); obj != nil && obj.Name() == "Decode" {
						if loopHeader == nil || lp.header.Dominates(loopHeader) {
							loopHeader = lp.header
						}
					}
				}
			}
		}
	}
	if loopHeader == nil {
		r.Undecided(fn, "returns early only without table files", "", "no file loop found")
		return
	}
	m := 0
	eachInstr(rec, func(ins ssa.Instruction) {
		ret, ok := ins.(*ssa.Return)
		if !ok || ret.Block().Comment == "recover" {
			return
		}
		if loopHeader.Dominates(ret.Block()) {
			return // after (or inside) the file loop
		}
		m++
		empty := hasFact(ret, func(cm Cmp) bool {
			if cm.Y == nil || cm.Op != "==" {
				return false
			}
			k, isK := constInt(cm.Y)
			lc, isC := stripValue(cm.X).(*ssa.Call)
			if !isK || k != 0 || !isC {
				return false
			}
			bi, isBi := lc.Call.Value.(*ssa.Builtin)
			return isBi && bi.Name() == "len"
		})
		r.Check(empty, fn, "returns early only without table files", p.Pos(instrPos(ret)), "guarded by len(files) == 0", "recovery returns before loading the table files on a condition other than 'there are none': tables on disk are ignored at Open and their contents are lost")
	})
	if m == 0 {
		r.Hold(fn, "returns early only without table files", p.Pos(rec.Pos()), "no early return")
	}
}

func constantInt(n int64) constant.Value { return constant.MakeInt64(n) }

func init() {
	register(&Rule{ID: "RECOVER.REPLAY", Engine: "E-PATH", Min: 4,
		Desc: "wal recovery selects every older *.log file that is a regular file, returns early only when there is none, and puts every entry it reads both into the memtable and into the new wal",
		Run:  runRecoverReplay})
	register(&Rule{ID: "LOOP.PROGRESS", Engine: "E-DEP", Min: 20,
		Desc: "every loop can make progress: its condition depends on something the loop changes (a loop-carried value with an in-loop update, a location stored to in the loop) or contains/is followed by a call",
		Run:  runLoopProgress})
	register(&Rule{ID: "LIVE.STOPONCE", Engine: "E-SIB", Min: 2,
		Desc: "each watermark the oracle owns is stopped exactly once when the oracle is stopped (a second Stop would block forever on the consumer that has already left)",
		Run:  runLiveStopOnce})
	register(&Rule{ID: "CONF.KEEPALL", Engine: "E-PATH", Min: 2,
		Desc: "cleaning up the committed-transaction list keeps every record above the read watermark: the loop visits the whole list and appends each record unless its timestamp is at or below the watermark",
		Run:  runConfKeepAll})
}

func runRecoverReplay(c *Ctx, r *RuleRun) {
	p := c.P
	rec := p.FnOr("", "memtable", "recover")
	setFn := p.Fn("pkg/skiplist", "SkipList", "Set")
	walWrite := p.Fn("wal", "WAL", "Write")
	walRead := p.Fn("wal", "WAL", "Read")
	cmpVer := p.Fn("wal", "", "CompareVersion")
	if rec == nil || setFn == nil || walWrite == nil || walRead == nil {
		r.Undecided("-", "memtable.recover / SkipList.Set / WAL.Write / WAL.Read", "", "anchors not found")
		return
	}
	fn := p.FnName(rec)
	// 1. the file filter
	n := 0
	eachInstr(rec, func(ins ssa.Instruction) {
		cl, ok := ins.(*ssa.Call)
		if !ok || !inLoop(cl.Block()) {
			return
		}
		bi, ok := cl.Call.Value.(*ssa.Builtin)
		if !ok || bi.Name() != "append" {
			return
		}
		sl, ok := cl.Type().Underlying().(*types.Slice)
		if !ok || !isStringType(sl.Elem()) {
			return
		}
		n++
		dirOnly := hasFact(cl, func(cm Cmp) bool {
			if cm.Y != nil || cm.Op != "true" {
				return false
			}
			ci, ok := cm.X.(ssa.CallInstruction)
			return ok && ci.Common().IsInvoke() && ci.Common().Method.Name() == "IsDir"
		})
		isLog := hasFact(cl, func(cm Cmp) bool {
			if cm.Y == nil || cm.Op != "==" {
				return false
			}
			s, ok := constString(cm.Y)
			return ok && s == ".log"
		})
		older := cmpVer == nil || hasFact(cl, func(cm Cmp) bool {
			if cm.Y == nil || cm.Op != "<" {
				return false
			}
			k, isK := constInt(cm.Y)
			return isK && k == 0 && callTo(p, cm.X, cmpVer) != nil
		})
		wrongExt := hasFact(cl, func(cm Cmp) bool {
			if cm.Y == nil || cm.Op != "!=" {
				return false
			}
			s, ok := constString(cm.Y)
			return ok && s == ".log"
		})
		r.Check(!dirOnly && isLog && older && !wrongExt, fn, "older regular *.log files are collected", p.Pos(instrPos(cl)), "!IsDir() && Ext == \".log\" && CompareVersion(version, current) < 0",
			"the wal files to replay are not selected by `regular file, extension .log, older than the current wal`: logs of the previous run are skipped at Open and the commits in them are lost")
	})
	if n == 0 {
		r.Undecided(fn, "older regular *.log files are collected", "", "no collection of file names found")
	}
	// 2. early return only without files
	var fileLoop *natLoop
	isRead := func(ins ssa.Instruction) bool {
		cl, ok := ins.(*ssa.Call)
		return ok && cl.Call.StaticCallee() == walRead
	}
	// the body of the file loop may live in a helper (replay one file): the read counts at the call of the helper
	readSite := p.liftMay(isRead)
	for _, lp := range naturalLoops(rec) {
		lp := lp
		for b := range lp.body {
			for _, ins := range b.Instrs {
				if _, isCall := ins.(*ssa.Call); isCall && readSite(ins) {
					if fileLoop == nil || lp.header.Dominates(fileLoop.header) {
						fileLoop = &lp
					}
				}
			}
		}
	}
	if fileLoop == nil {
		r.Undecided(fn, "replay loop", "", "no loop that reads wal files")
		return
	}
	m := 0
	eachInstr(rec, func(ins ssa.Instruction) {
		ret, ok := ins.(*ssa.Return)
		if !ok || ret.Block().Comment == "recover" || fileLoop.header.Dominates(ret.Block()) {
			return
		}
		m++
		empty := hasFact(ret, func(cm Cmp) bool {
			if cm.Y == nil || cm.Op != "==" {
				return false
			}
			k, isK := constInt(cm.Y)
			lc, isC := stripValue(cm.X).(*ssa.Call)
			if !isK || k != 0 || !isC {
				return false
			}
			bi, isBi := lc.Call.Value.(*ssa.Builtin)
			return isBi && bi.Name() == "len"
		})
		r.Check(empty, fn, "returns early only without wal files", p.Pos(instrPos(ret)), "guarded by len(files) == 0", "wal recovery returns before replaying on a condition other than 'there is no older wal': the commits in them are lost")
	})
	if m == 0 {
		r.Hold(fn, "returns early only without wal files", p.Pos(rec.Pos()), "no early return")
	}
	// 3. every entry read is set in the memtable and written to the new wal
	var entryLoop *natLoop
	entryFn := p.directHolder(rec, isRead)
	if entryFn == nil {
		entryFn = rec
	}
	for _, lp := range naturalLoops(entryFn) {
		lp := lp
		if entryFn == rec && (lp.header == fileLoop.header || !fileLoop.body[lp.header]) {
			continue
		}
		entryLoop = &lp
	}
	if entryLoop == nil {
		r.Undecided(fn, "every entry is replayed", "", "no loop over the entries of a wal")
		return
	}
	var body *ssa.BasicBlock
	for _, s := range entryLoop.header.Succs {
		if entryLoop.body[s] {
			body = s
		}
	}
	for _, want := range []struct {
		g     *ssa.Function
		label string
		viol  string
	}{
		{setFn, "every entry is set in the memtable", "an entry read from an old wal is not put into the memtable on some path: it is in the new wal only, reads miss it, and a clean Close (empty memtable) removes that wal too"},
		{walWrite, "every entry is written to the new wal", "an entry read from an old wal is not written to the new wal on some path although the old wal is then deleted"},
	} {
		direct := func(i ssa.Instruction) bool {
			cl, ok := i.(*ssa.Call)
			return ok && cl.Call.StaticCallee() == want.g
		}
		isIt := NewMustDo(p, direct).Instr // also through a helper that always does it
		q := PathQuery{P: p, Fn: entryFn, Starts: []ssa.Instruction{entryLoop.header.Instrs[len(entryLoop.header.Instrs)-1]},
			EdgeOK: func(bb *ssa.BasicBlock, i int) bool { return bb != entryLoop.header || bb.Succs[i] == body },
			Avoid:  isIt, Target: func(i ssa.Instruction) bool { return i.Block() == entryLoop.header && instrIndex(i) == 0 }}
		w := q.FindPath()
		if w == nil {
			r.Hold(fn, want.label, p.Pos(instrPos(entryLoop.header.Instrs[len(entryLoop.header.Instrs)-1])), "on every path of an iteration")
		} else {
			r.Viol(fn, want.label, p.Pos(instrPos(entryLoop.header.Instrs[len(entryLoop.header.Instrs)-1])), want.viol, p.describePath(w)...)
		}
	}
	if bad := leftElsewhere(*fileLoop); bad != nil && !entryLoop.body[bad] {
		r.Viol(fn, "every older wal is replayed", p.Pos(instrPos(bad.Instrs[len(bad.Instrs)-1])), "the loop over the older wal files is left before all of them were replayed (break/return inside it): the commits in the remaining files are lost")
	} else {
		r.Hold(fn, "every older wal is replayed", p.Pos(instrPos(fileLoop.header.Instrs[len(fileLoop.header.Instrs)-1])), "the file loop is left only through its own condition")
	}
	if bad := leftElsewhere(*entryLoop); bad != nil {
		r.Viol(fn, "every entry of a wal is visited", p.Pos(instrPos(bad.Instrs[len(bad.Instrs)-1])), "the loop over the entries of a wal is left before they are exhausted")
	}
}

func runLoopProgress(c *Ctx, r *RuleRun) {
	p := c.P
	for _, f := range p.Funcs {
		fn := p.FnName(f)
		for _, lp := range naturalLoops(f) {
			h := lp.header
			if len(h.Instrs) == 0 {
				continue
			}
			// exits of the loop: conditional branches with one successor outside
			var conds []*ssa.If
			hasOtherExit := false
			for b := range lp.body {
				if len(b.Instrs) == 0 {
					continue
				}
				switch last := b.Instrs[len(b.Instrs)-1].(type) {
				case *ssa.If:
					out := 0
					for _, s := range b.Succs {
						if !lp.body[s] {
							out++
						}
					}
					if out > 0 {
						conds = append(conds, last)
					}
				case *ssa.Return, *ssa.Panic:
					hasOtherExit = true
				}
			}
			if len(conds) == 0 {
				continue // for { select … } style loops are left by return/break-to-label only
			}
			// anything in the loop that can change state the conditions read?
			progress := hasOtherExit
			stored := map[*types.Var]bool{}
			anyStore := false
			for b := range lp.body {
				for _, ins := range b.Instrs {
					switch x := ins.(type) {
					case ssa.CallInstruction:
						if _, isBuiltin := x.Common().Value.(*ssa.Builtin); !isBuiltin {
							progress = true // a call may change anything, block, or never return
						}
					case *ssa.Store:
						anyStore = true
						if fv, _ := fieldOfAddr(x.Addr); fv != nil {
							stored[fv] = true
						}
					case *ssa.MapUpdate, *ssa.Send, *ssa.Select, *ssa.Next:
						progress = true
					case *ssa.UnOp:
						if x.Op == token.ARROW {
							progress = true
						}
					}
				}
			}
			if !progress {
				for _, iff := range conds {
					if p.dependsOn(iff.Cond, func(v ssa.Value) bool {
						switch y := v.(type) {
						case *ssa.Phi:
							if !lp.body[y.Block()] {
								return false
							}
							for i, e := range y.Edges {
								if lp.body[y.Block().Preds[i]] && e != ssa.Value(y) {
									return true
								}
							}
						case *ssa.UnOp:
							if y.Op == token.MUL {
								if fv, _ := fieldOfAddr(y.X); fv != nil && stored[fv] {
									return true
								}
								if _, isAlloc := y.X.(*ssa.Alloc); isAlloc && anyStore {
									return true
								}
								if _, isIdx := y.X.(*ssa.IndexAddr); isIdx && anyStore {
									return true
								}
							}
						}
						return false
					}) {
						progress = true
					}
				}
			}
			r.Check(progress, fn, "loop can make progress", p.Pos(instrPos(h.Instrs[len(h.Instrs)-1])), "the loop changes something its exit condition reads (or calls out)",
				"nothing inside this loop changes what its exit condition reads and it makes no call: once entered with the condition true it never ends, and the operation that runs it never returns")
		}
	}
}

func runLiveStopOnce(c *Ctx, r *RuleRun) {
	p := c.P
	stop := p.Fn("", "oracle", "Stop")
	wmStop := p.Fn("pkg/watermark", "WaterMark", "Stop")
	if stop == nil || wmStop == nil {
		r.Undecided("-", "oracle.Stop / WaterMark.Stop", "", "anchors not found")
		return
	}
	count := map[*types.Var]int{}
	for _, cl := range callsTo(p, stop, wmStop) {
		fv, _ := loadedField(cl.Call.Args[0])
		count[fv]++
	}
	for _, name := range []string{"readMark", "commitMark"} {
		fv := p.Field("", "oracle", name)
		if fv == nil {
			r.Undecided(p.FnName(stop), "stops "+name+" once", "", "field not found")
			continue
		}
		r.Check(count[fv] == 1, p.FnName(stop), "stops "+name+" once", p.Pos(stop.Pos()), "one Stop call", fmtCount(count[fv])+" Stop call(s) on "+name+": a watermark that is stopped twice blocks the second caller forever (its consumer has left), one that is never stopped leaks its goroutine")
	}
}

func fmtCount(n int) string {
	switch n {
	case 0:
		return "no"
	case 1:
		return "one"
	case 2:
		return "two"
	}
	return "several"
}

func runConfKeepAll(c *Ctx, r *RuleRun) {
	a := c.Txn()
	if !a.ok(r) {
		return
	}
	p := c.P
	f := a.cleanUp
	fn := p.FnName(f)
	// the loop that ranges over committedTxns
	var loop *natLoop
	for _, lp := range naturalLoops(f) {
		lp := lp
		for b := range lp.body {
			for _, ins := range b.Instrs {
				if a.keepsRecord(ins) {
					loop = &lp
				}
			}
		}
	}
	if loop == nil {
		// the list cleaned by the library: slices.DeleteFunc visits every record and drops those the predicate accepts
		if call, drop, ok := a.deleteFuncDrop(f); ok {
			r.Hold(fn, "whole list visited", p.Pos(instrPos(call)), "slices.DeleteFunc over the whole list")
			r.Check(a.dropsAtOrBelowWatermark(drop), fn, "records above the watermark are kept", p.Pos(instrPos(call)), "a record is dropped only when its timestamp is at or below readMark.DoneUntil()",
				"a record can be dropped without `ts <= read watermark` being established")
			return
		}
		r.Undecided(fn, "cleanup loop", p.Pos(f.Pos()), "no loop that rebuilds the list")
		return
	}
	if bad := leftElsewhere(*loop); bad != nil {
		r.Viol(fn, "whole list visited", p.Pos(instrPos(bad.Instrs[len(bad.Instrs)-1])), "the clean-up loop is left before the list is exhausted: the records after that point are dropped although their transactions committed after snapshots that are still open, and conflicts with them are missed")
	} else {
		r.Hold(fn, "whole list visited", p.Pos(instrPos(loop.header.Instrs[len(loop.header.Instrs)-1])), "left only through its own condition")
	}
	// every iteration appends unless ts <= watermark
	isKeep := a.keepsRecord
	var body *ssa.BasicBlock
	for _, s := range loop.header.Succs {
		if loop.body[s] {
			body = s
		}
	}
	if body == nil {
		return
	}
	q := PathQuery{P: p, Fn: f, Starts: []ssa.Instruction{loop.header.Instrs[len(loop.header.Instrs)-1]}, Avoid: isKeep,
		Target: func(i ssa.Instruction) bool { return i.Block() == loop.header && instrIndex(i) == 0 },
		EdgeOK: func(bb *ssa.BasicBlock, i int) bool {
			if bb == loop.header {
				return bb.Succs[i] == body
			}
			if !loop.body[bb.Succs[i]] {
				return false
			}
			i2, ok := bb.Instrs[len(bb.Instrs)-1].(*ssa.If)
			if !ok {
				return true
			}
			cm := canonCond(i2.Cond, i == 0)
			if cm.Y == nil {
				return true
			}
			// the legitimate reason to drop a record: its ts is at or below the read watermark
			isTs := func(v ssa.Value) bool {
				fv, _ := loadedField(stripValue(v))
				return fv == a.fCtTs
			}
			isWm := func(v ssa.Value) bool {
				return p.dependsOn(v, func(x ssa.Value) bool {
					i := asInstr(x)
					return i != nil && markCalls(p, a.fReadMark, "DoneUntil")(i)
				})
			}
			if isTs(cm.X) && isWm(cm.Y) && (cm.Op == "<=" || cm.Op == "<") {
				return false
			}
			if isWm(cm.X) && isTs(cm.Y) && (cm.Op == ">=" || cm.Op == ">") {
				return false
			}
			return true
		}}
	w := q.FindPath()
	if w == nil {
		r.Hold(fn, "records above the watermark are kept", p.Pos(instrPos(loop.header.Instrs[len(loop.header.Instrs)-1])), "an iteration drops a record only when its timestamp is at or below readMark.DoneUntil()")
	} else {
		r.Viol(fn, "records above the watermark are kept", p.Pos(instrPos(loop.header.Instrs[len(loop.header.Instrs)-1])), "an iteration can drop a record without having established `ts <= read watermark`", p.describePath(w)...)
	}
}

func asInstr(v ssa.Value) ssa.Instruction {
	if i, ok := v.(ssa.Instruction); ok {
		return i
	}
	return nil
}
