package main

// C11: pooled-buffer ownership (E-ESC), writer/reader field sequences (E-SIB), narrowing of lengths (E-GUARD).

import (
	"fmt"
	"go/token"
	"go/types"
	"sort"
	"strings"

	"golang.org/x/tools/go/ssa"
)

func init() {
	register(&Rule{ID: "CODEC.POOL", Engine: "E-ESC", Min: 9,
		Desc: "for every buffer taken from bufferpool.Pool and put back in the same function, no value aliasing its bytes (b.Bytes(), re-slices, readers over them) is returned, stored, sent or captured: callers never hold memory that the pool hands to the next user",
		Run:  runCodecPool})
	register(&Rule{ID: "CODEC.SEQ", Engine: "E-SIB", Min: 5,
		Desc: "each encoder/decoder pair writes and reads the same sequence of field types, in the same byte order and loop structure; the footer length used by recovery equals the encoded footer size",
		Run:  runCodecSeq})
	register(&Rule{ID: "CODEC.NARROW", Engine: "E-GUARD", Min: 1,
		Desc: "no non-constant integer is converted to an 8- or 16-bit integer unless the conversion is dominated by a range check of that value: lengths are refused, never truncated",
		Run:  runCodecNarrow})
	register(&Rule{ID: "CODEC.PREFIX", Engine: "E-SIB", Min: 2,
		Desc: "prefix compression: the data block encoder and decoder both carry the previous key from one loop iteration to the next",
		Run:  runCodecPrefix})
}

func isBufferMethod(obj *types.Func, name string) bool {
	return funcIs(obj, "bytes", "Buffer", name)
}

func runCodecPool(c *Ctx, r *RuleRun) {
	p := c.P
	get := p.Fn("pkg/bufferpool", "BufferPool", "Get")
	put := p.Fn("pkg/bufferpool", "BufferPool", "Put")
	if get == nil || put == nil {
		r.Undecided("-", "bufferpool", "", "anchor (*BufferPool).Get/Put not found")
		return
	}
	for _, site := range p.CallersOf(get) {
		call, ok := site.(*ssa.Call)
		if !ok {
			continue
		}
		f := call.Parent()
		fn, pos := p.FnName(f), p.Pos(instrPos(call))
		if strings.HasSuffix(p.Fset.Position(call.Pos()).Filename, "_test.go") {
			continue
		}
		// is it put back in this function?
		putBack := false
		for _, ref := range *call.Referrers() {
			if ci, ok := ref.(ssa.CallInstruction); ok {
				for _, g := range p.Callees(ci) {
					if g == put {
						putBack = true
					}
				}
			}
		}
		if !putBack {
			r.Hold(fn, "Pool.Get", pos, "the buffer is not returned to the pool by this function (ownership moves with it)")
			continue
		}
		// taint: the buffer and everything aliasing its bytes
		taint := map[ssa.Value]bool{call: true}
		work := []ssa.Value{call}
		var leak string
		var leakPos token.Pos
		report := func(what string, at ssa.Instruction) {
			if leak == "" {
				leak = what
				leakPos = instrPos(at)
			}
		}
		add := func(v ssa.Value) {
			if v != nil && !taint[v] {
				taint[v] = true
				work = append(work, v)
			}
		}
		for len(work) > 0 {
			v := work[0]
			work = work[1:]
			refs := v.Referrers()
			if refs == nil {
				continue
			}
			for _, ref := range *refs {
				switch x := ref.(type) {
				case *ssa.Return:
					report("is returned to the caller", x)
				case *ssa.Send:
					if x.X == v {
						report("is sent on a channel", x)
					}
				case *ssa.MapUpdate:
					if x.Value == v || x.Key == v {
						report("is stored in a map", x)
					}
				case *ssa.Store:
					if x.Val != v {
						continue
					}
					switch a := x.Addr.(type) {
					case *ssa.Alloc:
						add(a) // local cell: loads of it alias
					case *ssa.FieldAddr, *ssa.IndexAddr:
						if base := rootAlloc(a); base != nil {
							add(base)
						} else {
							report("is stored into memory that outlives the function", x)
						}
					default:
						report("is stored into memory that outlives the function", x)
					}
				case *ssa.MakeClosure:
					// captured: fine for closures that run before the function returns (defer), a leak for go
					for _, r2 := range *x.Referrers() {
						if _, isGo := r2.(*ssa.Go); isGo {
							report("is captured by a goroutine", x)
						}
					}
				case *ssa.Go:
					report("is passed to a goroutine", x)
				case *ssa.Slice:
					add(x)
				case *ssa.Phi:
					add(x)
				case *ssa.MakeInterface:
					add(x)
				case *ssa.ChangeType:
					add(x)
				case *ssa.ChangeInterface:
					add(x)
				case *ssa.TypeAssert:
					add(x)
				case *ssa.Extract:
					add(x)
				case *ssa.FieldAddr:
					add(x)
				case *ssa.IndexAddr:
					add(x)
				case *ssa.UnOp:
					if x.Op == token.MUL {
						// a load through tainted memory: aliasing only if the loaded value can alias (slice, pointer, interface)
						if canAlias(x.Type()) {
							add(x)
						}
					}
				case *ssa.Convert:
					// []byte -> string and string -> []byte copy
				case *ssa.Call:
					if isSanitizer(p, x) {
						continue
					}
					obj := p.CalleeObj(x)
					// methods of the tainted bytes.Buffer: Bytes() aliases, everything else copies or returns scalars
					if obj != nil && obj.Pkg() != nil && obj.Pkg().Path() == "bytes" && len(x.Call.Args) > 0 && x.Call.Args[0] == v {
						if isBufferMethod(obj, "Bytes") || isBufferMethod(obj, "Next") || isBufferMethod(obj, "AvailableBuffer") {
							add(x)
						}
						continue
					}
					// builtin append: result aliases its first argument only
					if bi, ok := x.Call.Value.(*ssa.Builtin); ok {
						if bi.Name() == "append" && len(x.Call.Args) > 0 && x.Call.Args[0] == v {
							add(x)
						}
						continue
					}
					// a helper of the module: does what it returns alias what it is handed? (compressClone(buf) returns a copy)
					if h := x.Call.StaticCallee(); h != nil && p.InModule(h) && len(h.Blocks) > 0 && canAlias(x.Type()) {
						aliases := false
						for ai, a := range x.Call.Args {
							if a == v && resultMayAlias(p, h, ai, 0) {
								aliases = true
							}
						}
						if aliases {
							add(x)
						}
						continue
					}
					// any other call that returns something able to alias its arguments (readers, wrappers, sub-slices)
					if canAlias(x.Type()) {
						add(x)
					}
				}
			}
		}
		if leak != "" {
			r.Viol(fn, "Pool.Get", p.Pos(leakPos), "a value aliasing the bytes of a pooled buffer "+leak+" although the buffer goes back to the pool when the function returns: the next Get overwrites what the caller holds")
		} else {
			r.Hold(fn, "Pool.Get", pos, fmt.Sprintf("%d values alias the buffer, none leaves the function", len(taint)))
		}
	}
}

func rootAlloc(v ssa.Value) *ssa.Alloc {
	for i := 0; i < 6; i++ {
		switch x := v.(type) {
		case *ssa.FieldAddr:
			v = x.X
		case *ssa.IndexAddr:
			v = x.X
		case *ssa.Alloc:
			if !x.Heap {
				return x
			}
			return x // heap allocs that are returned are caught at the Return of the alloc itself
		default:
			return nil
		}
	}
	return nil
}

// canAlias: can a value of this type give access to the bytes of a buffer? ([]byte, buffers and readers, and
// anything containing them; errors, strings and scalars cannot)
func canAlias(t types.Type) bool { return canAliasD(t, 0) }

func canAliasD(t types.Type, depth int) bool {
	if depth > 5 {
		return true
	}
	if isErrorType(t) {
		return false
	}
	switch u := t.Underlying().(type) {
	case *types.Slice:
		if b, ok := u.Elem().Underlying().(*types.Basic); ok {
			return b.Kind() == types.Byte || b.Kind() == types.Uint8
		}
		return canAliasD(u.Elem(), depth+1)
	case *types.Pointer:
		return canAliasD(u.Elem(), depth+1) || isBytesCarrier(u.Elem())
	case *types.Interface:
		return true
	case *types.Map:
		return canAliasD(u.Elem(), depth+1)
	case *types.Chan:
		return canAliasD(u.Elem(), depth+1)
	case *types.Signature:
		return true
	case *types.Struct:
		if isBytesCarrier(t) {
			return true
		}
		for i := 0; i < u.NumFields(); i++ {
			if canAliasD(u.Field(i).Type(), depth+1) {
				return true
			}
		}
	case *types.Tuple:
		for i := 0; i < u.Len(); i++ {
			if canAliasD(u.At(i).Type(), depth+1) {
				return true
			}
		}
	case *types.Array:
		return canAliasD(u.Elem(), depth+1)
	}
	return false
}

func isBytesCarrier(t types.Type) bool {
	if n, ok := types.Unalias(t).(*types.Named); ok && n.Obj().Pkg() != nil {
		switch n.Obj().Pkg().Path() {
		case "bytes", "bufio", "strings":
			return true
		}
	}
	return false
}

// isSanitizer: calls whose result is a fresh copy of their argument.
func isSanitizer(p *Prog, call *ssa.Call) bool {
	obj := p.CalleeObj(call)
	if obj == nil {
		return false
	}
	switch {
	case funcIs(obj, "bytes", "", "Clone"), funcIs(obj, "slices", "", "Clone"), funcIs(obj, "strings", "", "Clone"),
		funcIs(obj, "bytes", "Buffer", "String"), funcIs(obj, "bytes", "Buffer", "Len"), funcIs(obj, "bytes", "Buffer", "Cap"):
		return true
	}
	return false
}

// ---- CODEC.SEQ ----

type codecOp struct {
	typ   string
	order string
	loop  bool
	pos   token.Pos
	sub   []token.Pos // positions inside helpers, outermost first, when the op was found through a helper call
	count int         // for an op in a loop over a fixed-size array: the number of iterations (0 = not known)
	param int         // 1 + index of the parameter of the function the op is in whose (dynamic) type is what is written/read: the type is taken from the call site; 0 = none
	dst   int         // 1 + index of the parameter that is the destination/source stream; 0 = none
}

// constTrips: b lies in exactly one loop and that loop is a range over an array of constant length: its length.
func constTrips(f *ssa.Function, b *ssa.BasicBlock) int {
	n, trips := 0, 0
	for _, lp := range naturalLoops(f) {
		if !lp.body[b] {
			continue
		}
		n++
		if len(lp.header.Instrs) == 0 || lp.header.Comment != "rangeindex.loop" {
			continue
		}
		iff, ok := lp.header.Instrs[len(lp.header.Instrs)-1].(*ssa.If)
		if !ok {
			continue
		}
		if bo, ok := iff.Cond.(*ssa.BinOp); ok && bo.Op == token.LSS {
			if k, isK := constInt(bo.Y); isK && k > 0 {
				trips = int(k)
			}
		}
	}
	if n == 1 {
		return trips
	}
	return 0
}

func normType(t types.Type) string {
	s := types.TypeString(t, func(*types.Package) string { return "" })
	s = strings.ReplaceAll(s, "[]byte", "[]uint8")
	if s == "string" {
		s = "[]uint8"
	}
	return s
}

// codecOps: the sequence of field writes (reads) of f: calls to the module's ErrorWriter.Write/WriteLen16
// (ErrorReader.Read) and encoding/binary.Write (Read) on in-memory buffers.
func codecOps(p *Prog, f *ssa.Function, write bool) []codecOp {
	return codecOpsD(p, f, write, 0)
}

// codecOpsD: the reads/writes of f in source order; the reads/writes of a helper of the same package count at the
// place of its call (in a loop if the call is).
func codecOpsD(p *Prog, f *ssa.Function, write bool, depth int) []codecOp {
	var ops []codecOp
	for _, b := range f.Blocks {
		for _, ins := range b.Instrs {
			call, ok := ins.(*ssa.Call)
			if !ok {
				continue
			}
			var data, order ssa.Value
			typ := ""
			dstIdx := 0
			args := call.Call.Args
			if g := call.Call.StaticCallee(); g != nil && g != f && g.Pkg == f.Pkg && len(g.Blocks) > 0 && depth < 3 {
				for _, o := range codecOpsD(p, g, write, depth+1) {
					if o.dst > 0 {
						// the stream is the caller's argument: a write of the whole buffer to the file is not a field
						if o.dst-1 < len(args) && write && osFileOperand(args[o.dst-1]) != nil {
							continue
						}
						o.dst = 0
					}
					if o.param > 0 {
						// the value's type is the caller's: stage(int64(len(data))), stage(data)
						if o.param-1 >= len(args) {
							continue
						}
						dv := args[o.param-1]
						if mi, ok := dv.(*ssa.MakeInterface); ok {
							dv = mi.X
						}
						o.param = 0
						if pr, isParam := dv.(*ssa.Parameter); isParam && types.IsInterface(pr.Type()) {
							for i, q := range f.Params {
								if q == pr {
									o.param = i + 1
								}
							}
						}
						t := dv.Type()
						if !write {
							if pt, ok := t.Underlying().(*types.Pointer); ok {
								t = pt.Elem()
							}
						}
						o.typ = normType(t)
					}
					o.loop = o.loop || inLoop(b)
					o.sub = append([]token.Pos{o.pos}, o.sub...)
					o.pos = instrPos(ins)
					ops = append(ops, o)
				}
				continue
			}
			if g := call.Call.StaticCallee(); g != nil && p.InModule(g) && g.Signature.Recv() != nil {
				rn := p.isModuleNamed(g.Signature.Recv().Type())
				if rn == nil {
					continue
				}
				switch {
				case write && rn.Obj().Name() == "ErrorWriter" && g.Name() == "Write" && len(args) == 3:
					order, data = args[1], args[2]
				case write && rn.Obj().Name() == "ErrorWriter" && g.Name() == "WriteLen16" && len(args) == 3:
					order = args[1]
					typ = "uint16"
				case !write && rn.Obj().Name() == "ErrorReader" && g.Name() == "Read" && len(args) == 3:
					order, data = args[1], args[2]
				default:
					continue
				}
			} else if obj := p.ExtCallee(call); obj != nil {
				switch {
				case write && funcIs(obj, "encoding/binary", "", "Write") && len(args) == 3:
					if osFileOperand(args[0]) != nil {
						continue // container-level write of the whole buffer to the file
					}
					if pr, isParam := args[0].(*ssa.Parameter); isParam {
						for i, q := range f.Params {
							if q == pr {
								dstIdx = i + 1
							}
						}
					}
					order, data = args[1], args[2]
				case !write && funcIs(obj, "encoding/binary", "", "Read") && len(args) == 3:
					order, data = args[1], args[2]
				default:
					continue
				}
			} else {
				continue
			}
			paramIdx := 0
			if typ == "" {
				dv := data
				if mi, ok := dv.(*ssa.MakeInterface); ok {
					dv = mi.X
				}
				if pr, isParam := dv.(*ssa.Parameter); isParam && types.IsInterface(pr.Type()) {
					for i, q := range f.Params {
						if q == pr {
							paramIdx = i + 1
						}
					}
				}
				t := dv.Type()
				if !write {
					if pt, ok := t.Underlying().(*types.Pointer); ok {
						t = pt.Elem()
					}
				}
				typ = normType(t)
			}
			ops = append(ops, codecOp{typ: typ, order: orderName(order), loop: inLoop(b), count: constTrips(f, b), pos: instrPos(ins), param: paramIdx, dst: dstIdx})
		}
	}
	sort.SliceStable(ops, func(i, j int) bool {
		if ops[i].pos != ops[j].pos {
			return ops[i].pos < ops[j].pos
		}
		for k := 0; k < len(ops[i].sub) && k < len(ops[j].sub); k++ {
			if ops[i].sub[k] != ops[j].sub[k] {
				return ops[i].sub[k] < ops[j].sub[k]
			}
		}
		return false
	})
	return ops
}

func orderName(v ssa.Value) string {
	v = stripValue(v)
	if u, ok := v.(*ssa.UnOp); ok {
		if g, ok := u.X.(*ssa.Global); ok {
			return g.Name()
		}
	}
	if g, ok := v.(*ssa.Global); ok {
		return g.Name()
	}
	if _, ok := v.(*ssa.Parameter); ok {
		return "param"
	}
	return v.String()
}

func opsString(ops []codecOp) string {
	var parts []string
	for _, o := range ops {
		s := o.typ
		if o.loop && o.count > 0 {
			// a loop over a fixed-size array is the same as that many ops in a row
			for i := 1; i < o.count; i++ {
				parts = append(parts, s)
			}
		} else if o.loop {
			s = "*" + s
		}
		parts = append(parts, s)
	}
	return strings.Join(parts, " ")
}

var typeSizes = map[string]int{"uint8": 1, "int8": 1, "uint16": 2, "int16": 2, "uint32": 4, "int32": 4, "uint64": 8, "int64": 8}

func runCodecSeq(c *Ctx, r *RuleRun) {
	p := c.P
	type pair struct {
		name     string
		enc, dec *ssa.Function
	}
	var pairs []pair
	if tp := p.ByPath[p.pkgPath("table")]; tp != nil {
		sc := tp.Types.Scope()
		for _, n := range sc.Names() {
			if tn, ok := sc.Lookup(n).(*types.TypeName); ok {
				e, d := p.Fn("table", tn.Name(), "Encode"), p.Fn("table", tn.Name(), "Decode")
				if e != nil && d != nil {
					pairs = append(pairs, pair{"table." + tn.Name(), e, d})
				}
			}
		}
	}
	if w, rd := p.Fn("wal", "WAL", "Write"), p.Fn("wal", "WAL", "Read"); w != nil && rd != nil {
		pairs = append(pairs, pair{"wal.WAL", w, rd})
	}
	footerSize := -1
	for _, pr := range pairs {
		we, rd := codecOps(p, pr.enc, true), codecOps(p, pr.dec, false)
		fn := pr.name
		pos := p.Pos(pr.enc.Pos())
		ws, rs := opsString(we), opsString(rd)
		ok := ws == rs && len(we) > 0
		detail := "writes and reads: " + ws
		if !ok {
			detail = fmt.Sprintf("the encoder writes [%s] but the decoder reads [%s]: what was encoded does not decode to the same content", ws, rs)
		}
		// byte order
		for i := range we {
			if i < len(rd) && ok && we[i].order != rd[i].order {
				ok = false
				detail = fmt.Sprintf("field %d (%s) is written as %s and read as %s", i, we[i].typ, we[i].order, rd[i].order)
			}
		}
		r.Check(ok, fn, "Encode/Decode", pos, detail, detail)
		if pr.name == "table.Footer" && ok {
			footerSize = 0
			for _, o := range we {
				if sz, known := typeSizes[o.typ]; known && !o.loop {
					footerSize += sz
				} else if known && o.count > 0 {
					footerSize += sz * o.count
				} else {
					footerSize = -1
					break
				}
			}
		}
	}
	// footer length constants in the code that reads the footer back
	fdec := p.Fn("table", "Footer", "Decode")
	if fdec == nil || footerSize < 0 {
		r.Undecided("-", "footer-size", "", "cannot compute the encoded footer size")
		return
	}
	for _, site := range p.CallersOf(fdec) {
		call, ok := site.(*ssa.Call)
		if !ok || strings.HasSuffix(p.Fset.Position(call.Pos()).Filename, "_test.go") {
			continue
		}
		f := call.Parent()
		// the byte slice handed to Decode
		if len(call.Call.Args) < 2 {
			continue
		}
		bufLen := int64(-1)
		switch ms := call.Call.Args[1].(type) {
		case *ssa.MakeSlice:
			if k, ok := constInt(ms.Len); ok {
				bufLen = k
			}
		case *ssa.Slice:
			// make([]byte, K) with constant K compiles to new [K]byte + slice
			if al, ok := ms.X.(*ssa.Alloc); ok {
				if arr, ok := al.Type().Underlying().(*types.Pointer).Elem().Underlying().(*types.Array); ok {
					bufLen = arr.Len()
				}
			}
		}
		// the footer is read by a helper that is handed offset, whence and length: the constants at its call site
		if hc, isCall := call.Call.Args[1].(*ssa.Call); isCall && hc.Call.StaticCallee() != nil && hc.Call.StaticCallee().Pkg == f.Pkg && len(hc.Call.StaticCallee().Blocks) > 0 {
			h := hc.Call.StaticCallee()
			subst := func(v ssa.Value) ssa.Value {
				if pr, ok := unconv(v).(*ssa.Parameter); ok {
					for i, q := range h.Params {
						if q == pr && i < len(hc.Call.Args) {
							return hc.Call.Args[i]
						}
					}
				}
				return v
			}
			eachInstr(h, func(ins ssa.Instruction) {
				switch x := ins.(type) {
				case *ssa.MakeSlice:
					if k, ok := constInt(subst(x.Len)); ok && bufLen < 0 {
						bufLen = k
					}
				case *ssa.Call:
					if obj := p.ExtCallee(x); obj != nil && funcIs(obj, "os", "File", "Seek") && len(x.Call.Args) == 3 {
						wh, ok1 := constInt(subst(x.Call.Args[2]))
						off, ok2 := constInt(subst(x.Call.Args[1]))
						if ok1 && ok2 && wh == 2 {
							r.Check(int(-off) == footerSize, p.FnName(f), "footer seek", p.Pos(instrPos(hc)),
								fmt.Sprintf("seeks %d from the end = encoded footer size", off), fmt.Sprintf("seeks %d from the end but the encoded footer has %d bytes", off, footerSize))
						}
					}
				}
			})
		}
		if bufLen >= 0 {
			r.Check(int(bufLen) == footerSize, p.FnName(f), "footer buffer", p.Pos(instrPos(call)),
				fmt.Sprintf("%d bytes = encoded footer size", bufLen), fmt.Sprintf("the footer is read into %d bytes but Footer.Encode writes %d", bufLen, footerSize))
		}
		// Seek(-K, io.SeekEnd) in the same function
		for _, b := range f.Blocks {
			for _, ins := range b.Instrs {
				sc, ok := ins.(*ssa.Call)
				if !ok {
					continue
				}
				if obj := p.ExtCallee(sc); obj != nil && funcIs(obj, "os", "File", "Seek") && len(sc.Call.Args) == 3 {
					wh, ok1 := constInt(sc.Call.Args[2])
					off, ok2 := constInt(sc.Call.Args[1])
					if ok1 && ok2 && wh == 2 {
						r.Check(int(-off) == footerSize, p.FnName(f), "footer seek", p.Pos(instrPos(sc)),
							fmt.Sprintf("seeks %d from the end = encoded footer size", off), fmt.Sprintf("seeks %d from the end but the encoded footer has %d bytes", off, footerSize))
					}
				}
			}
		}
	}
}

// ---- CODEC.NARROW ----

func runCodecNarrow(c *Ctx, r *RuleRun) {
	p := c.P
	sizes := p.Pkgs[0].TypesSizes
	for _, f := range p.Funcs {
		if strings.HasSuffix(p.Fset.Position(f.Pos()).Filename, "_test.go") {
			continue
		}
		if f.Pkg != nil && strings.HasSuffix(f.Pkg.Pkg.Path(), "/types") && strings.Contains(p.Fset.Position(f.Pos()).Filename, "entry.go") {
			continue // generated thrift code
		}
		for _, b := range f.Blocks {
			for _, ins := range b.Instrs {
				cv, ok := ins.(*ssa.Convert)
				if !ok {
					continue
				}
				to, ok1 := cv.Type().Underlying().(*types.Basic)
				from, ok2 := cv.X.Type().Underlying().(*types.Basic)
				if !ok1 || !ok2 || to.Info()&types.IsInteger == 0 || from.Info()&types.IsInteger == 0 {
					continue
				}
				if sizes.Sizeof(to) > 2 || sizes.Sizeof(to) >= sizes.Sizeof(from) {
					continue
				}
				if _, isConst := cv.X.(*ssa.Const); isConst {
					continue
				}
				fn, pos := p.FnName(f), p.Pos(instrPos(cv))
				guarded := rangeGuarded(cv.X, cv)
				r.Check(guarded, fn, fmt.Sprintf("%s(%s)", to.Name(), from.Name()), pos, "dominated by a range check of the converted value",
					fmt.Sprintf("a %s is converted to %s without a range check: a length above %d is silently truncated and the decoder reads garbage", from.Name(), to.Name(), 1<<(8*uint(sizes.Sizeof(to)))-1))
				if !guarded {
					continue
				}
				// the out-of-range branch reports an error: it does not just skip the field
				isErrMark := func(i ssa.Instruction) bool {
					switch x := i.(type) {
					case *ssa.Store:
						return isErrorType(x.Val.Type()) && !isNilConst(x.Val)
					case *ssa.Return:
						ei := errResultIndex(f.Signature)
						return ei >= 0 && ei < len(x.Results) && !isNilConst(retOperand(x, ei))
					case *ssa.Panic:
						return true
					}
					return false
				}
				for _, ref := range *cv.X.Referrers() {
					bo, ok := ref.(*ssa.BinOp)
					if !ok {
						continue
					}
					if _, isK := constInt(bo.X); !isK {
						if _, isK2 := constInt(bo.Y); !isK2 {
							continue
						}
					}
					for _, r2 := range *bo.Referrers() {
						iff, ok := r2.(*ssa.If)
						if !ok {
							continue
						}
						blk := iff.Block()
						for si, sb := range blk.Succs {
							if sb == cv.Block() || reaches(sb, cv.Block()) {
								continue // the in-range side
							}
							q := PathQuery{P: p, Fn: f, Starts: []ssa.Instruction{iff}, EdgeOK: func(bb *ssa.BasicBlock, i int) bool { return bb != blk || i == si }, Avoid: isErrMark, Target: isReturn}
							w := q.FindPath()
							if w == nil {
								r.Hold(fn, "out-of-range length is an error", p.Pos(instrPos(iff)), "the branch on which the value does not fit records or returns an error")
							} else {
								r.Viol(fn, "out-of-range length is an error", p.Pos(instrPos(iff)), "on the branch where the length does not fit the function returns without recording an error: the field is silently left out and the decoder reads garbage", p.describePath(w)...)
							}
						}
					}
				}
			}
		}
	}
}

// rangeGuarded: `at` is dominated by the in-range edge of a comparison of v with a constant upper bound.
func rangeGuarded(v ssa.Value, at ssa.Instruction) bool {
	for _, ref := range *v.Referrers() {
		bo, ok := ref.(*ssa.BinOp)
		if !ok {
			continue
		}
		op := bo.Op.String()
		var k ssa.Value
		if bo.X == v {
			k = bo.Y
		} else {
			k = bo.X
			op = flipCmp(op)
		}
		if _, isConst := k.(*ssa.Const); !isConst {
			continue
		}
		if kv, ok := constInt(k); !ok || kv <= 0 {
			continue
		}
		inRange := -1
		switch op {
		case ">", ">=":
			inRange = 1
		case "<", "<=":
			inRange = 0
		}
		if inRange < 0 {
			continue
		}
		for _, r2 := range *bo.Referrers() {
			iff, ok := r2.(*ssa.If)
			if !ok {
				continue
			}
			sb := iff.Block().Succs[inRange]
			other := iff.Block().Succs[1-inRange]
			if sb != other && len(sb.Preds) == 1 && (sb == at.Block() || sb.Dominates(at.Block())) {
				return true
			}
		}
	}
	return false
}

// ---- CODEC.PREFIX ----

func runCodecPrefix(c *Ctx, r *RuleRun) {
	p := c.P
	for _, name := range []string{"Encode", "Decode"} {
		f := p.Fn("table", "Data", name)
		if f == nil {
			r.Undecided("-", "Data."+name, "", "anchor not found")
			continue
		}
		// a loop-carried string: a phi in a loop whose incoming values include a non-constant value computed in the loop
		carried := false
		usedLCP := false
		for _, b := range f.Blocks {
			for _, ins := range b.Instrs {
				ph, ok := ins.(*ssa.Phi)
				if !ok || !inLoop(b) {
					continue
				}
				if bt, ok := ph.Type().Underlying().(*types.Basic); !ok || bt.Info()&types.IsString == 0 {
					continue
				}
				for _, e := range ph.Edges {
					if _, isConst := e.(*ssa.Const); isConst || e == ssa.Value(ph) {
						continue
					}
					if ei, ok := e.(ssa.Instruction); ok && inLoop(ei.Block()) {
						carried = true
						// the carried value is consumed by the prefix computation (LCP call or slicing prev[:lcp])
						for _, ref := range *ph.Referrers() {
							switch ref.(type) {
							case *ssa.Call, *ssa.Slice:
								usedLCP = true
							}
						}
					}
				}
			}
		}
		r.Check(carried && usedLCP, p.FnName(f), "prevKey", p.Pos(f.Pos()), "the previous key is carried over the loop and used for the shared prefix",
			"the previous key is not carried from one entry to the next: shared prefixes are computed against a stale key and keys decode wrongly")
	}
}
