package main

// Rules added from the triage of the mutation sweep's silent survivors (mutation/SURVIVORS.md): four mutants that the
// test suite lets through and that break a property were not reported; each rule below states the clause they broke.

import (
	"fmt"
	"go/token"
	"go/types"

	"golang.org/x/tools/go/ssa"
)

func init() {
	register(&Rule{ID: "KWAY.FEED", Engine: "E-GUARD", Min: 1,
		Desc: "every non-empty input list enters the merge and is drained: a heap.Push of the head of a list is guarded by exactly `the list is not empty` - a stronger guard (len > 1) leaves the entries of a short list out of the merged table",
		Run:  runKwayFeed})
	register(&Rule{ID: "RECOVER.ORDER", Engine: "E-GUARD", Min: 1, Spec: true,
		Desc: "recovery loads the table files in (level, index) order, both compared as numbers: the comparator handed to the sort answers with the comparison of the levels exactly when they differ and with the comparison of the indices otherwise",
		Run:  runRecoverOrder})
	register(&Rule{ID: "CODEC.LENOF", Engine: "E-SIB", Min: 1,
		Desc: "a length prefix describes the bytes that follow it: every WriteLen16(len(x)) is followed by the write of that same x",
		Run:  runCodecLenOf})
	register(&Rule{ID: "SKIP.NILGUARD", Engine: "E-GUARD", Min: 5,
		Desc: "the skiplist reads the key of a successor only after having seen that this successor is not nil: every CompareKeys on x.next[i].Key is dominated by the test x.next[i] != nil of the same pointer",
		Run:  runSkipNilGuard})
}

// ---- KWAY.FEED ----

func runKwayFeed(c *Ctx, r *RuleRun) {
	p := c.P
	fns := []*ssa.Function{p.Fn("pkg/kway", "", "MergeVersions"), p.Fn("pkg/kway", "", "Merge")}
	n := 0
	for _, f := range fns {
		if f == nil {
			continue
		}
		fn := p.FnName(f)
		// (a helper of the package that pushes the head of a list is judged at its own push)
		eachInstrOf(localFns(p, f), func(ins ssa.Instruction) {
			cl, ok := ins.(*ssa.Call)
			if !ok {
				return
			}
			obj := p.CalleeObj(cl)
			if obj == nil || !funcIs(obj, "container/heap", "", "Push") {
				return
			}
			n++
			// the facts about a slice length under which this push happens
			nonEmpty, stronger := false, ""
			for _, f0 := range factsAt(cl) {
				for _, cm := range []Cmp{f0, f0.Flip()} {
					if cm.Y == nil {
						continue
					}
					lc, ok := stripValue(cm.X).(*ssa.Call)
					if !ok {
						continue
					}
					bi, ok := lc.Call.Value.(*ssa.Builtin)
					if !ok || bi.Name() != "len" {
						continue
					}
					if _, isSlice := lc.Call.Args[0].Type().Underlying().(*types.Slice); !isSlice {
						continue
					}
					k, isK := constInt(cm.Y)
					if !isK {
						continue
					}
					switch {
					case (cm.Op == ">" && k == 0) || (cm.Op == ">=" && k == 1) || (cm.Op == "!=" && k == 0):
						nonEmpty = true
					case (cm.Op == ">" && k >= 1) || (cm.Op == ">=" && k >= 2) || (cm.Op == "==" && k >= 1):
						stronger = fmt.Sprintf("len(list) %s %d", cm.Op, k)
					}
					break
				}
			}
			switch {
			case stronger != "":
				r.Viol(fn, "every non-empty list is fed to the merge", p.Pos(instrPos(cl)), "the head of a list is pushed only under "+stronger+": a list with fewer entries never enters the merge (or its last entries are never pulled) and what it holds is missing from the merged table")
			case nonEmpty:
				r.Hold(fn, "every non-empty list is fed to the merge", p.Pos(instrPos(cl)), "pushed under len(list) > 0")
			default:
				r.Undecided(fn, "every non-empty list is fed to the merge", p.Pos(instrPos(cl)), "the push is not guarded by a test of a list's length")
			}
		})
	}
	if n == 0 {
		r.Undecided("kway", "every non-empty list is fed to the merge", "", "no heap.Push in the merge functions")
	}
}

// ---- RECOVER.ORDER ----

func runRecoverOrder(c *Ctx, r *RuleRun) {
	p := c.P
	rec := p.FnOr("", "levelManager", "recover")
	if rec == nil {
		r.Undecided("-", "levelManager.recover", "", "anchor not found")
		return
	}
	// the parser of table file names: (level, idx, err)
	var parse *ssa.Function
	for _, f := range p.Funcs {
		if f.Pkg == rec.Pkg && resultIsIntIntErr(f) && len(f.Params) == 1 && isStringType(f.Params[0].Type()) {
			parse = f
		}
	}
	if parse == nil {
		r.Undecided(p.FnName(rec), "table files sorted by (level, index)", "", "no file-name parser (string) (int, int, error) found")
		return
	}
	// comparators: closures func(a, b string) int created in recover or one of its helpers
	n := 0
	for _, host := range localFns(p, rec) {
		cands := append([]*ssa.Function{}, host.AnonFuncs...)
		// a named comparator handed over as a function value
		eachInstr(host, func(ins ssa.Instruction) {
			ci, ok := ins.(ssa.CallInstruction)
			if !ok {
				return
			}
			for _, arg := range ci.Common().Args {
				v := arg
				if ct, isCT := v.(*ssa.ChangeType); isCT {
					v = ct.X
				}
				if g, isFn := v.(*ssa.Function); isFn && g.Pkg == rec.Pkg && len(g.Blocks) > 0 && g.Parent() == nil {
					cands = append(cands, g)
				}
			}
		})
		for _, cf := range cands {
			cf := cf
			func() {
				if len(cf.Params) != 2 || !resultIs(cf, types.Int) || !types.Identical(cf.Params[0].Type(), cf.Params[1].Type()) {
					return
				}
				// the names themselves, or a small struct that carries a name with its parsed level and index: which field
				// holds which component is read off the places that fill such a struct from the parser's results
				fieldComp := map[int]int{}
				if !isStringType(cf.Params[0].Type()) {
					st, isStruct := cf.Params[0].Type().Underlying().(*types.Struct)
					if !isStruct || p.isModuleNamed(cf.Params[0].Type()) == nil {
						return
					}
					for _, g := range p.Funcs {
						if g.Pkg != rec.Pkg {
							continue
						}
						eachInstr(g, func(i2 ssa.Instruction) {
							sto, ok := i2.(*ssa.Store)
							if !ok {
								return
							}
							fa, ok := sto.Addr.(*ssa.FieldAddr)
							if !ok {
								return
							}
							pt, ok := fa.X.Type().Underlying().(*types.Pointer)
							if !ok || !types.Identical(pt.Elem(), cf.Params[0].Type()) {
								return
							}
							if ex, ok := stripValue(sto.Val).(*ssa.Extract); ok && ex.Index < 2 {
								if call, ok := ex.Tuple.(*ssa.Call); ok && call.Call.StaticCallee() == parse {
									if old, seen := fieldComp[fa.Field]; seen && old != ex.Index {
										fieldComp[fa.Field] = -1
									} else {
										fieldComp[fa.Field] = ex.Index
									}
								}
							}
						})
					}
					_ = st
					if len(fieldComp) < 2 {
						return
					}
				}
				n++
				fn := p.FnName(host)
				// component k (0 = level, 1 = index) of parameter q
				comp := func(v ssa.Value) (param, k int, ok bool) {
					if len(fieldComp) > 0 {
						// a.level / b.idx on the struct parameters (value or spilled copy)
						var base ssa.Value
						fidx := -1
						switch x := stripValue(v).(type) {
						case *ssa.Field:
							base, fidx = x.X, x.Field
						case *ssa.UnOp:
							if fa, ok := x.X.(*ssa.FieldAddr); ok && x.Op == token.MUL {
								base, fidx = singleStore(fa.X), fa.Field
							}
						}
						k, known := fieldComp[fidx]
						if base == nil || !known || k < 0 {
							return 0, 0, false
						}
						for i, q := range cf.Params {
							if base == ssa.Value(q) {
								return i, k, true
							}
						}
						return 0, 0, false
					}
					ex, isEx := stripValue(v).(*ssa.Extract)
					if !isEx {
						return 0, 0, false
					}
					call, isCall := ex.Tuple.(*ssa.Call)
					if !isCall || call.Call.StaticCallee() != parse || len(call.Call.Args) != 1 {
						return 0, 0, false
					}
					for i, q := range cf.Params {
						if call.Call.Args[0] == ssa.Value(q) {
							return i, ex.Index, ex.Index < 2
						}
					}
					return 0, 0, false
				}
				// v = cmp.Compare(x, y) / x - y on one component of both names: (component, flipped)
				cmpOf := func(v ssa.Value) (k int, flipped, ok bool) {
					var x, y ssa.Value
					switch t := stripValue(v).(type) {
					case *ssa.Call:
						g := t.Call.StaticCallee()
						if g == nil || len(t.Call.Args) != 2 {
							return 0, false, false
						}
						og := g
						if g.Origin() != nil {
							og = g.Origin()
						}
						if og.Pkg == nil || og.Pkg.Pkg.Path() != "cmp" || og.Name() != "Compare" {
							return 0, false, false
						}
						x, y = t.Call.Args[0], t.Call.Args[1]
					case *ssa.BinOp:
						if t.Op != token.SUB {
							return 0, false, false
						}
						x, y = t.X, t.Y
					default:
						return 0, false, false
					}
					p1, k1, ok1 := comp(x)
					p2, k2, ok2 := comp(y)
					if !ok1 || !ok2 || k1 != k2 || p1 == p2 {
						return 0, false, false
					}
					return k1, p1 == 1, true
				}
				allow := map[string][]string{"<": {"<"}, "<=": {"<", "="}, "==": {"="}, "!=": {"<", ">"}, ">=": {"=", ">"}, ">": {">"}}
				good, sawLevel, sawIdx := true, false, false
				why := ""
				eachInstr(cf, func(i2 ssa.Instruction) {
					ret, ok := i2.(*ssa.Return)
					if !ok || len(ret.Results) != 1 {
						return
					}
					// what is known about the level comparison at this return
					rel := map[string]bool{"<": true, "=": true, ">": true}
					for _, f0 := range factsAt(ret) {
						for _, cm := range []Cmp{f0, f0.Flip()} {
							if cm.Y == nil {
								continue
							}
							kk, isK := constInt(cm.Y)
							k, _, isCmp := cmpOf(cm.X)
							if !isK || kk != 0 || !isCmp || k != 0 {
								continue
							}
							next := map[string]bool{}
							for _, a := range allow[cm.Op] {
								if rel[a] {
									next[a] = true
								}
							}
							rel = next
							break
						}
					}
					v := retOperand(ret, 0)
					// cmp.Or(levelCmp, idxCmp): the first non-zero
					if call, isCall := stripValue(v).(*ssa.Call); isCall {
						if g := call.Call.StaticCallee(); g != nil {
							og := g
							if g.Origin() != nil {
								og = g.Origin()
							}
							if og.Pkg != nil && og.Pkg.Pkg.Path() == "cmp" && og.Name() == "Or" {
								var parts []ssa.Value
								derivesFrom(call.Call.Args[0], func(x ssa.Value) bool {
									if k, _, ok := cmpOf(x); ok {
										_ = k
										parts = append(parts, x)
									}
									return false
								})
								okOr := false
								if sl, isSl := call.Call.Args[0].(*ssa.Slice); isSl {
									if al, isAl := sl.X.(*ssa.Alloc); isAl {
										var byIdx [2]ssa.Value
										cnt := 0
										for _, ref := range *al.Referrers() {
											ia, isIA := ref.(*ssa.IndexAddr)
											if !isIA {
												continue
											}
											slot, _ := constInt(ia.Index)
											for _, r2 := range *ia.Referrers() {
												if st, isSt := r2.(*ssa.Store); isSt && slot >= 0 && slot < 2 {
													byIdx[slot] = st.Val
													cnt++
												}
											}
										}
										k0, f0, ok0 := cmpOf(byIdx[0])
										k1, f1, ok1 := cmpOf(byIdx[1])
										okOr = cnt == 2 && ok0 && ok1 && k0 == 0 && k1 == 1 && !f0 && !f1
									}
								}
								if okOr {
									sawLevel, sawIdx = true, true
								} else {
									good, why = false, "cmp.Or is not given (compare levels, compare indices) in that order"
								}
								return
							}
						}
					}
					k, flipped, isCmp := cmpOf(v)
					switch {
					case isCmp && flipped:
						good, why = false, "a comparison is answered with its operands exchanged (descending order)"
					case isCmp && k == 0 && !rel["="]:
						sawLevel = true
					case isCmp && k == 0:
						// the level comparison answered although the levels may be equal: fine only if it is the whole answer for
						// unequal levels and another return handles equality - it is not, at this return equality is possible
						good, why = false, "the comparison of the levels is the answer although the levels may be equal here (the indices are never compared then)"
					case isCmp && k == 1 && len(rel) == 1 && rel["="]:
						sawIdx = true
					case isCmp && k == 1:
						good, why = false, "the comparison of the indices is the answer although the levels may differ here"
					default:
						if kc, isK := constInt(v); isK {
							switch {
							case kc < 0 && len(rel) == 1 && rel["<"], kc > 0 && len(rel) == 1 && rel[">"]:
								sawLevel = true
							default:
								good, why = false, "a constant answer that the comparison of the levels does not justify"
							}
						} else {
							good, why = false, "an answer that is neither the comparison of the levels nor of the indices"
						}
					}
				})
				if good && !(sawLevel && sawIdx) {
					good, why = false, "the comparator does not compare both the level and the index"
				}
				r.Check(good, fn, "table files sorted by (level, index)", p.Pos(cf.Pos()), "levels first, indices when the levels are equal, both as numbers",
					"the comparator that orders the table files for loading is not `by level, then by index`: "+why+" - tables of a level are linked in an order other than their age and an older table answers before a newer one after a restart")
			}()
		}
	}
	if n == 0 {
		r.Undecided(p.FnName(rec), "table files sorted by (level, index)", "", "no comparator func(a, b string) int found in recovery")
	}
}

func resultIsIntIntErr(f *ssa.Function) bool {
	res := f.Signature.Results()
	if res.Len() != 3 || !isErrorType(res.At(2).Type()) {
		return false
	}
	for i := 0; i < 2; i++ {
		bt, ok := res.At(i).Type().Underlying().(*types.Basic)
		if !ok || bt.Kind() != types.Int {
			return false
		}
	}
	return true
}

// ---- CODEC.LENOF ----

func runCodecLenOf(c *Ctx, r *RuleRun) {
	p := c.P
	o := nfOpts{p: p, depth: 8}
	n := 0
	isEW := func(cl *ssa.Call, name string) bool {
		g := cl.Call.StaticCallee()
		if g == nil || g.Signature.Recv() == nil || g.Name() != name {
			return false
		}
		rn := p.isModuleNamed(g.Signature.Recv().Type())
		return rn != nil && rn.Obj().Name() == "ErrorWriter"
	}
	for _, f := range p.Funcs {
		if f.Pkg == nil || (f.Pkg.Pkg.Path() != p.pkgPath("table") && f.Pkg.Pkg.Path() != p.pkgPath("wal")) {
			continue
		}
		fn := p.FnName(f)
		for _, b := range f.Blocks {
			for idx, ins := range b.Instrs {
				cl, ok := ins.(*ssa.Call)
				if !ok || !isEW(cl, "WriteLen16") || len(cl.Call.Args) != 3 {
					continue
				}
				n++
				// the thing measured
				var measured ssa.Value
				if lc, ok := stripValue(cl.Call.Args[2]).(*ssa.Call); ok {
					if bi, ok := lc.Call.Value.(*ssa.Builtin); ok && bi.Name() == "len" {
						measured = lc.Call.Args[0]
					}
				}
				if measured == nil {
					n--
					continue // a 16-bit number that is not the length of a field (the shared-prefix length)
				}
				// the next write of the same writer in this block
				var next *ssa.Call
				for _, i2 := range b.Instrs[idx+1:] {
					if c2, ok := i2.(*ssa.Call); ok && (isEW(c2, "Write") || isEW(c2, "WriteLen16")) {
						next = c2
						break
					}
				}
				good := false
				if next != nil && isEW(next, "Write") && len(next.Call.Args) == 3 {
					data := next.Call.Args[2]
					if mi, ok := data.(*ssa.MakeInterface); ok {
						data = mi.X
					}
					data = unconv(data)
					m := unconv(measured)
					good = data == m || o.nf(data) == o.nf(m)
				}
				r.Check(good, fn, "length prefix describes the bytes that follow", p.Pos(instrPos(cl)), "WriteLen16(len(x)) is followed by Write(x)",
					"the length written is not the length of the bytes written right after it: the decoder cuts the field at the wrong place and everything behind it decodes to garbage")
			}
		}
	}
	if n == 0 {
		r.Undecided("-", "length prefix describes the bytes that follow", "", "no WriteLen16 call found")
	}
}

// ---- SKIP.NILGUARD ----

func runSkipNilGuard(c *Ctx, r *RuleRun) {
	p := c.P
	cmpKeys := p.Fn("types", "", "CompareKeys")
	nextF := p.Field("pkg/skiplist", "Element", "next")
	if cmpKeys == nil || nextF == nil {
		r.Undecided("-", "skiplist", "", "anchors not found")
		return
	}
	n := 0
	for _, f := range p.Funcs {
		if f.Pkg == nil || f.Pkg.Pkg.Path() != p.pkgPath("pkg/skiplist") {
			continue
		}
		fn := p.FnName(f)
		for _, call := range callsTo(p, f, cmpKeys) {
			// the element pointer whose key is compared: the pointer the key field is read through - a load of
			// &x.next[i], or a variable (phi) that such loads flow into
			var ep ssa.Value
			for _, arg := range call.Call.Args {
				ld, ok := stripValue(arg).(*ssa.UnOp)
				if !ok || ld.Op != token.MUL {
					continue
				}
				base := ld.X
				for {
					fa, isFA := base.(*ssa.FieldAddr)
					if !isFA {
						break
					}
					base = fa.X
				}
				if _, isPtr := base.Type().Underlying().(*types.Pointer); !isPtr {
					continue
				}
				fromNext := derivesFrom(base, func(x ssa.Value) bool {
					l2, ok := x.(*ssa.UnOp)
					if !ok || l2.Op != token.MUL {
						return false
					}
					ia, ok := l2.X.(*ssa.IndexAddr)
					if !ok {
						return false
					}
					fv, _ := loadedField(ia.X)
					return fv == nextF
				})
				if fromNext {
					ep = base
				}
			}
			if ep == nil {
				continue // compares the key of an element that is not a successor pointer (the key searched for, an entry)
			}
			n++
			guarded := hasFact(call, func(cm Cmp) bool {
				if cm.Op != "!=" || cm.Y == nil || !isNilConst(cm.Y) {
					return false
				}
				return cm.X == ep || sameReRead(p, cm.X, ep)
			})
			r.Check(guarded, fn, "successor tested before its key is read", p.Pos(instrPos(call)), "dominated by next != nil of the same pointer",
				"the key of x.next[i] is compared without the test x.next[i] != nil of that pointer (or under its negation): the walk stops at the first element or dereferences nil at the end of a level, and keys that are present are not found")
		}
	}
	if n == 0 {
		r.Undecided("skiplist", "successor tested before its key is read", "", "no comparison of a successor's key found")
	}
}
