package main

// Normal forms of SSA expressions for sibling comparison (E-SIB): names of locals disappear, operands of
// commutative operators are ordered, comparisons are oriented.

import (
	"fmt"
	"go/token"
	"go/types"
	"sort"
	"strings"

	"golang.org/x/tools/go/ssa"
)

type nfOpts struct {
	p *Prog
	// abstract: values that are rendered as a fixed token (e.g. the search target)
	abstract func(v ssa.Value) string
	depth    int
}

func (o nfOpts) nf(v ssa.Value) string { return o.nfD(v, 0, map[ssa.Value]bool{}) }

func (o nfOpts) nfD(v ssa.Value, d int, seen map[ssa.Value]bool) string {
	max := o.depth
	if max == 0 {
		max = 9
	}
	if v == nil {
		return "nil"
	}
	if o.abstract != nil {
		if s := o.abstract(v); s != "" {
			return s
		}
	}
	if d > max {
		return "…"
	}
	if seen[v] {
		return "loop"
	}
	seen[v] = true
	defer delete(seen, v)
	rec := func(x ssa.Value) string { return o.nfD(x, d+1, seen) }
	switch x := v.(type) {
	case *ssa.Const:
		if x.Value == nil {
			return "nil"
		}
		return x.Value.ExactString()
	case *ssa.Parameter:
		for i, p := range x.Parent().Params {
			if p == x {
				if i == 0 && x.Parent().Signature.Recv() != nil {
					return "recv"
				}
				return fmt.Sprintf("param:%s", x.Type().String())
			}
		}
		return "param"
	case *ssa.FreeVar:
		return "freevar:" + x.Type().String()
	case *ssa.Global:
		return "global:" + x.Name()
	case *ssa.Alloc:
		// a local cell: render what is stored into it (single assignment cells), else by type
		var vals []string
		for _, ref := range *x.Referrers() {
			if st, ok := ref.(*ssa.Store); ok && st.Addr == x {
				vals = append(vals, rec(st.Val))
			}
		}
		if len(vals) == 1 {
			return vals[0]
		}
		return "cell:" + x.Type().String()
	case *ssa.BinOp:
		a, b := rec(x.X), rec(x.Y)
		op := x.Op.String()
		switch x.Op {
		case token.ADD, token.MUL, token.AND, token.OR, token.XOR, token.EQL, token.NEQ:
			if a > b {
				a, b = b, a
			}
		case token.GTR:
			op, a, b = "<", b, a
		case token.GEQ:
			op, a, b = "<=", b, a
		}
		return fmt.Sprintf("(%s %s %s)", a, op, b)
	case *ssa.UnOp:
		if x.Op == token.MUL {
			return "*" + rec(x.X)
		}
		return x.Op.String() + rec(x.X)
	case *ssa.FieldAddr:
		st := x.X.Type().Underlying().(*types.Pointer).Elem().Underlying().(*types.Struct)
		return rec(x.X) + "." + st.Field(x.Field).Name()
	case *ssa.Field:
		st := x.X.Type().Underlying().(*types.Struct)
		return rec(x.X) + "." + st.Field(x.Field).Name()
	case *ssa.IndexAddr:
		return rec(x.X) + "[" + rec(x.Index) + "]"
	case *ssa.Index:
		return rec(x.X) + "[" + rec(x.Index) + "]"
	case *ssa.Lookup:
		return rec(x.X) + "[" + rec(x.Index) + "]"
	case *ssa.Slice:
		return rec(x.X) + "[" + rec(x.Low) + ":" + rec(x.High) + "]"
	case *ssa.Convert:
		return "conv<" + x.Type().String() + ">(" + rec(x.X) + ")"
	case *ssa.ChangeType:
		return rec(x.X)
	case *ssa.MakeInterface:
		return rec(x.X)
	case *ssa.TypeAssert:
		return "assert<" + x.AssertedType.String() + ">(" + rec(x.X) + ")"
	case *ssa.Extract:
		return fmt.Sprintf("%s#%d", rec(x.Tuple), x.Index)
	case *ssa.Next:
		return "next(" + rec(x.Iter) + ")"
	case *ssa.Range:
		return "range(" + rec(x.X) + ")"
	case *ssa.Phi:
		if s, ok := o.phiCongruent(x, d, seen); ok {
			return s
		}
		var es []string
		for _, e := range x.Edges {
			es = append(es, rec(e))
		}
		sort.Strings(es)
		// dedupe
		var out []string
		for i, e := range es {
			if i == 0 || e != es[i-1] {
				out = append(out, e)
			}
		}
		return "phi[" + strings.Join(out, "|") + "]"
	case *ssa.Call:
		name := ""
		if bi, ok := x.Call.Value.(*ssa.Builtin); ok {
			name = bi.Name()
		} else if obj := o.p.CalleeObj(x); obj != nil {
			name = obj.Name()
			if x.Call.IsInvoke() {
				name = "invoke " + name + " on " + rec(x.Call.Value)
			}
		} else {
			name = "dyn"
		}
		var as []string
		for _, a := range x.Call.Args {
			as = append(as, rec(a))
		}
		return name + "(" + strings.Join(as, ", ") + ")"
	case *ssa.MakeSlice:
		return "make<" + x.Type().String() + ">"
	case *ssa.MakeMap:
		return "makemap<" + x.Type().String() + ">"
	}
	return fmt.Sprintf("%T", v)
}

// shape: a coarse structural fingerprint of a function: the sequence of instruction kinds (types abstracted).
func funcShape(f *ssa.Function) string {
	var parts []string
	for _, b := range f.Blocks {
		for _, ins := range b.Instrs {
			switch x := ins.(type) {
			case *ssa.BinOp:
				parts = append(parts, "binop"+x.Op.String())
			case *ssa.UnOp:
				parts = append(parts, "unop"+x.Op.String())
			case *ssa.Call:
				if bi, ok := x.Call.Value.(*ssa.Builtin); ok {
					parts = append(parts, "call:"+bi.Name())
				} else {
					parts = append(parts, "call")
				}
			case *ssa.DebugRef:
			default:
				parts = append(parts, strings.TrimPrefix(fmt.Sprintf("%T", ins), "*ssa."))
			}
		}
		parts = append(parts, "|")
	}
	return strings.Join(parts, " ")
}

// phiCongruent: a phi whose k-th edge is the same expression e(·) over the k-th edge of a sibling phi q of the same block
// is e(q) - `for nxt := curr.next[i]; …; nxt = curr.next[i] { curr = nxt }` keeps nxt == curr.next[i] at the loop head.
func (o nfOpts) phiCongruent(x *ssa.Phi, d int, seen map[ssa.Value]bool) (string, bool) {
	const hole = "\u00a7"
	for _, ins := range x.Block().Instrs {
		q, ok := ins.(*ssa.Phi)
		if !ok {
			break
		}
		if q == x || len(q.Edges) != len(x.Edges) || len(x.Edges) < 2 {
			continue
		}
		shape, good := "", true
		for k, e := range x.Edges {
			qe := q.Edges[k]
			if qe == e {
				good = false
				break
			}
			o2 := o
			o2.abstract = func(v ssa.Value) string {
				if v == qe {
					return hole
				}
				if o.abstract != nil {
					return o.abstract(v)
				}
				return ""
			}
			sk := o2.nfD(e, d, seen)
			if !strings.Contains(sk, hole) || (k > 0 && sk != shape) {
				good = false
				break
			}
			shape = sk
		}
		if good {
			return strings.ReplaceAll(shape, hole, o.nfD(q, d+1, seen)), true
		}
	}
	return "", false
}
